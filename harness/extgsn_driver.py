"""EXTGSN driver: the real BleController + BlePairing (loaded with load_pairing over a real characteristic cache) on the
virtual-time loop, against the simulated GATT world of harness/extble_driver.py (its fakes are imported, not copied:
Link / World / Point / Handle, the reference accessory, the establish_connection / key wrappers).

What this driver adds on top of that world:
  * an accessory with a current value of one characteristic (brightness), a global state number (GSN: incremented by
    the first change of a connection cycle - connected or disconnected -, 65535 -> 1) and a configuration number; the
    GATT answers of the imported Link are fed from it (protocol parameters: world.gsn; characteristic value: VALUES);
  * advertisements (regular 0x06 and encrypted 0x11, the latter sealed by the independent sealer of
    harness/c18_driver.py under the broadcast key the accessory derived when it was asked to generate one) fed through
    the real BleController._device_detected;
  * virtual time for availability: `aiohomekit.controller.ble.pairing.time` is replaced by an object whose monotonic()
    is the virtual loop time (harness side only);
  * restart: a new BleController + load_pairing over the same cache object (the old process' tasks vanish);
  * observation at the boundaries only: the accessory (protocol-parameter reads, characteristic reads, key generation),
    the Bluetooth boundary (connection attempts, link loss, start_notify), the injected cache (every write), the
    registered listeners (values / availability / configuration), the public attributes after every stimulus.
    `_async_fetch_gatt_database` (enumeration of bleak's service collection, which the fake client does not have) is
    replaced by a stand-in that suspends on a pending point and returns the accessory database.

Nothing here decides a verdict: the recorded event sequence is validated by TLC against spec/ble/BleGsn_Trace.tla.
"""
from __future__ import annotations

import asyncio
import types

from harness import extble_driver as D
from harness.c18_driver import seal_notification
from harness.refacc import crypto as RC

IID = D.IID_BRIGHT
ALIAS = "alias-gsn"
KEEP = {"conn_req", "conn_res", "drop", "keys", "notify"}
MAX_GSN = 65535


def accessories_json():
    acc = D.accessories_json()
    for s in acc[0]["services"]:
        for ch in s["characteristics"]:
            if ch["iid"] in (D.IID_ON, D.IID_BRIGHT):
                ch["disconnected_events"] = True
                ch["broadcast_events"] = True
    return acc


class GLink(D.Link):
    """The imported link + observation of what reaches the accessory."""
    shared = None

    def _new_session(self, shared):
        self.shared = shared
        super()._new_session(shared)

    def data_write(self, handle, data):
        w = self.world
        D.VALUES[IID] = bytes([w.aval])
        had = self.resp
        ok = super().data_write(handle, data)
        if ok and self.resp is not None and self.resp is not had:
            body = self.resp[1]
            if handle.uuid == D.CH_SIGNATURE:
                if body:
                    w.glog("params", g=w.gsn)
                else:
                    w.acc_genkey(self)
            elif handle.iid == IID and body:
                w.glog("read", v=w.aval)
            elif handle.iid == IID:
                # characteristic configuration (broadcasts enabled); the runs of this check write no values
                w.bcen = True
                w.glog("bcen")
        return ok


class GCache:
    """CharacteristicCacheMemory (created lazily to import aiohomekit late) that reports every write."""

    def __new__(cls, world):
        from aiohomekit.characteristic_cache import CharacteristicCacheMemory

        class _C(CharacteristicCacheMemory):
            def async_create_or_update_map(self, homekit_id, config_num, accessories, broadcast_key=None, state_num=None):
                world.cache_written(homekit_id, config_num, accessories, broadcast_key, state_num)
                return super().async_create_or_update_map(homekit_id, config_num, accessories, broadcast_key, state_num)
        return _C()


class GWorld(D.World):
    def __init__(self, seed, rid="", cache="entry", gsn=7, cn=1, aval=1):
        """cache: "entry" (config cn, state number gsn), "nosn" (entry without state number), "none"."""
        self._mute = True
        self.gev = []
        super().__init__(seed, rid)
        import aiohomekit.controller.ble.pairing as P
        self._orig_link, self._orig_time, self._orig_values = D.Link, P.time, dict(D.VALUES)
        D.Link = GLink
        loop = self.loop
        P.time = types.SimpleNamespace(monotonic=lambda: loop.time())
        self.INTERVAL = P.AVAILABILITY_INTERVAL
        # ---- the accessory
        self.gsn, self.cn, self.aval = gsn, cn, aval
        self.bumped = False
        self.bcen = False
        self.akey = None
        self.nkeys = 0
        self.history = [gsn]          # state numbers the accessory has advertised (for stale advertisements)
        self.lastb = None
        self.bhist = []              # broadcasts the accessory has sent (for replays)
        self.init = {"cache": cache, "gsn": gsn, "cn": cn, "aval": aval}
        self.skipped = None
        # ---- the pairing data / cache / controller
        pd = self.ident.pairing_data(self.ctrl_ident)
        pd = {k: v for k, v in pd.items() if not k.startswith("AccessoryIP") and k != "AccessoryPort"}
        pd.update({"Connection": "BLE", "AccessoryAddress": D.ADDRESS})
        self.pd = pd
        self.cache = GCache(self)
        if cache != "none":
            self.cache.storage_data[D.ACC_ID] = {"config_num": cn, "accessories": accessories_json(), "broadcast_key": None,
                                                 "state_num": gsn if cache == "entry" else None}
        self.calls = {}
        self.gen = 0
        self._mute = False
        self._boot()

    # ------------------------------------------------------------------ plumbing
    def log(self, ev, **kw):
        """events of the imported world: only the ones of this check's vocabulary are kept"""
        if ev in KEEP:
            if ev == "notify" and kw.get("iid") != IID:
                return
            kw = {"out": kw["out"]} if ev == "conn_res" else {}
            self.glog(ev, **kw)

    def glog(self, ev, **kw):
        if self._mute:
            return
        rec = {"ev": ev}
        rec.update(kw)
        self.gev.append(rec)

    def cache_written(self, hid, cn, accessories, key, sn):
        if self._mute:
            self.problems.append("cache written while the old process was being torn down")
        self.glog("cache", cn=_num(cn), sn=_num(sn), k=self._key_epoch(key))

    def _key_epoch(self, key):
        """0: no key; n: the n-th key the accessory generated; -1: some other key"""
        if not key:
            return 0
        raw = bytes.fromhex(key) if isinstance(key, str) else bytes(key)
        return self._keys_seen.get(raw, -1)

    def _boot(self):
        """(re)start the controller process: BleController + load_pairing over the cache"""
        from aiohomekit.controller.ble.controller import BleController
        from aiohomekit.model import Accessories
        if not hasattr(self, "_keys_seen"):
            self._keys_seen = {}

        async def mk():
            return BleController(self.cache)
        self.controller = self.loop.run_until_complete(mk())
        self.pairing = p = self.controller.load_pairing(ALIAS, dict(self.pd))
        self.gen += 1
        world = self

        async def fetch_stub():
            world.glog("fetch")
            await world.point("fetch", p.client)
            return Accessories.from_list(accessories_json())
        p._async_fetch_gatt_database = fetch_stub
        p.dispatcher_availability_changed(lambda v: world.glog("avail_cb", v=1 if v is True else 0 if v is False else -3))
        p.dispatcher_connect_config_changed(lambda c: world.glog("cfg_cb", c=_num(c)))
        self.subscribed = False

    def acc_genkey(self, link):
        ltpk = bytes.fromhex(self.pd["iOSDeviceLTPK"])
        self.akey = RC.hkdf(link.shared, ltpk, b"Broadcast-Encryption-Key")
        self.nkeys += 1
        self._keys_seen[self.akey] = self.nkeys
        self.glog("genkey", k=self.nkeys)

    def _after(self):
        self.settle()
        self.obs()

    def obs(self):
        p = self.pairing
        d = p.description
        st = p.accessories_state
        self.glog("obs", dsn=_num(d.state_num) if d is not None else 0, dcn=_num(d.config_num) if d is not None else 0,
                  has=st is not None, asn=_num(p.state_num), ccn=_num(p.config_num), avail=bool(p.is_available),
                  conn=bool(p.is_connected), k=self._key_epoch(p.broadcast_key),
                  cache=self._cache_view())

    def _cache_view(self):
        e = self.cache.storage_data.get(D.ACC_ID)
        if e is None:
            return []
        return [_num(e.get("config_num")), _num(e.get("state_num")), self._key_epoch(e.get("broadcast_key"))]

    # ------------------------------------------------------------------ stimuli: the air
    def _feed(self, mfr: bytes):
        from bleak.backends.device import BLEDevice
        from bleak.backends.scanner import AdvertisementData
        adv = AdvertisementData(local_name="sim", manufacturer_data={76: mfr}, service_data={}, service_uuids=[],
                                tx_power=-127, rssi=-60, platform_data=((),))
        dev = BLEDevice(D.ADDRESS, "sim", None)
        exc = []

        def cb():
            try:
                self.controller._device_detected(dev, adv)
            except Exception as ex:  # noqa: BLE001
                exc.append(f"{type(ex).__name__}: {ex}")
        self.loop.call_soon(cb)
        return exc

    def adv(self, g, c):
        """a regular HomeKit advertisement with state number g and configuration number c"""
        devid = bytes.fromhex(D.ACC_ID.replace(":", ""))
        mfr = bytes([0x06, 0x31, 0x00]) + devid + int(5).to_bytes(2, "little") + int(g).to_bytes(2, "little") + bytes([c & 0xFF, 2]) + b"\x01\x02\x03\x04"
        self.glog("adv", g=g, c=c)
        exc = self._feed(mfr)
        self.settle()
        if exc:
            self.glog("exc", what=exc[0][:120])
        self.obs()

    def bcast(self, g, v, stale_key=False):
        """an encrypted broadcast notification: state number g, value v of the brightness characteristic"""
        if self.akey is None:
            return False
        adv_id = bytes.fromhex(D.ACC_ID.replace(":", ""))
        sealed = seal_notification(self.akey, adv_id, g, g, IID, bytes([v]).ljust(8, b"\0"))
        self.glog("bcast", g=g, v=v)
        exc = self._feed(bytes([0x11, 0x36]) + adv_id + sealed)
        self.settle()
        if exc:
            self.glog("exc", what=exc[0][:120])
        self.obs()
        return True

    # ------------------------------------------------------------------ stimuli: the accessory
    def change(self, v=None):
        """the value changes; the first change of a connection cycle increments the GSN"""
        if v is None or v == self.aval:
            v = self.aval % 3 + 1
        self.aval = v
        bc = self.bcen and not any(x.up for x in self.links)
        if bc or not self.bumped:
            self.gsn = 1 if self.gsn >= MAX_GSN else self.gsn + 1
            self.history.append(self.gsn)
        self.bumped = True
        if bc:
            self.lastb = (self.gsn, v)
            self.bhist.append(self.lastb)
        self.glog("change", v=v, g=self.gsn)
        self._after()

    def cfgchange(self):
        if self.cn >= 250:
            return False
        self.cn += 1
        self.glog("cfgchg", c=self.cn)
        self._after()
        return True

    # ------------------------------------------------------------------ stimuli: Bluetooth
    def gatt_live(self):
        return [p for p in self.live() if p.kind in ("wr", "rd", "pv")]

    def step(self, k=1):
        """answer up to k pending GATT operations honestly (no event of its own)"""
        done = 0
        for _ in range(k):
            q = self.gatt_live()
            if not q:
                break
            p = q[0]
            mark = len(self.gev)
            if p.kind == "wr":
                self.write_ok(p)
            elif p.kind == "rd":
                self.read_ok(p)
            else:
                self.pv_answer(p)
            done += 1
            if len(self.gev) > mark:
                self.obs()
        return done

    def conn(self, out="ok"):
        if not self.live("conn"):
            return False
        if out == "ok":
            self.bumped = False
            self.conn_result(True)
        elif out == "fail":
            self.conn_result(False)
        else:
            from bleak.exc import BleakError
            p = self.live("conn")[0]
            self.log("conn_res", out="bfail", n=0)
            p.fut.set_exception(BleakError("harness: connection attempt failed"))
        self._after()
        return True

    def fetch_ok(self):
        q = self.live("fetch")
        if not q:
            return False
        self.glog("fetch_done")
        q[0].fut.set_result(None)
        self._after()
        return True

    def link_drop(self):
        if not any(x.up for x in self.links):
            return False
        self.bumped = False
        self.drop()
        self.obs()
        return True

    def timer(self):
        """the next timer fires (retry back-off, start-notify debounce, discovery time-out)"""
        self.settle()
        nt = self.loop.next_timer()
        if nt is None:
            return False
        if sum(1 for h in self.loop._scheduled if not h._cancelled and h._when == nt) > 1:
            self.skipped = "two timers due at the same instant"
        self.glog("timer")
        self.advance()
        self._after()
        return True

    def tick(self):
        """half of the availability interval passes (pending timers fire first, one by one)"""
        for _ in range(20):
            if not self.timer():
                break
        self.glog("tick")
        self.loop.advance(self.INTERVAL / 2)
        self._after()

    # ------------------------------------------------------------------ stimuli: the application
    def populate(self, c, force=False):
        if c in self.calls and not self.calls[c].done():
            return False
        self.glog("call", c=c, force=bool(force))
        p = self.pairing

        async def runner():
            try:
                await p.async_populate_accessories_state(force_update=force)
            except asyncio.CancelledError:
                self.glog("ret", c=c, res="cancelled")
                raise
            except Exception as ex:  # noqa: BLE001
                self.glog("ret", c=c, res="err")
                return
            self.glog("ret", c=c, res="ok")
        self.calls[c] = self.loop.create_task(runner())
        self._after()
        return True

    def subscribe(self):
        """register a listener and subscribe to the brightness characteristic (only while there is no connection)"""
        if self.subscribed or any(x.up for x in self.links):
            return False
        self.glog("sub")
        p = self.pairing
        p.dispatcher_connect(self._told)
        self.loop.run_until_complete(p.subscribe([(1, IID)]))
        self.subscribed = True
        self._after()
        return True

    def _told(self, ev):
        for k, v in ev.items():
            if tuple(k) == (1, IID) and isinstance(v, dict) and "value" in v:
                self.glog("told", v=_num(v["value"]))
            else:
                self.glog("told_other", k=str(k))

    def restart(self):
        """the controller process dies and is started again over the same cache"""
        self.glog("restart")
        self._mute = True
        if any(x.up for x in self.links):
            self.bumped = False
        try:
            for x in self.links:
                x.up = False
            for t in [t for t in asyncio.all_tasks(self.loop) if not t.done()]:
                t.cancel()
            self.settle()
            for _ in range(5):
                if not [t for t in asyncio.all_tasks(self.loop) if not t.done()]:
                    break
                for p in self.live():
                    p.fut.cancel()
                self.settle()
            for h in list(self.loop._scheduled):
                h.cancel()
        finally:
            self._mute = False
        self.calls = {}
        self._boot()
        self._after()

    # ------------------------------------------------------------------ end of a run
    def honest_tail(self, limit=300):
        """everything pending is answered honestly, timers fire, until nothing is left to do"""
        for _ in range(limit):
            self.settle()
            if self.live("conn"):
                self.conn("ok")
            elif self.live("fetch"):
                self.fetch_ok()
            elif self.gatt_live():
                self.step(1)
            elif self.loop.next_timer() is not None:
                self.timer()
            else:
                break
        self.settle()
        self.glog("end", hung=sorted(c for c, t in self.calls.items() if not t.done()))

    def record(self):
        return {"id": self.rid, "init": self.init, "events": self.gev, "problems": self.problems[:5], "skipped": self.skipped or ""}

    def close(self):
        import aiohomekit.controller.ble.pairing as P
        D.Link = self._orig_link
        P.time = self._orig_time
        D.VALUES.clear()
        D.VALUES.update(self._orig_values)
        super().close()


def _num(x):
    if isinstance(x, bool):
        return int(x)
    if isinstance(x, int):
        return x if -2 ** 31 < x < 2 ** 31 else -2
    return 0 if x is None else -3


# =======================================================================================
# seeded random schedules
# =======================================================================================
def random_run(seed: int, rid: str, nsteps: int = 40, fault: float = 0.2) -> GWorld:
    """advertisements (current / stale / repeated), value and configuration changes, time, connection results, link
    loss, honest GATT progress in bursts, application calls, listener registration, broadcasts, restart"""
    import random
    rng = random.Random(seed)
    start = rng.choice([7, 7, 300, MAX_GSN - 1, MAX_GSN, 1])
    w = GWorld(seed, rid, cache=rng.choice(["entry", "entry", "entry", "nosn", "none"]), gsn=start, cn=rng.choice([1, 1, 3]), aval=rng.choice([1, 2, 3]))
    restarts = 0
    for _ in range(nsteps):
        up = any(x.up for x in w.links)
        acts = [("adv", 8), ("change", 5), ("obs", 1)]
        if w.live("conn"):
            acts += [("conn_ok", 10)]
            if rng.random() < fault:
                acts += [("conn_fail", 5), ("conn_bfail", 5)]
        if w.live("fetch"):
            acts += [("fetch_ok", 8)]
        if w.gatt_live():
            acts += [("step", 14)]
        if up and rng.random() < fault:
            acts += [("drop", 4)]
        if up and not w.gatt_live() and not w.live("fetch"):
            acts += [("drop", 3)]
        if w.loop.next_timer() is not None:
            acts += [("timer", 5)]
        acts += [("tick", 1)]
        if not w.subscribed and not up:
            acts += [("sub", 4)]
        acts += [("call", 3)]
        if w.akey is not None and not up and w.bhist:
            acts += [("bcast", 4)]
        if w.cn < 6 and rng.random() < 0.3:
            acts += [("cfgchg", 1)]
        if restarts < 2 and rng.random() < 0.25:
            acts += [("restart", 1)]
        tot = sum(x for _, x in acts)
        r = rng.random() * tot
        for name, wt in acts:
            r -= wt
            if r < 0:
                break
        if name == "adv":
            x = rng.random()
            g = w.gsn if x < 0.6 else rng.choice(w.history[-4:])
            c = w.cn if rng.random() < 0.85 else rng.randint(1, w.cn)
            w.adv(g, c)
        elif name == "change":
            w.change(rng.choice([1, 2, 3]))
        elif name == "conn_ok":
            w.conn("ok")
        elif name == "conn_fail":
            w.conn("fail")
        elif name == "conn_bfail":
            w.conn("bfail")
        elif name == "fetch_ok":
            w.fetch_ok()
        elif name == "step":
            w.step(rng.choice([1, 1, 2, 3, 5, 8, 30]))
        elif name == "drop":
            w.link_drop()
        elif name == "timer":
            w.timer()
        elif name == "tick":
            w.tick()
        elif name == "sub":
            w.subscribe()
        elif name == "call":
            w.populate(rng.choice([1, 2]), force=rng.random() < 0.4)
        elif name == "bcast":
            if w.bhist:
                w.bcast(*(w.lastb if rng.random() < 0.8 else rng.choice(w.bhist[-3:])))
        elif name == "cfgchg":
            w.cfgchange()
        elif name == "restart":
            restarts += 1
            w.restart()
        else:
            w.settle()
            w.obs()
    w.honest_tail()
    return w


# =======================================================================================
# directed schedules (situations random choice rarely produces; details still drawn from the seed)
# =======================================================================================
def directed_run(seed: int, rid: str, template: str) -> GWorld:
    import random
    rng = random.Random(seed)

    def run_all(w, limit=80):
        """answer everything honestly until the library waits for nothing (timers stay)"""
        for _ in range(limit):
            if w.live("conn"):
                w.conn("ok")
            elif w.live("fetch"):
                w.fetch_ok()
            elif not w.step(1):
                break

    def settle_in(w):
        """a subscribed pairing that has connected once and whose listener knows the current value"""
        w.subscribe()
        w.adv(w.gsn, w.cn)
        w.populate(1)
        run_all(w)
        w.link_drop()
        w.change()
        w.adv(w.gsn, w.cn)
        run_all(w)

    if template == "adopt":
        # the recorded finding: a change whose advertisement has not been processed when an operation reconnects
        w = GWorld(seed, rid, gsn=rng.choice([7, 300, MAX_GSN - 2]))
        settle_in(w)
        if rng.random() < 0.5:
            w.timer()
        w.link_drop()
        w.change()
        w.populate(2, force=False)
        run_all(w)
        w.link_drop()
        for _ in range(rng.randint(1, 3)):
            w.adv(w.gsn, w.cn)
        run_all(w)
    elif template == "wrap":
        w = GWorld(seed, rid, gsn=rng.choice([MAX_GSN, MAX_GSN - 1]))
        settle_in(w)
        for _ in range(3):
            w.link_drop()
            w.change()
            w.adv(w.gsn, w.cn)
            if rng.random() < 0.5:
                w.adv(w.gsn, w.cn)
            run_all(w)
    elif template == "lock":
        # advertisements with changing state numbers while a catch-up poll is in flight: one poll at a time
        w = GWorld(seed, rid)
        settle_in(w)
        w.link_drop()
        w.change()
        w.adv(w.gsn, w.cn)
        k = rng.randint(0, 9)
        if rng.random() < 0.6:
            w.conn("ok")
        w.step(k)
        w.adv(w.history[-2], w.cn)
        w.adv(w.gsn, w.cn)
        w.step(rng.randint(0, 6))
        if rng.random() < 0.5:
            w.adv(w.history[-2], w.cn)
        run_all(w)
        w.adv(w.gsn, w.cn)
        run_all(w)
    elif template == "untried":
        # changed state numbers before the first connection attempt has completed start nothing
        w = GWorld(seed, rid, cache=rng.choice(["entry", "nosn"]))
        w.subscribe()
        w.adv(w.gsn, w.cn)
        w.change()
        w.adv(w.gsn, w.cn)
        w.populate(1)
        w.change()
        w.adv(w.gsn, w.cn)               # while the first attempt is in progress
        if rng.random() < 0.5:
            w.conn("fail")
        else:
            w.conn("ok")
            w.step(rng.randint(0, 5))
        w.link_drop()
        w.change()
        w.adv(w.gsn, w.cn)
        run_all(w)
    elif template == "findtimeout":
        # after a restart the device is unknown: the first operation waits for an advertisement; time-out -> "tried"
        w = GWorld(seed, rid)
        w.subscribe()
        w.populate(1)
        if rng.random() < 0.5:
            w.timer()                    # discovery times out
            w.adv(rng.choice([w.gsn, w.gsn + 1]) if w.gsn < MAX_GSN else w.gsn, w.cn)
        else:
            w.adv(w.gsn, w.cn)           # wakes the waiter
        run_all(w)
        w.link_drop()
        w.change()
        w.adv(w.gsn, w.cn)
        run_all(w)
    elif template == "avail":
        w = GWorld(seed, rid)
        w.adv(w.gsn, w.cn)
        w.tick()
        w.adv(w.gsn, w.cn)               # inside the interval: no callback
        w.tick()
        w.tick()                         # interval elapsed exactly
        if rng.random() < 0.5:
            w.populate(1)
            run_all(w)                   # available through the connection, nobody is told
            w.adv(w.gsn, w.cn)
            w.link_drop()
        w.adv(w.gsn, w.cn)
        w.adv(w.gsn, w.cn)
        w.tick()
        w.tick()
        w.tick()
        w.adv(w.gsn, w.cn)
    elif template == "restart":
        w = GWorld(seed, rid, cache=rng.choice(["entry", "nosn", "none"]))
        settle_in(w)
        w.link_drop()
        if rng.random() < 0.5:
            w.change()
        if rng.random() < 0.5:
            w.adv(w.gsn, w.cn)
            w.step(rng.randint(0, 4))
        w.restart()
        w.subscribe()
        if rng.random() < 0.4:
            w.populate(1)
            w.timer()
        w.adv(w.gsn, w.cn)
        if rng.random() < 0.5:
            w.change()
            w.adv(w.gsn, w.cn)
        w.populate(2)
        run_all(w)
        w.link_drop()
        w.change()
        w.adv(w.gsn, w.cn)
        run_all(w)
    elif template == "cfg":
        w = GWorld(seed, rid, cache=rng.choice(["entry", "entry", "none"]), cn=rng.choice([1, 4]))
        w.subscribe()
        w.adv(w.gsn, w.cn)
        run_all(w)
        w.link_drop()
        w.cfgchange()
        for _ in range(rng.randint(1, 3)):
            w.adv(w.gsn, w.cn)
        w.conn("ok")
        w.step(rng.randint(0, 4))
        if rng.random() < 0.4:
            w.link_drop()
            w.timer()
        if rng.random() < 0.4:
            w.adv(w.gsn, w.cn - 1)       # a stale advertisement with the old configuration number
            w.adv(w.gsn, w.cn)
        run_all(w)
        w.adv(w.gsn, w.cn)
        run_all(w)
    else:
        raise ValueError(template)
    w.honest_tail()
    return w


TEMPLATES = ("adopt", "wrap", "lock", "untried", "findtimeout", "avail", "restart", "cfg")
