"""In-process network for the IP transport: aiohappyeyeballs.start_connection is replaced by a
function that hands out one end of a socket.socketpair(); the other end belongs to the simulated
accessory, which therefore sees every byte, every write boundary and EOF.

Everything the harness learns about the library is observed here (socket boundary) or at the
public API; nothing reads the library's private attributes to decide a verdict.
"""
from __future__ import annotations

import asyncio
import json
import socket
import types

from .refacc import accessory as A
from .refacc import http as H
from .refacc import tlv as T


class PeerSock(socket.socket):
    """Controller-side end of a socketpair that pretends to be a TCP socket to `host`."""
    _peer = ("0.0.0.0", 0)

    def getpeername(self):
        return self._peer

    def setsockopt(self, *a, **k):
        try:
            return super().setsockopt(*a, **k)
        except OSError:
            return None


class AccConn:
    """Accessory end of one connection."""

    def __init__(self, net: "SimNet", cid: int, host: str, sock: socket.socket):
        self.net = net
        self.id = cid
        self.host = host
        self.sock = sock
        self.parser = H.RequestParser()
        self.session: A.SecureSession | None = None
        self.pending_session = None            # installed after the next response is written
        self.pv: A.PairVerify | None = None
        self.requests: list = []               # every request seen (H.Request), in order
        self.unanswered: list = []             # requests not yet answered (for held responses)
        self.writes_seen: list = []            # sizes of the chunks read from the socket (one recv each)
        self.eof = False                       # controller closed (we read EOF / reset)
        self.eof_vt = None
        self.closed = False                    # we closed
        self.verified = False
        self.registrations: dict = {}          # (aid, iid) -> ev bool, as registered on this connection
        sock.setblocking(False)
        net.loop.add_reader(sock.fileno(), self._readable)

    # ---- state
    @property
    def open(self) -> bool:
        return not self.eof and not self.closed

    # ---- reading
    def _readable(self):
        try:
            data = self.sock.recv(1 << 20)
        except BlockingIOError:
            return
        except (ConnectionResetError, OSError):
            data = b""
        if not data:
            self.net.loop.remove_reader(self.sock.fileno())
            if not self.eof:
                self.eof = True
                self.eof_vt = self.net.loop.time()
                self.net.log("acc_eof", conn=self.id)
            return
        self.writes_seen.append(len(data))
        self.net.log("acc_bytes", conn=self.id, n=len(data))
        try:
            plain = self.session.open_stream(data) if self.session else data
        except ValueError as ex:
            self.net.protocol_errors.append((self.id, str(ex)))
            self.net.log("acc_decrypt_fail", conn=self.id)
            return
        for req in self.parser.feed(plain):
            req.conn = self.id
            req.index = len(self.requests)
            req.secure = self.session is not None
            req.vt = self.net.loop.time()
            self.requests.append(req)
            self.unanswered.append(req)
            self.net.log("acc_rx", conn=self.id, method=req.method, target=req.target, n=len(req.raw))
            self.net.behaviour.on_request(self, req)

    # ---- writing
    def send_raw(self, data: bytes):
        if self.closed:
            return
        try:
            self.sock.sendall(data)
        except (BrokenPipeError, ConnectionResetError, OSError):
            pass

    def send_plain(self, data: bytes, frame_sizes=None, pieces=None):
        """Send application bytes, encrypted when the session is secure.
        pieces: list of byte counts - the wire bytes are written in those pieces with the loop
        stepped in between by the caller (returns the list of pieces instead of sending)."""
        wire = self.session.seal(data, frame_sizes) if self.session else data
        if pieces is None:
            self.send_raw(wire)
            return None
        out, p = [], 0
        for n in pieces:
            out.append(wire[p:p + n])
            p += n
        if p < len(wire):
            out.append(wire[p:])
        return out

    def respond(self, req, status=200, body=b"", ctype=H.JSON, **kw):
        if req in self.unanswered:
            self.unanswered.remove(req)
        self.net.log("acc_tx", conn=self.id, kind="resp", status=status, req=req.index)
        self.send_plain(H.response(status, body, ctype, **kw))
        if self.pending_session is not None:
            self.session, self.pending_session = self.pending_session, None

    def send_event(self, body: bytes):
        self.net.log("acc_tx", conn=self.id, kind="event")
        self.send_plain(H.event(body))

    def close(self, reset: bool = False):
        """FIN: orderly close. reset: close with unread data pending so the peer sees ECONNRESET."""
        if self.closed:
            return
        if not reset:
            # an orderly close must not leave unread data behind (the kernel would turn it into a reset)
            for _ in range(64):
                try:
                    import select as _select
                    if not _select.select([self.sock], [], [], 0)[0]:
                        break
                except (OSError, ValueError):
                    break
                before = len(self.writes_seen)
                self._readable()
                if self.eof or len(self.writes_seen) == before:
                    break
        self.closed = True
        try:
            self.net.loop.remove_reader(self.sock.fileno())
        except Exception:  # noqa: BLE001
            pass
        self.net.log("peer_close", conn=self.id, how="reset" if reset else "fin")
        if reset:
            # make sure there is unread data in our receive queue: ask the kernel via the peer
            # (a 1-byte write from the harness side of the *controller* socket is not possible), so
            # use SO_LINGER 0 which makes close() abortive on stream sockets that support it, and
            # fall back to unread-data semantics of AF_UNIX.
            try:
                self.net._poke_unread(self)
            except Exception:  # noqa: BLE001
                pass
        self.sock.close()


class Behaviour:
    """Default accessory behaviour: honest pair-verify, characteristics, events; every step scriptable."""

    def __init__(self, ident: A.Identity, accessories=None):
        self.ident = ident
        self.accessories = accessories if accessories is not None else DEFAULT_ACCESSORIES
        self.values: dict = {}
        self.verify_script = None      # callable(conn, req, step) -> None (handled) | "default"
        self.request_script = None     # callable(conn, req) -> True if handled
        self.hold = False              # True: do not answer secure requests automatically

    # -- dispatch
    def on_request(self, conn: AccConn, req):
        if self.request_script and self.request_script(conn, req):
            return
        if req.target == "/pair-verify" and req.method == "POST":
            return self.on_pair_verify(conn, req)
        if not req.secure:
            return conn.respond(req, 470, b"", None)
        if self.hold:
            return
        self.answer(conn, req)

    # -- pair-verify
    def on_pair_verify(self, conn, req):
        items = T.dec(req.body)
        d = dict(items)
        step = d.get(T.STATE)
        if self.verify_script:
            r = self.verify_script(conn, req, step)
            if r != "default":
                return
        if step == b"\x01":
            conn.pv = A.PairVerify(self.ident)
            out = conn.pv.on_m1(items)
            conn.respond(req, 200, T.enc(out), H.TLV8)
        elif step == b"\x03" and conn.pv:
            out = conn.pv.on_m3(items)
            if conn.pv.verified:
                k = conn.pv.keys()
                conn.pending_session = A.SecureSession(k["a2c"], k["c2a"])
                conn.verified = True
            conn.respond(req, 200, T.enc(out), H.TLV8)
        else:
            conn.respond(req, 200, T.enc([(T.STATE, b"\x02"), (T.ERROR, b"\x01")]), H.TLV8)

    # -- application requests on a secure session
    def answer(self, conn, req):
        if req.method == "GET" and req.target == "/accessories":
            return conn.respond(req, 200, A.hap_json({"accessories": self.accessories}))
        if req.method == "GET" and req.target.startswith("/characteristics?id="):
            ids = req.target.split("=", 1)[1].split(",")
            chars = []
            for s in ids:
                aid, iid = (int(x) for x in s.split("."))
                chars.append({"aid": aid, "iid": iid, "value": self.values.get((aid, iid), 0)})
            return conn.respond(req, 200, A.hap_json({"characteristics": chars}))
        if req.method == "PUT" and req.target == "/characteristics":
            body = json.loads(req.body)
            for c in body.get("characteristics", []):
                key = (c["aid"], c["iid"])
                if "ev" in c:
                    conn.registrations[key] = bool(c["ev"])
                    conn.net.log("acc_reg", conn=conn.id, aid=c["aid"], iid=c["iid"], on=bool(c["ev"]))
                if "value" in c:
                    self.values[key] = c["value"]
            return conn.respond(req, 204, b"", None)
        return conn.respond(req, 404, b"", None)


class SimNet:
    """Replaces aiohappyeyeballs.start_connection for aiohomekit.controller.ip.connection."""

    def __init__(self, loop, behaviour: Behaviour):
        self.loop = loop
        self.behaviour = behaviour
        self.conns: list[AccConn] = []
        self.events: list = []
        self.calls: list = []                  # (vt, hosts) of every start_connection call
        self.protocol_errors: list = []
        self.tcp_script = None                 # callable(hosts) -> ("ok", host) | ("refused",) | ("timeout",)
        self.seq = 0
        self._patched = None

    def log(self, _ev, /, **kw):
        self.seq += 1
        rec = {"seq": self.seq, "vt": self.loop.time(), "ev": _ev}
        rec.update(kw)
        self.events.append(rec)

    # ---- patching
    def install(self):
        import aiohomekit.controller.ip.connection as ipc
        fake = types.SimpleNamespace(
            start_connection=self.start_connection,
            pop_addr_infos_interleave=ipc.aiohappyeyeballs.pop_addr_infos_interleave,
            AddrInfoType=getattr(ipc.aiohappyeyeballs, "AddrInfoType", None),
        )
        self._patched = (ipc, ipc.aiohappyeyeballs)
        ipc.aiohappyeyeballs = fake

    def uninstall(self):
        if self._patched:
            ipc, orig = self._patched
            ipc.aiohappyeyeballs = orig
            self._patched = None
        for c in self.conns:
            try:
                if not c.closed:
                    self.loop.remove_reader(c.sock.fileno())
                    c.sock.close()
            except Exception:  # noqa: BLE001
                pass

    async def start_connection(self, addr_infos, *, happy_eyeballs_delay=None, interleave=None, loop=None, **kw):
        hosts = [ai[3] for ai in addr_infos]
        self.calls.append((self.loop.time(), list(hosts)))
        outcome = self.tcp_script(hosts) if self.tcp_script else ("ok", hosts[0])
        self.log("tcp_call", hosts=list(hosts), outcome=outcome[0])
        if outcome[0] == "refused":
            raise ConnectionRefusedError(111, "Connection refused (simulated)")
        if outcome[0] == "timeout":
            await asyncio.sleep(3600)
            raise OSError("unreachable")
        host = outcome[1]
        a, b = socket.socketpair()
        cs = PeerSock(a.family, a.type, a.proto, fileno=a.detach())
        cs._peer = (host, 51826)
        cs.setblocking(False)
        conn = AccConn(self, len(self.conns), host, b)
        conn.ctrl_sock = cs
        self.conns.append(conn)
        self.log("tcp_ok", conn=conn.id, host=host)
        return cs

    def _poke_unread(self, conn: AccConn):
        # Put one unread byte into the accessory's receive queue by writing it on a dup of the
        # controller's fd: closing a unix stream socket with unread data resets the peer.
        import os
        fd = os.dup(conn.ctrl_sock.fileno())
        try:
            os.write(fd, b"\x00")
        finally:
            os.close(fd)

    # ---- observations
    def open_conns(self):
        return [c.id for c in self.conns if c.open]


DEFAULT_ACCESSORIES = [
    {"aid": 1, "services": [
        {"iid": 1, "type": "0000003E-0000-1000-8000-0026BB765291", "characteristics": [
            {"iid": 2, "type": "00000014-0000-1000-8000-0026BB765291", "perms": ["pw"], "format": "bool"},
            {"iid": 3, "type": "00000023-0000-1000-8000-0026BB765291", "perms": ["pr"], "format": "string", "value": "Sim"},
            {"iid": 4, "type": "00000020-0000-1000-8000-0026BB765291", "perms": ["pr"], "format": "string", "value": "verif"},
            {"iid": 5, "type": "00000021-0000-1000-8000-0026BB765291", "perms": ["pr"], "format": "string", "value": "m"},
            {"iid": 6, "type": "00000030-0000-1000-8000-0026BB765291", "perms": ["pr"], "format": "string", "value": "1"},
            {"iid": 7, "type": "00000052-0000-1000-8000-0026BB765291", "perms": ["pr"], "format": "string", "value": "1.0"},
        ]},
        {"iid": 8, "type": "00000043-0000-1000-8000-0026BB765291", "characteristics": [
            {"iid": 9, "type": "00000025-0000-1000-8000-0026BB765291", "perms": ["pr", "pw", "ev"], "format": "bool", "value": False},
            {"iid": 10, "type": "00000008-0000-1000-8000-0026BB765291", "perms": ["pr", "pw", "ev"], "format": "int",
             "value": 0, "minValue": 0, "maxValue": 100, "minStep": 1},
        ]},
    ]},
    {"aid": 2, "services": [
        {"iid": 1, "type": "0000003E-0000-1000-8000-0026BB765291", "characteristics": [
            {"iid": 2, "type": "00000014-0000-1000-8000-0026BB765291", "perms": ["pw"], "format": "bool"},
            {"iid": 3, "type": "00000023-0000-1000-8000-0026BB765291", "perms": ["pr"], "format": "string", "value": "Sim2"},
        ]},
        {"iid": 8, "type": "00000043-0000-1000-8000-0026BB765291", "characteristics": [
            {"iid": 9, "type": "00000025-0000-1000-8000-0026BB765291", "perms": ["pr", "pw", "ev"], "format": "bool", "value": False},
        ]},
    ]},
]


def make_pairing(loop, hosts=("10.0.0.1",), behaviour: Behaviour | None = None, ident=None, ctrl=None):
    """Create (net, pairing) with an IpPairing bound to a SimNet. Must run with `loop` current."""
    from aiohomekit.characteristic_cache import CharacteristicCacheMemory
    from aiohomekit.controller.ip.pairing import IpPairing

    ident = ident or A.Identity()
    ctrl = ctrl or A.ControllerIdentity()
    pdata = ident.pairing_data(ctrl, hosts=hosts)
    behaviour = behaviour or Behaviour(ident)
    net = SimNet(loop, behaviour)
    net.install()
    controller = types.SimpleNamespace(_char_cache=CharacteristicCacheMemory(), pairings={}, aliases={})

    async def mk():
        return IpPairing(controller, pdata)
    pairing = loop.run_until_complete(mk())
    return net, pairing
