"""C14 driver: concretise ValuePrep cases (fixed-point units) into Python objects, run them through the real
check_convert_value / Service.build_update, and turn what came back into observation records (units again).

Nothing here decides a verdict: the observation records are validated by TLC against spec/chars/ValuePrep
(module ValuePrep_Trace, relation Accept).  The only comparison made in Python is `observation in allowed`
for tolerance-free cases, with `allowed` exported by TLC - used to name the failing case quickly.
"""
from __future__ import annotations

import math
from decimal import Decimal
from fractions import Fraction

CUSTOM_TYPE = "7C14C140-0C14-4C14-8C14-0026BB7C1400"      # not in the library's table: no default min/max/step
SERVICE_TYPE = "7C14C141-0C14-4C14-8C14-0026BB7C1400"
AID, SIID, CIID = 7, 10, 14
CLIP = 1_900_000_000                                         # keeps TLC's 32 bit arithmetic safe

GARBAGE = [("str", "abc"), ("str", ""), ("none", None), ("str", "1e"), ("str", "0x10"), ("str", "1,5"),
           ("str", "--1"), ("bytes", "3132"), ("dict", None), ("str", "twelve")]
NONFINITE = [("str", "nan"), ("str", "inf"), ("str", "-inf"), ("str", "Infinity"), ("str", "sNaN"),
             ("float", "nan"), ("float", "inf"), ("float", "-inf")]
TRUE_TOKENS = [("bool", True), ("int", "1"), ("str", "1"), ("str", "true"), ("str", "True"), ("str", "on"),
               ("str", "yes"), ("str", "y"), ("str", "t"), ("str", "ON")]
FALSE_TOKENS = [("bool", False), ("int", "0"), ("str", "0"), ("str", "false"), ("str", "False"), ("str", "off"),
                ("str", "no"), ("str", "n"), ("str", "f"), ("str", "OFF")]
BOOL_GARBAGE = [("str", "abc"), ("str", ""), ("none", None), ("str", "maybe"), ("dict", None)]
BOOL_OTHERNUM = [("int", "2"), ("int", "-1"), ("int", "255"), ("int", str(2 ** 31)), ("int", str(2 ** 64 - 1)),
                 ("int", str(10 ** 20)), ("int", "3"), ("int", "-255"), ("float", "2.0"), ("float", "-1.0"),
                 ("float", "0.5"), ("float", "1e+20"), ("float", "1.0"), ("float", "0.0"), ("str", "2"), ("str", "-1"),
                 ("str", "255"), ("str", "2.0"), ("str", "1.0"), ("str", "18446744073709551615"), ("str", "0.5")]


# ------------------------------------------------------------------ encoded python values (JSON-able, exact)
def dec(ev):
    """('int','12') -> 12 etc."""
    t, v = ev
    if t == "int":
        return int(v)
    if t == "float":
        return float(v)
    if t == "str":
        return v
    if t == "none":
        return None
    if t == "bool":
        return bool(v)
    if t == "bytes":
        return bytes.fromhex(v)
    if t == "dict":
        return {}
    raise ValueError(t)


def frac_str(fr: Fraction) -> str:
    """Plain decimal string of a fraction with a power-of-ten denominator."""
    d = Decimal(fr.numerator) / Decimal(fr.denominator)
    s = format(d, "f")
    if "." in s:
        s = s.rstrip("0").rstrip(".")
    return s or "0"


def float_reads_as(fr: Fraction):
    """float(fr) if its shortest decimal rendering reads back as exactly fr (the property's 'decimal reading').
    An integer-valued quantity must moreover be represented exactly (above 2^53 the rendering of a float and
    its binary value are different integers, and the statement does not say which one is meant)."""
    try:
        f = float(fr)
    except OverflowError:
        return None
    if math.isinf(f) or Fraction(Decimal(repr(f))) != fr:
        return None
    if fr.denominator == 1 and Fraction(f) != fr:
        return None
    return f


def present(fr: Fraction, how: str):
    """Encoded presentation of the exact value fr, or None if that presentation cannot carry it."""
    if how == "int":
        return ("int", str(fr.numerator)) if fr.denominator == 1 else None
    if how == "float":
        f = float_reads_as(fr)
        return ("float", repr(f)) if f is not None else None
    if how == "str":
        return ("str", frac_str(fr))
    if how == "native":           # what a JSON document would carry
        return present(fr, "int") or present(fr, "float")
    raise ValueError(how)


# ------------------------------------------------------------------ characteristic under test
def make_char(fmt, emin, emax, estep):
    from aiohomekit.model import Accessory
    cd = {"type": CUSTOM_TYPE, "iid": CIID, "perms": ["pr", "pw", "ev"], "format": fmt}
    if emin is not None:
        cd["minValue"] = dec(emin)
    if emax is not None:
        cd["maxValue"] = dec(emax)
    if estep is not None:
        cd["minStep"] = dec(estep)
    acc = Accessory.create_from_dict({"aid": AID, "services": [{"type": SERVICE_TYPE, "iid": SIID,
                                                                "characteristics": [cd]}]})
    svc = acc.services.iid(SIID)
    return svc, svc[CUSTOM_TYPE]


def call(api, svc, char, value):
    """-> (kind, payload): ('value', result) | ('FormatError', msg) | ('other', 'ExcName: msg') | ('shape', text)"""
    from aiohomekit.exceptions import FormatError
    from aiohomekit.model.characteristics.characteristic import check_convert_value
    try:
        if api == "ccv":
            return "value", check_convert_value(value, char)
        out = svc.build_update({CUSTOM_TYPE: value})
        if not (isinstance(out, list) and len(out) == 1 and tuple(out[0][:2]) == (AID, CIID) and len(out[0]) == 3):
            return "shape", repr(out)
        return "value", out[0][2]
    except FormatError as ex:
        return "FormatError", str(ex)
    except Exception as ex:  # noqa: BLE001
        return "other", f"{type(ex).__name__}: {ex}"


def observe(kind, payload, S: int, U: int, B: int):
    """Observation record in units (real = units/S*U + B) for ValuePrep!Accept."""
    if kind != "value":
        return {"kind": "other" if kind == "shape" else kind, "lo": 0, "hi": 0, "lo3": 0, "hi3": 0, "typ": "other"}
    r = payload
    if type(r) is bool:
        typ = "bool"
    elif type(r) is int:
        typ = "int"
    elif type(r) is float:
        typ = "float"
    else:
        return {"kind": "value", "lo": 0, "hi": 0, "lo3": 0, "hi3": 0, "typ": "other"}
    if typ == "float" and (math.isnan(r) or math.isinf(r)):
        return {"kind": "nonfinite", "lo": 0, "hi": 0, "lo3": 0, "hi3": 0, "typ": typ}
    fr = Fraction(int(r)) if typ != "float" else Fraction(Decimal(repr(r)))
    u = (fr - B) / U * S
    lo, hi = _clip_pair(u)
    lo3, hi3 = _clip_pair(u * 1000)
    return {"kind": "value", "lo": lo, "hi": hi, "lo3": lo3, "hi3": hi3, "typ": typ}


def _clip_pair(u: Fraction):
    """floor / ceiling, clipped far outside anything the bounded model can accept (keeps lo != hi if fractional)."""
    lo, hi = math.floor(u), math.ceil(u)
    if hi > CLIP:
        return (CLIP, CLIP) if u.denominator == 1 else (CLIP - 1, CLIP)
    if lo < -CLIP:
        return (-CLIP, -CLIP) if u.denominator == 1 else (-CLIP, -CLIP + 1)
    return lo, hi


# ------------------------------------------------------------------ concretisation of one case
def transforms(shape, v, exact: bool, tier_thorough: bool, rng):
    """(U, B) pairs: real = units/S*U + B.  Beyond (1, 0) only for the exact class, justified by
    ValuePrep!ScaleLemma / ShiftLemma (TLC-checked)."""
    out = [(1, 0)]
    if not exact:
        return out
    S = shape["S"]
    step_active = shape["hasSt"] and shape["st"] != 0
    may_shift = shape["hasLo"] or not step_active
    top = max([v] + ([shape["hi"]] if shape["hasHi"] else [])) // S
    cands = [(1 << 33, 0), (10 ** 10, 0)]
    if may_shift:
        cands.append((1, (2 ** 64 - 1) - top))                       # the largest quantity becomes 2^64-1
        if shape["hasLo"]:
            cands.append((1, -(2 ** 31) - shape["lo"] // S))        # the minimum becomes -2^31
        cands.append((1 << 20, (2 ** 64 - 1) - top * (1 << 20)))
    if tier_thorough:
        out += cands
    else:
        out.append(cands[rng.randrange(len(cands))])
    return out


def values_for(shape, v, S, U, B):
    """Encoded presentations of the input of a numeric case."""
    fr = Fraction(v, S) * U + B
    outs = []
    for how in ("int", "float", "str"):
        ev = present(fr, how)
        if ev is not None:
            outs.append(ev)
    return outs


def params_for(shape, S, U, B, how):
    def one(has, n, shift):
        if not has:
            return None, True
        ev = present(Fraction(n, S) * U + (B if shift else 0), how)
        return ev, ev is not None
    emin, ok1 = one(shape["hasLo"], shape["lo"], True)
    emax, ok2 = one(shape["hasHi"], shape["hi"], True)
    estep, ok3 = one(shape["hasSt"], shape["st"], False)
    if not (ok1 and ok2 and ok3):
        return None
    return emin, emax, estep
