"""C16 helpers: schemas of the TLVStruct classes by reflection, abstract values <-> dataclass
instances, and an independent struct-level reference encoder (on top of harness/refacc/tlv.py).

Abstract values are the ones of spec/codec/TlvStruct.tla: a struct value is a list with one entry per
declared (init) field: [] = unset, [x] = set, x = list of bytes (int: least significant byte first /
enum / bytes / str), a struct value, a list of struct values (seq) or a list of byte lists (ids).
"""
from __future__ import annotations

import collections.abc
import dataclasses
import enum
import importlib
import pkgutil
import typing

from harness.refacc import tlv as rtlv

RX_ROOTS = ("aiohomekit.controller.ble.structs.Characteristic",
            "aiohomekit.controller.ble.structs.Service",
            "aiohomekit.controller.coap.structs.Pdu09Database")


def _qual(cls):
    return f"{cls.__module__}.{cls.__qualname__}"


def discover():
    """Import every module of the package and return all dataclass TLVStruct subclasses."""
    import aiohomekit
    from aiohomekit import tlv8
    skipped = []
    for m in pkgutil.walk_packages(aiohomekit.__path__, "aiohomekit."):
        if m.name.endswith("__main__"):
            continue
        try:
            importlib.import_module(m.name)
        except Exception as ex:  # noqa: BLE001 - optional dependencies
            skipped.append((m.name, type(ex).__name__))
    out, todo = [], list(tlv8.TLVStruct.__subclasses__())
    seen = set()
    while todo:
        c = todo.pop()
        if c in seen:
            continue
        seen.add(c)
        todo.extend(c.__subclasses__())
        if dataclasses.is_dataclass(c) and c.__module__.startswith("aiohomekit."):
            out.append(c)
    out.sort(key=_qual)
    return out, skipped


def _int_kind(tp, tlv8):
    for base, w, be in ((tlv8.u8, 1, 0), (tlv8.u16, 2, 0), (tlv8.bu16, 2, 1), (tlv8.u32, 4, 0),
                        (tlv8.u64, 8, 0), (tlv8.u128, 16, 0)):
        if isinstance(tp, type) and issubclass(tp, base):
            return w, be
    return None


def init_fields(cls):
    return [f for f in dataclasses.fields(cls) if f.init]


def schemas_of(classes):
    """-> (list of schema dicts (TLA+ records), notes).  Class indices are 1-based (TLA+)."""
    from aiohomekit import tlv8
    index = {c: k + 1 for k, c in enumerate(classes)}
    notes = []
    out = []
    for cls in classes:
        fs = []
        for f in init_fields(cls):
            tp = f.type
            rec = {"name": f.name, "tag": int(f.metadata["tlv_type"]), "kind": "none", "w": 0, "be": 0,
                   "inner": 0, "vals": []}
            ik = _int_kind(tp, tlv8)
            origin = typing.get_origin(tp)
            if ik:
                rec.update(kind="int", w=ik[0], be=ik[1])
            elif isinstance(tp, type) and issubclass(tp, enum.IntEnum):
                rec.update(kind="enum", w=1, vals=sorted({int(m.value) for m in tp}))
            elif tp is str:
                rec.update(kind="str")
            elif tp is bytes:
                rec.update(kind="bytes")
            elif isinstance(tp, type) and issubclass(tp, tlv8.TLVStruct) and tp in index:
                rec.update(kind="struct", inner=index[tp])
            elif origin in (collections.abc.Sequence, list, typing.Sequence):
                (arg,) = typing.get_args(tp)
                ik = _int_kind(arg, tlv8)
                if ik:
                    rec.update(kind="ids", w=ik[0], be=ik[1])
                elif isinstance(arg, type) and issubclass(arg, tlv8.TLVStruct) and arg in index:
                    rec.update(kind="seq", inner=index[arg])
            if rec["kind"] == "none":
                notes.append(f"{_qual(cls)}.{f.name}: annotation {tp!r} has no TLV serialiser - not encodable, left unset")
            fs.append(rec)
        out.append({"name": _qual(cls), "fields": fs, "rx": 0})
    # received structures: everything reachable from the roots named by the property
    byname = {s["name"]: k for k, s in enumerate(out)}
    todo = [byname[r] for r in RX_ROOTS if r in byname]
    for r in RX_ROOTS:
        if r not in byname:
            notes.append(f"received-structure root {r} not found in this tree")
    while todo:
        k = todo.pop()
        if out[k]["rx"]:
            continue
        out[k]["rx"] = 1
        for f in out[k]["fields"]:
            if f["inner"]:
                todo.append(f["inner"] - 1)
    return out, notes


# ------------------------------------------------------------------ abstract value <-> instance
class Unrepresentable(Exception):
    pass


def to_instance(classes, schemas, c, val, enum_types=None):
    """Build the dataclass instance of class index c (1-based) from an abstract value."""
    cls = classes[c - 1]
    kwargs = {}
    flds = init_fields(cls)
    for f, fs, opt in zip(flds, schemas[c - 1]["fields"], val):
        if not opt:
            continue
        x = opt[0]
        k = fs["kind"]
        if k == "int":
            kwargs[f.name] = int.from_bytes(bytes(x), "little")
        elif k == "enum":
            kwargs[f.name] = f.type(x[0])
        elif k == "bytes":
            kwargs[f.name] = bytes(x)
        elif k == "str":
            kwargs[f.name] = bytes(x).decode("utf-8")
        elif k == "struct":
            kwargs[f.name] = to_instance(classes, schemas, fs["inner"], x)
        elif k == "seq":
            kwargs[f.name] = [to_instance(classes, schemas, fs["inner"], it) for it in x]
        elif k == "ids":
            kwargs[f.name] = [int.from_bytes(bytes(b), "little") for b in x]
        else:
            raise Unrepresentable(f"field {f.name} has no serialiser")
    return cls(**kwargs)


def _int_bytes(v, w):
    if isinstance(v, bool) or not isinstance(v, int) or v < 0:
        raise Unrepresentable(f"not a natural number: {v!r}")
    n = max(w, (v.bit_length() + 7) // 8)
    return list(v.to_bytes(n, "little"))


def from_instance(classes, schemas, c, obj):
    """Abstract value of a decoded instance; raises Unrepresentable when the object is outside the
    specification's value domain (wrong Python type in a field)."""
    cls = classes[c - 1]
    if type(obj) is not cls:
        raise Unrepresentable(f"expected {cls.__name__}, got {type(obj).__name__}")
    out = []
    for f, fs in zip(init_fields(cls), schemas[c - 1]["fields"]):
        v = getattr(obj, f.name)
        if v is None:
            out.append([])
            continue
        k = fs["kind"]
        if k == "int":
            out.append([_int_bytes(v, fs["w"])])
        elif k == "enum":
            if not isinstance(v, f.type):
                raise Unrepresentable(f"{f.name}: expected {f.type.__name__}, got {v!r}")
            out.append([[int(v)]])
        elif k == "bytes":
            if not isinstance(v, (bytes, bytearray)):
                raise Unrepresentable(f"{f.name}: expected bytes, got {type(v).__name__}")
            out.append([list(bytes(v))])
        elif k == "str":
            if not isinstance(v, str):
                raise Unrepresentable(f"{f.name}: expected str, got {type(v).__name__}")
            out.append([list(v.encode("utf-8"))])
        elif k == "struct":
            out.append([from_instance(classes, schemas, fs["inner"], v)])
        elif k == "seq":
            if not isinstance(v, (list, tuple)):
                raise Unrepresentable(f"{f.name}: expected a list, got {type(v).__name__}")
            out.append([[from_instance(classes, schemas, fs["inner"], it) for it in v]])
        elif k == "ids":
            if not isinstance(v, (list, tuple)):
                raise Unrepresentable(f"{f.name}: expected a list, got {type(v).__name__}")
            out.append([[_int_bytes(it, fs["w"]) for it in v]])
        else:
            raise Unrepresentable(f"{f.name}: value {v!r} in a field without serialiser")
    return out


# ------------------------------------------------------------------ independent reference encoder
def _order(pol, n):
    if pol == "decl":
        return list(range(n))
    if pol == "rev":
        return list(range(n - 1, -1, -1))
    if pol == "rot":
        return [(k + 1) % n for k in range(n)]
    raise ValueError(pol)


def ref_encode(schemas, c, val, mode="acc", pol="decl") -> bytes:
    """What a conformant accessory (mode 'acc': empty values are one empty item, any field order) or a
    canonical library-side producer (mode 'lib') puts on the wire.  Built on refacc.tlv.enc (255-byte
    fragments) - shares no code with aiohomekit."""
    fs = schemas[c - 1]["fields"]
    items = []
    for k in _order(pol, len(fs)):
        opt = val[k]
        if not opt:
            continue
        f, x = fs[k], opt[0]
        kind = f["kind"]
        if kind == "int":
            v = bytes(reversed(x)) if f["be"] else bytes(x)
        elif kind in ("enum", "bytes", "str"):
            v = bytes(x)
        elif kind == "struct":
            v = ref_encode(schemas, f["inner"], x, mode, pol)
        elif kind == "seq":
            v = b"\x00\x00".join(ref_encode(schemas, f["inner"], it, mode, pol) for it in x)
        elif kind == "ids":
            v = b"".join(bytes(reversed(b)) if f["be"] else bytes(b) for b in x)
        else:
            raise ValueError(kind)
        if not v and mode == "lib":
            continue
        items.append((f["tag"], v))
    return rtlv.enc(items)


# ------------------------------------------------------------------ dataclasses for the generic (toy) schemas
def build_toy_classes(schemas):
    """Dataclasses (real TLVStruct subclasses) mirroring the generic schemas exported by TlvStruct_Toy."""
    from aiohomekit import tlv8

    class ToyEnum(enum.IntEnum):
        A = 0
        B = 1
        C = 2

    ints = {(1, 0): tlv8.u8, (2, 0): tlv8.u16, (2, 1): tlv8.bu16, (4, 0): tlv8.u32, (8, 0): tlv8.u64, (16, 0): tlv8.u128}
    classes = [None] * len(schemas)

    def build(k):
        if classes[k] is not None:
            return classes[k]
        s = schemas[k]
        flds = []
        for f in s["fields"]:
            kind = f["kind"]
            if kind == "int":
                tp = ints[(f["w"], f["be"])]
            elif kind == "enum":
                assert f["vals"] == [0, 1, 2]
                tp = ToyEnum
            elif kind == "bytes":
                tp = bytes
            elif kind == "str":
                tp = str
            elif kind == "struct":
                tp = build(f["inner"] - 1)
            elif kind == "seq":
                tp = collections.abc.Sequence[build(f["inner"] - 1)]
            elif kind == "ids":
                tp = collections.abc.Sequence[ints[(f["w"], f["be"])]]
            else:
                raise ValueError(kind)
            flds.append((f["name"], tp, tlv8.tlv_entry(f["tag"])))
        cls = dataclasses.make_dataclass("Toy" + s["name"], flds, bases=(tlv8.TLVStruct,))
        cls.__module__ = "harness.c16_toy"
        classes[k] = cls
        return cls

    for k in range(len(schemas)):
        build(k)
    return classes


# ------------------------------------------------------------------ histories of decode calls (spec/codec/TlvStructHist*.tla)
# A message node is {"f": [entry per init field], "x": [] | [bytes]}: entries [] unset, [bytes] scalar / packed ids,
# [node] nested message, [[node, ...]] list; x = the state the library keeps on the object outside the wire fields
# (the non-init dataclass fields, e.g. the raw value of a characteristic).
def aux_fields(cls):
    return [f for f in dataclasses.fields(cls) if not f.init]


def node_of(classes, schemas, c, obj):
    """What can be read through a decoded message now."""
    cls = classes[c - 1]
    if type(obj) is not cls:
        raise Unrepresentable(f"expected {cls.__name__}, got {type(obj).__name__}")
    ents = []
    for f, fs in zip(init_fields(cls), schemas[c - 1]["fields"]):
        v = getattr(obj, f.name)
        k = fs["kind"]
        if v is None:
            ents.append([])
        elif k == "struct":
            ents.append([node_of(classes, schemas, fs["inner"], v)])
        elif k == "seq":
            if not isinstance(v, (list, tuple)):
                raise Unrepresentable(f"{f.name}: expected a list, got {type(v).__name__}")
            ents.append([[node_of(classes, schemas, fs["inner"], it) for it in v]])
        else:
            one = from_instance_field(f, fs, v)
            ents.append([one])
    x = []
    for f in aux_fields(cls):
        v = getattr(obj, f.name)
        if v is not None and v != f.default:
            if not isinstance(v, (bytes, bytearray)):
                raise Unrepresentable(f"{f.name}: library state {v!r}")
            x = [list(bytes(v))]
    return {"f": ents, "x": x}


def from_instance_field(f, fs, v):
    k = fs["kind"]
    if k == "int":
        return _int_bytes(v, fs["w"])
    if k == "enum":
        if not isinstance(v, f.type):
            raise Unrepresentable(f"{f.name}: expected {f.type.__name__}, got {v!r}")
        return [int(v)]
    if k == "bytes":
        if not isinstance(v, (bytes, bytearray)):
            raise Unrepresentable(f"{f.name}: expected bytes, got {type(v).__name__}")
        return list(bytes(v))
    if k == "str":
        if not isinstance(v, str):
            raise Unrepresentable(f"{f.name}: expected str, got {type(v).__name__}")
        return list(v.encode("utf-8"))
    if k == "ids":
        if not isinstance(v, (list, tuple)):
            raise Unrepresentable(f"{f.name}: expected a list, got {type(v).__name__}")
        return [_int_bytes(it, fs["w"]) for it in v]
    raise Unrepresentable(f"{f.name}: value {v!r} in a field without serialiser")


def node_paths(schemas, c, node, prefix=()):
    """[(path, class index, node)] of every message node, pre-order.  Steps are [i] / [i, k], 1-based."""
    out = [(list(prefix), c, node)]
    for i, (fs, e) in enumerate(zip(schemas[c - 1]["fields"], node["f"]), start=1):
        if not e:
            continue
        if fs["kind"] == "struct":
            out += node_paths(schemas, fs["inner"], e[0], prefix + ([i],))
        elif fs["kind"] == "seq":
            for k, it in enumerate(e[0], start=1):
                out += node_paths(schemas, fs["inner"], it, prefix + ([i, k],))
    return out


def obj_at(classes, schemas, c, obj, path):
    for st in path:
        f = init_fields(classes[c - 1])[st[0] - 1]
        fs = schemas[c - 1]["fields"][st[0] - 1]
        obj = getattr(obj, f.name)
        if len(st) == 2:
            obj = obj[st[1] - 1]
        c = fs["inner"]
    return c, obj


def scalar_value(f, fs, w):
    """Python value of a scalar field from its bytes."""
    k = fs["kind"]
    if k == "int":
        return int.from_bytes(bytes(w), "little")
    if k == "enum":
        return f.type(w[0])
    if k == "bytes":
        return bytes(w)
    if k == "str":
        return bytes(w).decode("utf-8")
    raise ValueError(k)


def junk_for(rng, fs):
    k = fs["kind"]
    if k == "int":
        return [rng.randrange(256) for _ in range(fs["w"])]
    if k == "enum":
        return [rng.choice(fs["vals"])]
    if k == "bytes":
        return [rng.randrange(256) for _ in range(rng.randrange(1, 5))]
    if k == "str":
        return [rng.randrange(97, 123) for _ in range(rng.randrange(1, 5))]
    return None


def apply_write(classes, schemas, c, root, path, kind, j, w):
    """Make the write [kind, j, w] (TlvStructHist.Writes) to the node at `path` of a decoded message."""
    c, obj = obj_at(classes, schemas, c, root, path)
    cls = classes[c - 1]
    if kind == "x":
        _set(obj, aux_fields(cls)[0].name, bytes(w))
        return
    f = init_fields(cls)[j - 1]
    fs = schemas[c - 1]["fields"][j - 1]
    if kind == "u":
        _set(obj, f.name, None)
    elif kind == "s":
        _set(obj, f.name, scalar_value(f, fs, w))
    elif kind == "c":
        _clear(getattr(obj, f.name))
    else:
        raise ValueError(kind)


def possible_writes(rng, classes, schemas, c, node):
    out = []
    if aux_fields(classes[c - 1]):
        out.append(["x", 0, [rng.randrange(256) for _ in range(rng.randrange(1, 5))]])
    for j, (fs, e) in enumerate(zip(schemas[c - 1]["fields"], node["f"]), start=1):
        if e:
            out.append(["u", j, []])
        if fs["kind"] in ("int", "enum", "bytes", "str"):
            out.append(["s", j, junk_for(rng, fs)])
        if fs["kind"] == "seq" and e and isinstance(getattr_safe(e), list):
            out.append(["c", j, []])
    return out


def getattr_safe(e):
    return e[0]


class NotWritable(Exception):
    """The decoded message (or a list in it) is immutable: nothing a caller does can be seen by a later decode."""


def _set(obj, name, value):
    try:
        setattr(obj, name, value)
    except (AttributeError, TypeError) as ex:       # frozen dataclass / slots / read-only property
        raise NotWritable(str(ex)) from ex


def _clear(lst):
    try:
        lst.clear()
    except (AttributeError, TypeError) as ex:       # tuple
        raise NotWritable(str(ex)) from ex


def scribble(rng, classes, schemas, c, obj, depth=0):
    """Overwrite every field of a decoded message, nested messages and list items first (what a careless caller -
    or the library, for its own state - may do to a result it owns).  Immutable parts are left alone."""
    try:
        _scribble(rng, classes, schemas, c, obj, depth)
    except NotWritable:
        pass


def _scribble(rng, classes, schemas, c, obj, depth=0):
    cls = classes[c - 1]
    if type(obj) is not cls or depth > 20:
        return
    for f, fs in zip(init_fields(cls), schemas[c - 1]["fields"]):
        v = getattr(obj, f.name)
        k = fs["kind"]
        if k == "struct" and v is not None:
            _scribble(rng, classes, schemas, fs["inner"], v, depth + 1)
            _set(obj, f.name, None)
        elif k == "seq" and isinstance(v, list):
            for it in v:
                _scribble(rng, classes, schemas, fs["inner"], it, depth + 1)
            _clear(v)
            _set(obj, f.name, None)
        elif k in ("int", "enum", "bytes", "str"):
            _set(obj, f.name, scalar_value(f, fs, junk_for(rng, fs)) if rng.random() < 0.7 else None)
        elif k == "ids" and isinstance(v, list):
            _clear(v)
        else:
            _set(obj, f.name, None)
    for f in aux_fields(cls):
        _set(obj, f.name, b"scribble")
