"""C19 driver: the mDNS-based controllers (IP, CoAP), the BLE controller and the aggregate Controller on
one virtual-time loop; callers of async_find; advertisements built from the abstract classes of
spec/discovery/DiscoveryParse.tla; an event log for spec/discovery/Discovery_Trace.tla.

Nothing here decides a verdict: the driver concretises abstract advertisements, places stimuli between
loop iterations and translates what the real code showed back into the specification's vocabulary.
"""
from __future__ import annotations

import asyncio
import hashlib
import ipaddress
import logging
import socket
import struct
import types
from unittest.mock import MagicMock

from harness.vloop import close_loop, new_loop

logging.getLogger("aiohomekit").addHandler(logging.NullHandler())
logging.getLogger("aiohomekit").propagate = False
logging.getLogger("asyncio").addHandler(logging.NullHandler())
logging.getLogger("asyncio").propagate = False

HAP_TYPE = {"ip": "_hap._tcp.local.", "coap": "_hap._udp.local."}
ABSENT, BAD, ODD, NOVAL, EMPTY = -1, -2, -3, -4, -5
NUM_KEYS = {"c": "c#", "s": "s#", "sf": "sf", "ff": "ff", "ci": "ci"}
IDS = {"x": "c1:9a:00:00:00:0a", "y": "c1:9a:00:00:00:0b"}


class _BrowserStub:
    types = list(HAP_TYPE.values())

    def __init__(self):
        from zeroconf import SignalRegistrationInterface
        self._handlers = []
        self.service_state_changed = SignalRegistrationInterface(self._handlers)


def _patch_library():
    """In-process stubs for everything that would touch the network (the repository's tests do the same)."""
    import aiohomekit.zeroconf as AZ
    import aiohomekit.controller.ip.connection as ipc
    import aiohomekit.controller.coap.connection as coc
    from zeroconf.asyncio import AsyncServiceInfo

    AZ.AsyncServiceBrowser = _BrowserStub

    if not getattr(AZ.AsyncServiceInfo, "_c19", False):
        class CachedOnlyServiceInfo(AsyncServiceInfo):
            _c19 = True

            async def async_request(self, zc, timeout, question_type=None, addr=None, port=None):
                return self.load_from_cache(zc)
        AZ.AsyncServiceInfo = CachedOnlyServiceInfo

    async def refused(*a, **kw):
        raise ConnectionRefusedError(111, "Connection refused (simulated)")
    if not getattr(ipc.aiohappyeyeballs, "_c19", False):
        ipc.aiohappyeyeballs = types.SimpleNamespace(
            _c19=True, start_connection=refused,
            pop_addr_infos_interleave=ipc.aiohappyeyeballs.pop_addr_infos_interleave,
            AddrInfoType=getattr(ipc.aiohappyeyeballs, "AddrInfoType", None))

    class NoCoap:
        @staticmethod
        async def create_client_context(*a, **kw):
            raise OSError("no network (simulated)")
        create_server_context = create_client_context
    coc.Context = NoCoap


# concrete texts of the abstract address classes.  "v4" / "v6" have ten spelling varieties (field `av` of the
# class): IPv4 texts whose first digit is 1..9, IPv6 global / ULA texts starting with 2 or f; k = position in the list
V4 = ["10.0.{k}.5", "192.168.{k}.2", "203.0.113.{k}", "8.8.4.{k}", "99.1.2.{k}", "34.5.{k}.7", "45.6.{k}.8", "56.7.{k}.9",
      "67.8.{k}.1", "78.9.{k}.2"]
V6 = ["2001:db8::{k}:5", "2a00:1450:4001::{k}", "fd12:3456:789a::{k}:1", "fc00::{k}:2", "2600:1f18::{k}"]
ADDR = {"ll4": "169.254.{k}.5", "ll6": "fe80::{k}:5", "un4": "0.0.0.0", "un6": "::"}


def addr_of(cls, k, av=0):
    if cls == "v4":
        return V4[av % len(V4)].format(k=k)
    if cls == "v6":
        return V6[av % len(V6)].format(k=k)
    return ADDR[cls].format(k=k)


def addr_class(s):
    ip = ipaddress.ip_address(s)
    if ip.is_unspecified:
        return "un4" if ip.version == 4 else "un6"
    if ip.is_link_local:
        return "ll4" if ip.version == 4 else "ll6"
    return "v4" if ip.version == 4 else "v6"


def accessories_json():
    return [{"aid": 1, "services": [
        {"iid": 1, "type": "0000003E-0000-1000-8000-0026BB765291", "characteristics": [
            {"iid": 2, "type": "00000023-0000-1000-8000-0026BB765291", "format": "string", "perms": ["pr"], "value": "acc"}]},
        {"iid": 8, "type": "00000043-0000-1000-8000-0026BB765291", "characteristics": [
            {"iid": 9, "type": "00000025-0000-1000-8000-0026BB765291", "format": "bool", "perms": ["pr", "pw", "ev"], "value": False}]}]}]


class World:
    def __init__(self, pm: dict, tag: str = "", raw_ok: bool = True):
        from zeroconf import DNSCache
        from aiohomekit.characteristic_cache import CharacteristicCacheMemory
        from aiohomekit.controller import Controller
        from aiohomekit.controller.abstract import TransportType
        from aiohomekit.controller.ble.controller import BleController
        from aiohomekit.controller.coap.controller import CoAPController
        from aiohomekit.controller.ip.controller import IpController

        _patch_library()
        self.pm = dict(pm)
        self.loop = new_loop()
        self.loop.set_exception_handler(lambda loop, ctx: None)
        self.events = []
        self.seen_desc = {}        # (transport, id label) -> descriptions the transport produced for the id (each one
                                   # was compared with the specification when its advertisement was logged)
        self.script = []           # replayable list of driver calls
        self._rec = True
        self._nest = 0
        self.tasks = {}
        self.deadline = {}
        self.nadv = 0
        self.bkey = hashlib.sha256(b"c19-broadcast" + tag.encode()).digest()
        zc = MagicMock(name="zeroconf")
        zc.cache = DNSCache()
        zc.listeners = [_BrowserStub()]
        self.zc = zc
        azc = MagicMock(name="asynczeroconf")
        azc.zeroconf = zc
        self.cache = CharacteristicCacheMemory()
        # pairing situation of an id: "none" | ("cached" | "nocache") ["-after"] ["-shut"]
        #   cached / nocache : accessory state for the id is / is not in the characteristic cache
        #   -after           : the pairing is loaded only after the first advertisement for the id was processed by
        #                      that transport (default: loaded before any advertisement)
        #   -shut            : pairing.shutdown() was called while it stays loaded in the controller
        self.loaded = set()
        for idl, mode in self.pm.items():
            if mode.startswith("cached"):
                self.cache.async_create_or_update_map(IDS[idl], 2, accessories_json(), self.bkey.hex(), 3)

        async def mk():
            ip = IpController(char_cache=self.cache, zeroconf_instance=azc)
            await ip.async_start()
            co = CoAPController(char_cache=self.cache, zeroconf_instance=azc)
            await co.async_start()
            ble = BleController(self.cache)
            agg = Controller(async_zeroconf_instance=azc, char_cache=self.cache)
            agg.transports[TransportType.IP] = ip
            agg.transports[TransportType.COAP] = co
            agg.transports[TransportType.BLE] = ble
            return ip, co, ble, agg
        self.ip, self.coap, self.ble, self.agg = self.loop.run_until_complete(mk())
        self.ctl = {"ip": self.ip, "coap": self.coap, "ble": self.ble}
        for idl, mode in self.pm.items():
            if mode != "none" and "-after" not in mode:
                for tr in ("ip", "coap", "ble"):
                    self._load_pairing(tr, idl)
        self._pending_info = {}
        for tr in ("ip", "coap"):
            self._wrap_mdns(tr)
        self.loop.settle()
        self.t0 = self.loop.time()

    def _load_pairing(self, tr, idl):
        """load the pairing for id on transport tr (and shut it down if the situation says so)"""
        if (tr, idl) in self.loaded:
            return
        self.loaded.add((tr, idl))
        mode = self.pm[idl]
        base = {"AccessoryPairingID": IDS[idl], "AccessoryLTPK": "00" * 32, "iOSPairingId": "decc6fa3-de3e-41c9-adba-ef7409821bfc",
                "iOSDeviceLTSK": "11" * 32, "iOSDeviceLTPK": "22" * 32}
        pd = {"ip": dict(base, Connection="IP", AccessoryIP="10.9.9.9", AccessoryIPs=["10.9.9.9"], AccessoryPort=5001),
              "coap": dict(base, Connection="CoAP", AccessoryIP="10.9.9.9", AccessoryPort=5683),
              "ble": dict(base, Connection="BLE", AccessoryAddress=IDS[idl].upper())}[tr]

        async def go():
            p = self.ctl[tr].load_pairing(tr + idl, pd)
            if "-shut" in mode:
                await p.shutdown()
        t = self.loop.time()
        self.loop.run_until_complete(go())
        self.loop.settle()
        if self.loop.time() != t:
            raise RuntimeError("loading / shutting down a pairing consumed virtual time")

    def _late_load(self, tr, idl):
        """situation "-after": the application loads the pairing once the transport has seen the accessory"""
        mode = self.pm.get(idl, "none")
        if "-after" in mode and (tr, idl) not in self.loaded and IDS[idl] in self.ctl[tr].discoveries:
            self._load_pairing(tr, idl)

    # ------------------------------------------------------------------ time
    def now_ms(self):
        return int(round((self.loop.time() - self.t0) * 1000))

    def log(self, ev, **kw):
        e = {"ev": ev, "t": self.now_ms()}
        e.update(kw)
        self.events.append(e)
        return e

    def settle(self):
        self._note("settle")
        self.loop.settle()

    def step_once(self):
        """exactly one iteration of the loop: due timer callbacks run, the wake-ups they schedule do not"""
        self.loop.call_soon(self.loop.stop)
        self.loop.run_forever()

    def _note(self, *call):
        if self._rec and not self._nest:
            self.script.append(list(call))

    def run_to(self, t_ms, one_iteration=False):
        self._note("run_to", t_ms, one_iteration)
        loop = self.loop
        t = self.t0 + t_ms / 1000.0
        loop.settle()
        while True:
            nxt = loop.next_timer()
            if nxt is None or nxt >= t:
                break
            loop._vtime = max(loop._vtime, nxt)
            loop.settle()
        loop._vtime = max(loop._vtime, t)
        if one_iteration:
            self.step_once()
        else:
            loop.settle()

    def in_loop(self, fn):
        """call fn as a loop callback would be called, without running anything else"""
        asyncio.events._set_running_loop(self.loop)
        try:
            fn()
            return None
        except Exception as ex:  # noqa: BLE001
            return f"{type(ex).__name__}: {ex}"
        finally:
            asyncio.events._set_running_loop(None)

    # ------------------------------------------------------------------ callers
    def _call(self, key, ctl, dev_id, want_id, tmo_ms, ev_ret, trs=(), idl=None, **ids):
        from aiohomekit.exceptions import AccessoryNotFoundError

        async def go():
            try:
                d = await ctl.async_find(dev_id, tmo_ms / 1000.0)
                desc = getattr(d, "description", None)
                ok = getattr(desc, "id", None) == want_id
                # end to end: the discovery handed to the caller carries a description this transport produced
                # from an advertisement for the id (address, numbers ... were checked when it was logged)
                seen = any(desc is x for tr in trs for x in self.seen_desc.get((tr, idl), ()))
                self.log(ev_ret, res="found" if ok else "found_wrong", desc="seen" if seen else "other", **ids)
            except AccessoryNotFoundError:
                self.log(ev_ret, res="notfound", desc="-", **ids)
            except asyncio.CancelledError:
                self.log(ev_ret, res="cancelled", desc="-", **ids)
                raise
            except Exception as ex:  # noqa: BLE001
                self.log(ev_ret, res="error:" + type(ex).__name__, desc="-", **ids)
        self.tasks[key] = self.loop.create_task(go())
        self.deadline[key] = self.now_ms() + tmo_ms

    def start(self, w, tr, idl, tmo_ms, upper=False):
        self._note("start", w, tr, idl, tmo_ms, upper)
        self.log("start", w=w, tr=tr, id=idl, tmo=tmo_ms)
        dev = IDS[idl].upper() if upper and tr != "ble" else IDS[idl]
        self._call(w, self.ctl[tr], dev, IDS[idl], tmo_ms, "ret", trs=(tr,), idl=idl, w=w)
        self.settle()

    def astart(self, g, idl, tmo_ms):
        self._note("astart", g, idl, tmo_ms)
        self.log("astart", g=g, id=idl, tmo=tmo_ms)
        self._call(g, self.agg, IDS[idl], IDS[idl], tmo_ms, "aret", trs=("ip", "coap", "ble"), idl=idl, g=g)
        self.settle()

    def cancel(self, key, settle=True):
        self._note("cancel", key, settle)
        t = self.tasks.get(key)
        if t is None or t.done():
            return False
        self.log("acancel" if key.startswith("g") else "cancel", **({"g": key} if key.startswith("g") else {"w": key}))
        t.cancel()
        if settle:
            self.settle()
        return True

    def waiting(self):
        return [k for k, t in self.tasks.items() if not t.done()]

    # ------------------------------------------------------------------ advertisements
    def _wrap_mdns(self, tr):
        ctl = self.ctl[tr]
        orig = ctl._async_handle_loaded_service_info

        def wrapped(info):
            meta = self._pending_info.pop(info.name, None)
            if meta is None:
                return orig(info)
            idl, cls = meta
            before = self._snap(ctl)
            exc = None
            try:
                orig(info)
            except Exception as ex:  # noqa: BLE001
                exc = f"{type(ex).__name__}: {ex}"
            self._log_adv(tr, idl, cls, before, exc)
        ctl._async_handle_loaded_service_info = wrapped

    @staticmethod
    def _snap(ctl):
        return {k: d.description for k, d in ctl.discoveries.items()}

    def _log_adv(self, tr, idl, cls, before, exc):
        ctl = self.ctl[tr]
        after = self._snap(ctl)
        changed = [k for k, d in after.items() if before.get(k) is not d]
        want = IDS[idl]
        if not changed:
            obs = {"k": "ignored"}
        else:
            k = changed[0]
            d = after[k]
            self.seen_desc.setdefault((tr, idl), []).append(d)
            ok = len(changed) == 1 and k == want and getattr(d, "id", None) == want
            obs = {"k": "disc", "id": "lower" if ok else "other"}
            if cls["kind"] == "mdns":
                try:
                    obs["addrs"] = [addr_class(a) for a in d.addresses]
                    obs["first"] = addr_class(d.address)
                except ValueError:
                    obs["addrs"], obs["first"] = ["bad"], "bad"
                obs.update(c=int(d.config_num), s=int(d.state_num), sf=int(d.status_flags), ff=int(d.feature_flags), ci=int(d.category))
            else:
                obs.update(c=int(d.config_num), s=int(d.state_num), sf=int(d.status_flags), ci=int(d.category))
            for f in ("c", "s", "sf", "ff", "ci"):
                if f in obs and not (-2 ** 31 < obs[f] < 2 ** 31):
                    obs[f] = -9
        e = self.log("adv", tr=tr, id=idl, cls={k: v for k, v in cls.items() if not k.startswith("_")}, obs=obs, raised=bool(exc))
        if exc:
            e["exc"] = exc
        if "_raw" in cls:
            e["raw"] = cls["_raw"]

    def mdns_info(self, tr, idl, cls):
        from aiohomekit import zeroconf as AZ
        self.nadv += 1
        typ = HAP_TYPE[tr]
        name = f"dev{self.nadv}.{typ}"
        up = cls["kc"] == "upper"
        raw = cls.get("_raw", {})
        props = {}
        # a value of None is a TXT entry that is the bare key without "=value"; b"" is the entry "key="
        if cls["idc"] == "noval":
            props[b"ID" if up else b"id"] = None
        elif cls["idc"] == "empty":
            props[b"ID" if up else b"id"] = b""
        elif cls["idc"] != "absent":
            v = IDS[idl].upper() if cls["idc"] == "upper" else IDS[idl]
            props[b"ID" if up else b"id"] = v.encode()
        props[b"MD" if up else b"md"] = b"unit"
        for f, key in NUM_KEYS.items():
            v = cls[f]
            if v == ABSENT:
                continue
            kb = (key.upper() if up else key).encode()
            if v == NOVAL:
                props[kb] = None
                continue
            if v == EMPTY:
                props[kb] = b""
                continue
            val = raw.get(f, "abc" if v == BAD else str(v))
            props[kb] = val.encode("utf-8", "surrogateescape") if isinstance(val, str) else val
        xk = cls.get("xk", "none")
        if xk != "none":
            which, how = xk.split("-")
            key = {"md": "md", "pv": "pv", "uk": "xx"}[which]
            props[(key.upper() if up else key).encode()] = {"noval": None, "empty": b"", "value": b"1"}[how]
        packed = []
        for k, a in enumerate(cls["addrs"], 1):
            ip = ipaddress.ip_address(addr_of(a, k, cls.get("av", 0)))
            packed.append(ip.packed)
        return AZ.AsyncServiceInfo(typ, name, addresses=packed, port=5001, properties=props, weight=0, priority=0)

    def ble_blob(self, idl, cls):
        idb = bytes.fromhex(IDS[idl].replace(":", ""))
        if "_rawblob" in cls:
            return cls["_rawblob"]
        if cls["type"] == "enc":
            full = bytes([0x11, 0x36]) + idb + hashlib.sha256(repr(sorted((k, str(v)) for k, v in cls.items())).encode()).digest()[:16]
        else:
            t = 0x06 if cls["type"] == "hap" else 0x07
            full = bytes([t, 0x31, cls["sf"] & 0xFF]) + idb + struct.pack("<HHBB", cls["ci"], cls["s"], cls["c"], 2) + b"\x01\x02\x03\x04" + b"\xee" * 8
        return full[:cls["len"]]

    def adv(self, tr, idl, cls, via="direct", settle=True):
        """process one advertisement on transport tr (logged when the real callback runs)"""
        self._note("adv", tr, idl, {k: (v.hex() if isinstance(v, (bytes, bytearray)) else v) for k, v in cls.items()}, via, settle)
        if tr == "ble":
            from bleak.backends.device import BLEDevice
            from bleak.backends.scanner import AdvertisementData
            blob = self.ble_blob(idl, cls)
            company = 76 if cls["company"] == "apple" else 6
            adv = AdvertisementData(local_name="dev", manufacturer_data={company: blob}, service_data={}, service_uuids=[],
                                    tx_power=-127, rssi=-60, platform_data=((),))
            dev = BLEDevice(IDS[idl].upper(), "dev", None)
            before = self._snap(self.ble)
            exc = self.in_loop(lambda: self.ble._device_detected(dev, adv))
            self._log_adv("ble", idl, cls, before, exc)
        else:
            ctl = self.ctl[tr]
            info = self.mdns_info(tr, idl, cls)
            self._pending_info[info.name] = (idl, cls)
            if via == "browser":
                # the path zeroconf takes: browser callback, 0.5 s timer, load from the cache
                from zeroconf import ServiceStateChange
                self.zc.cache.async_add_records([*info.dns_addresses(), info.dns_pointer(), info.dns_service(), info.dns_text()])
                self.in_loop(lambda: ctl._handle_service(self.zc, HAP_TYPE[tr], info.name, ServiceStateChange.Added))
            else:
                exc = self.in_loop(lambda: ctl._async_handle_loaded_service_info(info))
                if exc:           # the wrapper catches; anything here is the wrapper's own failure
                    raise RuntimeError(exc)
        if settle:
            self.settle()
            for t in ("ip", "coap", "ble"):
                self._late_load(t, idl)

    # ------------------------------------------------------------------ end
    def finish(self):
        self._note("finish")
        self._rec = False
        last = max([self.now_ms()] + list(self.deadline.values())) + 1000
        self.run_to(last)
        self.log("end")
        hung = [k for k, t in self.tasks.items() if not t.done()]
        return hung

    def close(self):
        close_loop(self.loop)

    def end_bulk(self):
        self._note("end_bulk")
        self.log("end")

    def record(self, rid, src):
        return {"id": rid, "src": src, "pm": self.pm, "events": self.events, "script": self.script}


def run_script(pm, script, tag=""):
    """re-execute a recorded list of driver calls on a fresh world (./check C19 --replay)"""
    w = World(pm, tag=tag)
    try:
        for call in script:
            op, args = call[0], call[1:]
            if op == "adv":
                tr, idl, cls, via, settle = args
                cls = dict(cls)
                if "_rawblob" in cls:
                    cls["_rawblob"] = bytes.fromhex(cls["_rawblob"])
                w.adv(tr, idl, cls, via=via, settle=settle)
            elif op in ("start", "astart", "cancel", "run_to", "settle", "finish", "end_bulk"):
                getattr(w, op)(*args)
            else:
                raise ValueError(f"unknown script op {op}")
        return w.record("replay", "replay")
    finally:
        w.close()
