"""Compact rendering of a TLC counterexample: action + changed variables (for debugging specs)."""
import sys, re
sys.path.insert(0, "/verif")
from harness import tlc as T

def fmt(v):
    s = repr(v)
    return s if len(s) < 400 else s[:400] + "..."

def diff(a, b, prefix=""):
    out = []
    if isinstance(a, dict) and isinstance(b, dict):
        for k in b:
            if k not in a: out.append(f"{prefix}{k}: + {fmt(b[k])}")
            elif a[k] != b[k]: out += diff(a[k], b[k], f"{prefix}{k}.")
    elif isinstance(a, tuple) and isinstance(b, tuple) and len(a) == len(b):
        for i, (x, y) in enumerate(zip(a, b)):
            if x != y: out += diff(x, y, f"{prefix}{i+1}.")
    else:
        out.append(f"{prefix[:-1]}: {fmt(a)} -> {fmt(b)}")
    return out

def main():
    txt = sys.stdin.read()
    m = re.search(r"Error: (Invariant \S+ is violated|Action property \S+ is violated|Temporal properties were violated|Deadlock reached)[^\n]*", txt)
    print(m.group(0) if m else "no violation line found")
    i = txt.find("Error: The behavior up to this point is:")
    if i < 0:
        print(txt[-3000:]); return
    ce = T.parse_counterexample(txt[i:])
    prev = None
    for n, (act, st) in enumerate(ce, 1):
        if prev is None:
            print(f"{n}: {act}")
        else:
            am = re.search(r"State %d: <([^>]*)>" % n, txt)
            print(f"{n}: {act}   " + "; ".join(diff(prev, st)))
        prev = st

if __name__ == "__main__":
    main()
