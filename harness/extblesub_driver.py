"""EXTBLESUB driver: the real BlePairing on the virtual-time loop against the simulated GATT world of
harness/extble_driver.py (its fakes are imported, not copied: World / Link / Point / Handle, the reference accessory,
the establish_connection wrapper), driven along schedules of subscriptions, notifications, link loss and time.

What this driver adds on top of that world:
  * `start_notify` of the fake client is a suspension point ("sn") the driver resolves explicitly: accepted (the callback is
    registered with the accessory end of the link), refused (BleakError, the link stays: characteristics without events),
    accepted with the loss of the link in the same loop iteration, or the link is lost while it is pending;
  * the accessory sends indications (empty or with a payload) for a characteristic on the current link by calling the
    registered GATT callback from the event loop; characteristic values come from the driver (`aval`);
  * listeners (dispatcher_connect), some raising; subscribe / unsubscribe; get_characteristics callers; one close() /
    shutdown() caller; time: wait (no timer fires) / the next timer fires;
  * observation at the boundaries only: the fake GATT client (start_notify / stop_notify issued on which link for which
    characteristic, what reaches the accessory: reads, broadcast configuration), the listeners, the public API (returns,
    pairing.subscriptions, is_connected), the event loop's timers, background tasks that die (async_create_task as imported
    into pairing.py is wrapped).  A second, optional record (`wb`) carries _notifications / _broadcast_notifications /
    _restore_pending / _shutdown when those attributes exist.

Nothing here decides a verdict: the recorded event sequence is validated by TLC against spec/ble/BleSubs_Trace.tla.
"""
from __future__ import annotations

import asyncio
import os

from harness import extble_driver as D

IIDS = {1: D.IID_ON, 2: D.IID_BRIGHT, 3: D.IID_LABEL}     # model id -> iid; 3 has no events, 2 has broadcast events
MID = {v: k for k, v in IIDS.items()}
NOEV = {3}
RAISING = {3}
DEBOUNCE_MS, BACKOFF_MS = 1500, 100
WHITE_BOX = os.environ.get("EXTBLESUB_NO_WB") != "1"     # EXTBLESUB_NO_WB=1: boundary observations only (no `wb` records)


def accessories_json():
    acc = D.accessories_json()
    for s in acc[0]["services"]:
        for ch in s["characteristics"]:
            if ch["iid"] == D.IID_BRIGHT:
                ch["broadcast_events"] = True
                ch["disconnected_events"] = True
    return acc


class SLink(D.Link):
    """The imported link + start_notify as a suspension point + observation of what reaches the accessory."""

    async def start_notify(self, endpoint, callback):
        self._check_up()
        w = self.world
        w.slog("sn_req", l=self.n, i=MID.get(endpoint.iid, 99))
        await w.point("sn", self, iid=endpoint.iid, cb=callback)

    async def stop_notify(self, endpoint):
        self.world.slog("stop_notify", l=self.n, i=MID.get(getattr(endpoint, "iid", None), 99))
        self.notify.pop(getattr(endpoint, "iid", None), None)

    def data_write(self, handle, data):
        w = self.world
        D.VALUES[D.IID_ON] = bytes([w.aval[1]])
        D.VALUES[D.IID_BRIGHT] = bytes([w.aval[2]])
        had = self.resp
        ok = super().data_write(handle, data)
        if ok and self.resp is not None and self.resp is not had and handle.iid in MID:
            if self.resp[1]:
                w.slog("read", i=MID[handle.iid], v=w.aval.get(MID[handle.iid], 0))
            else:
                w.slog("bcen", i=MID[handle.iid])
        return ok


class SWorld(D.World):
    def __init__(self, seed, rid=""):
        self.sev = []
        self._last_wb = None
        self._force_wb = False
        self._mute = True
        super().__init__(seed, rid)
        P = self.P
        self._orig_link, self._orig_values, self._orig_act = D.Link, dict(D.VALUES), P.async_create_task
        D.Link = SLink
        world = self

        def create_task(coro, *a, **kw):
            async def guard():
                try:
                    return await coro
                except asyncio.CancelledError:
                    raise
                except BaseException as ex:  # noqa: BLE001
                    world.slog("bgfail", cls=_cls(ex))
                    raise
            return world._orig_act(guard(), *a, **kw)
        P.async_create_task = create_task
        self.aval = {1: 0, 2: 0}
        self.pairing.restore_accessories_state(accessories_json(), 1, None, self.gsn)
        self.removers = {}
        self.gets = {}
        self.closer = None
        self.skipped = None
        self._mute = False

    # ------------------------------------------------------------------ plumbing
    def log(self, ev, **kw):
        """events of the imported world: only the ones of this check's vocabulary are kept"""
        if ev == "conn_req" or ev == "drop" or ev == "disc_req" or ev == "disc_res":
            self.slog(ev)
        elif ev == "conn_res":
            self.slog(ev, out=kw["out"], l=kw["n"])
        self._force_wb |= ev in ("drop", "disc_res", "conn_res")

    def slog(self, ev, **kw):
        if self._mute:
            return
        rec = {"ev": ev}
        rec.update(kw)
        self.sev.append(rec)

    def up_link(self):
        return next((x for x in self.links if x.up), None)

    def obs(self):
        self.settle()
        p = self.pairing
        now = self.loop.time()
        kinds = [q.kind for q in self.live()]
        other = sorted({"conn" if k == "conn" else "sn" if k == "sn" else "gatt" for k in kinds if k != "disc"})
        if len(other) > 1:
            self.problems.append(f"several operations pending at the Bluetooth boundary: {kinds}")
        tm = sorted({int(round((h._when - now) * 1000)) for h in self.loop._scheduled if not h._cancelled})
        rec = {"ev": "obs", "subs": _ids(p.subscriptions), "pend": other[0] if other else "", "disc": "disc" in kinds, "tm": tm,
               "conn": bool(p.is_connected)}
        if self._mute:
            return
        # an observation identical to the previous one with nothing recorded in between is left out
        tail = next((e for e in reversed(self.sev) if e["ev"] != "wb"), None)
        if tail != rec:
            self.sev.append(rec)
        if WHITE_BOX and all(hasattr(p, a) for a in ("_notifications", "_broadcast_notifications", "_restore_pending", "_shutdown")):
            rec = {"ev": "wb", "ntf": sorted(MID.get(i, 99) for i in p._notifications), "bcn": sorted(MID.get(i, 99) for i in p._broadcast_notifications),
                   "rp": bool(p._restore_pending), "shut": bool(p._shutdown)}
            if rec != self._last_wb or self._force_wb:     # recorded when it changes and after every answer of the link
                self._last_wb = rec
                self.sev.append(rec)
            self._force_wb = False

    def _after(self):
        self.settle()
        self.obs()

    # ------------------------------------------------------------------ stimuli: the application
    def subscribe(self, ids):
        ids = sorted(set(ids))
        self.slog("sub", S=ids)
        self._api(self.pairing.subscribe([(1, IIDS[i]) for i in ids]))
        self._after()

    def unsubscribe(self, ids):
        ids = sorted(set(ids))
        self.slog("unsub", S=ids)
        self._api(self.pairing.unsubscribe([(1, IIDS[i]) for i in ids]))
        self._after()

    def _api(self, coro):
        """subscribe() / unsubscribe() of a BLE pairing do not wait for anything: they must return at once"""
        t = self.loop.create_task(coro)
        self.settle()
        if not t.done():
            self.problems.append("subscribe()/unsubscribe() did not return at once")
        elif t.exception() is not None:
            self.slog("api_exc", cls=_cls(t.exception()))

    def listen(self, n):
        if n in self.removers:
            return False
        self.slog("listen", l=n)

        def cb(ev, n=n):
            for k, v in ev.items():
                if isinstance(k, tuple) and len(k) == 2 and k[0] == 1 and k[1] in MID and isinstance(v, dict) and set(v) == {"value"}:
                    self.slog("told", l=n, i=MID[k[1]], v=_num(v["value"]))
                else:
                    self.slog("told_other", l=n, k=str(k))
            if n in RAISING:
                raise RuntimeError("harness: listener raises")
        self.removers[n] = self.pairing.dispatcher_connect(cb)
        self._after()
        return True

    def unlisten(self, n):
        if n not in self.removers:
            return False
        self.slog("unlisten", l=n)
        self.removers.pop(n)()
        self._after()
        return True

    def get(self, c, i):
        if c in self.gets and not self.gets[c].done():
            return False
        self.slog("call", c=c, i=i)
        p = self.pairing

        async def runner():
            try:
                res = await p.get_characteristics([(1, IIDS[i])])
            except asyncio.CancelledError:
                self.slog("ret", c=c, res="cancelled")
                raise
            except Exception:  # noqa: BLE001
                self.slog("ret", c=c, res="err")
                return
            self.slog("ret", c=c, res="none" if res is None else "ok" if isinstance(res, dict) and (1, IIDS[i]) in res else "odd")
        self.gets[c] = self.loop.create_task(runner())
        self._after()
        return True

    def close_call(self, kind):
        if self.closer is not None and not self.closer.done():
            return False
        self.slog(kind)
        p = self.pairing

        async def runner():
            try:
                await (p.close() if kind == "close" else p.shutdown())
            except asyncio.CancelledError:
                raise
            except Exception as ex:  # noqa: BLE001
                self.slog("cret_exc", cls=_cls(ex))
                return
            self.slog("cret")
        self.closer = self.loop.create_task(runner())
        self._after()
        return True

    # ------------------------------------------------------------------ stimuli: the accessory
    def ind(self, i, d=0):
        link = self.up_link()
        cb = link.notify.get(IIDS[i]) if link else None
        if cb is None:
            return False
        self.slog("ind", i=i, d=d)
        self.loop.call_soon(cb, IIDS[i], b"" if d == 0 else b"\x01")
        self._after()
        return True

    def change(self, i, v=None):
        if i in NOEV:
            return False
        if v is None or v == self.aval[i]:
            v = 1 - self.aval[i]
        self.aval[i] = v
        self.slog("chg", i=i, v=v)
        self._after()
        return True

    # ------------------------------------------------------------------ stimuli: Bluetooth
    def gatt_live(self):
        return [p for p in self.live() if p.kind in ("wr", "rd", "pv")]

    def step(self, k=1):
        """answer up to k pending GATT operations honestly (no event of its own)"""
        done = 0
        for _ in range(k):
            q = self.gatt_live()
            if not q:
                break
            p = q[0]
            if p.kind == "wr":
                self.write_ok(p)
            elif p.kind == "rd":
                self.read_ok(p)
            else:
                self.pv_answer(p)
            done += 1
            self.obs()
        return done

    def conn(self, ok=True):
        if not self.live("conn"):
            return False
        self.conn_result(ok)
        self._after()
        return True

    def sn(self, out=None):
        """the pending start_notify is answered: ok / err (refused, only characteristics without events) / race (accepted,
        and the link is lost in the same loop iteration)"""
        q = self.live("sn")
        if not q:
            return False
        p = q[0]
        i = MID.get(p.iid, 99)
        if i in NOEV or i == 99:
            out = "err"
        elif out not in ("ok", "race"):
            out = "ok"
        self.slog("sn_res", l=p.link.n, i=i, out=out)
        self._force_wb = True
        if out == "err":
            from bleak.exc import BleakError
            p.fut.set_exception(BleakError("harness: characteristic does not support notify or indicate"))
        else:
            p.link.notify[p.iid] = p.cb
            p.fut.set_result(None)
            if out == "race":
                p.link.go_down()
        self._after()
        return True

    def link_drop(self):
        if self.up_link() is None:
            return False
        self.drop()
        self.obs()
        return True

    def disc(self):
        q = self.live("disc")
        if not q:
            return False
        self.disc_result(q[0])
        self.obs()
        return True

    # ------------------------------------------------------------------ stimuli: time
    def timers(self):
        now = self.loop.time()
        return sorted(h._when - now for h in self.loop._scheduled if not h._cancelled)

    def timer(self):
        """the next timer fires"""
        self.settle()
        t = self.timers()
        if not t:
            return False
        if len(t) > 1 and abs(t[1] - t[0]) < 1e-9:
            self.skipped = "two timers due at the same instant"
        self.slog("timer")
        # exactly to the timer's due time (time + (due - time) need not be due in floating point)
        self.loop._vtime = max(self.loop._vtime, self.loop.next_timer())
        self._after()
        return True

    def wait(self, ms):
        """ms pass; no timer is due in that time"""
        self.settle()
        t = self.timers()
        if not t or ms < 1 or ms >= int(round(t[0] * 1000)):
            return False
        self.slog("wait", d=ms)
        self.loop.advance(ms / 1000.0)
        self._after()
        return True

    # ------------------------------------------------------------------ end of a run
    def honest_step(self):
        self.settle()
        if self.live("conn"):
            self.conn(True)
        elif self.live("sn"):
            self.sn("ok")
        elif self.gatt_live():
            self.step(1)
        elif self.live("disc"):
            self.disc()
        else:
            return False
        return True

    def run_all(self, limit=120):
        """everything pending at the Bluetooth boundary is answered honestly (timers stay)"""
        for _ in range(limit):
            if not self.honest_step():
                break

    def honest_tail(self, limit=400):
        for _ in range(limit):
            if self.honest_step():
                continue
            if self.timers():
                self.timer()
                continue
            break
        self.settle()
        hung = sorted(c for c, t in self.gets.items() if not t.done())
        self.slog("end", hung=hung, closer=bool(self.closer is not None and not self.closer.done()))

    def record(self):
        return {"id": self.rid, "events": self.sev, "problems": self.problems[:5], "skipped": self.skipped or "",
                "loop_exceptions": self.loop_exceptions[:5]}

    def close(self):
        D.Link = self._orig_link
        self.P.async_create_task = self._orig_act
        D.VALUES.clear()
        D.VALUES.update(self._orig_values)
        super().close()


def _ids(subs):
    return sorted({MID.get(iid, 99) if aid == 1 else 99 for aid, iid in subs})


def _num(x):
    if isinstance(x, bool):
        return int(x)
    if isinstance(x, int):
        return x if -2 ** 31 < x < 2 ** 31 else -2
    return -3


def _cls(ex):
    from bleak.exc import BleakError
    from aiohomekit.exceptions import AccessoryDisconnectedError
    if isinstance(ex, (BleakError, AccessoryDisconnectedError)):
        return "disc"
    if isinstance(ex, AttributeError):
        return "attr"
    return type(ex).__name__


# =======================================================================================
# seeded random schedules
# =======================================================================================
def random_run(seed: int, rid: str, nsteps: int = 40, fault: float = 0.2) -> SWorld:
    import random
    rng = random.Random(seed)
    w = SWorld(seed, rid)
    shut = False
    for _ in range(nsteps):
        up = w.up_link() is not None
        acts = [("sub", 6), ("get", 4), ("listen", 2), ("chg", 2)]
        if w.live("conn"):
            acts += [("conn_ok", 12)]
            if rng.random() < fault:
                acts += [("conn_fail", 5)]
        if w.gatt_live():
            acts += [("step", 14)]
        if w.live("sn"):
            acts += [("sn_ok", 12)]
            if rng.random() < fault:
                acts += [("sn_race", 4)]
        if w.live("disc"):
            acts += [("disc", 8)]
        if up and rng.random() < fault:
            acts += [("drop", 5)]
        if up and not w.live():
            acts += [("drop", 2)]
        if up and w.up_link().notify:
            acts += [("ind", 10)]
        if w.timers():
            acts += [("timer", 6), ("wait", 3)]
        if w.pairing.subscriptions and rng.random() < 0.1:
            acts += [("unsub", 2)]
        if w.removers and rng.random() < 0.3:
            acts += [("unlisten", 1)]
        if rng.random() < 0.15:
            acts += [("close", 2)]
            if not shut and rng.random() < 0.3:
                acts += [("shutdown", 1)]
        tot = sum(x for _, x in acts)
        r = rng.random() * tot
        for name, wt in acts:
            r -= wt
            if r < 0:
                break
        if name == "sub":
            w.subscribe(rng.choice([[1], [2], [1, 2], [3], [1, 3], [2], [1]]))
        elif name == "unsub":
            w.unsubscribe(rng.choice([[1], [2], [1, 2], [3]]))
        elif name == "get":
            w.get(rng.choice([1, 2]), rng.choice([1, 2]))
        elif name == "listen":
            w.listen(rng.choice([1, 2, 3]))
        elif name == "unlisten":
            w.unlisten(rng.choice(sorted(w.removers)))
        elif name == "chg":
            w.change(rng.choice([1, 2]))
        elif name == "conn_ok":
            w.conn(True)
        elif name == "conn_fail":
            w.conn(False)
        elif name == "step":
            w.step(rng.choice([1, 1, 2, 3, 6, 12]))
        elif name == "sn_ok":
            w.sn("ok")
        elif name == "sn_race":
            w.sn("race")
        elif name == "disc":
            w.disc()
        elif name == "drop":
            w.link_drop()
        elif name == "ind":
            ids = sorted(MID[i] for i in w.up_link().notify)
            for _ in range(rng.choice([1, 1, 2, 3])):
                w.ind(rng.choice(ids), 1 if rng.random() < 0.15 else 0)
        elif name == "timer":
            w.timer()
        elif name == "wait":
            t = int(round(w.timers()[0] * 1000))
            w.wait(rng.choice([1, t // 2, t - 1, 50, 700]))
        elif name == "close":
            w.close_call("close")
        elif name == "shutdown":
            shut = True
            w.close_call("shutdown")
    w.honest_tail()
    return w


# =======================================================================================
# directed schedules (situations random choice rarely produces; details still drawn from the seed)
# =======================================================================================
def directed_run(seed: int, rid: str, template: str) -> SWorld:
    import random
    rng = random.Random(seed)
    w = SWorld(seed, rid)

    def up_and_notified(ids=(1, 2)):
        """subscribed, a listener, connected by a get, notifications started"""
        w.listen(1)
        w.subscribe(list(ids))
        w.get(1, 1)
        w.run_all()
        w.timer()
        w.run_all()

    if template == "unsub":
        # the recorded finding: unsubscribe is ignored - the next link starts notifications again
        up_and_notified()
        w.unsubscribe([rng.choice([1, 2])])
        if rng.random() < 0.5:
            w.ind(1)
            w.run_all()
        w.link_drop()
        w.get(1, 2)
        w.run_all()
    elif template == "race":
        # start_notify accepted and the link lost in the same loop iteration
        w.listen(1)
        w.subscribe([1, 2])
        w.get(1, 1)
        w.run_all()
        w.timer()
        if rng.random() < 0.5:
            w.sn("ok")
        w.sn("race")
        w.get(1, 2)
        w.run_all()
        w.timer()
        w.run_all()
    elif template == "close_in_pass":
        # close() / shutdown() while the pass is suspended in start_notify (both orders of the two calls)
        w.subscribe([1, 2] if rng.random() < 0.7 else [1, 2, 3])
        w.get(1, 1)
        w.run_all()
        kind = rng.choice(["close", "close", "shutdown"])
        if rng.random() < 0.5:
            w.close_call(kind)            # disconnect pending first, then the pass starts
            w.timer()
        else:
            w.timer()
            if rng.random() < 0.4:
                w.sn("ok")
            w.close_call(kind)
        w.disc()
        if kind == "close":
            w.get(2, 2)
            w.run_all()
    elif template == "debounce":
        # N subscribe calls inside the window: one pass, 1.5 s after the last one; exactly the delay
        w.get(1, 1)
        w.run_all()
        w.subscribe([1])
        w.step(rng.choice([0, 1, 4]))
        w.wait(rng.choice([700, 1499, 1]))
        w.subscribe([2])
        w.wait(1499)
        w.run_all()
        w.timer()
        w.run_all()
        w.subscribe([3])
        w.run_all()
        w.timer()
        w.run_all()
    elif template == "sub_in_pass":
        # a subscribe while the pass is suspended; a link loss at each await of the pass
        w.subscribe([1])
        w.get(1, 1)
        w.run_all()
        w.timer()
        w.subscribe([2])
        k = rng.choice([0, 1, 2])
        if k == 0:
            w.link_drop()
        w.sn("ok")
        if k == 1:
            w.link_drop()
        w.run_all()
        if rng.random() < 0.5:
            w.get(2, 1)
        w.run_all()
    elif template == "storm":
        # notification storm: at most one read in flight and one pending per characteristic; raising listener
        for n in (1, 3, 2):
            w.listen(n)
        up_and_notified()
        for _ in range(rng.choice([3, 5])):
            w.ind(rng.choice([1, 1, 2]), 0)
            if rng.random() < 0.4:
                w.change(1)
            if rng.random() < 0.3:
                w.step(1)
        w.ind(2, 1)
        w.run_all()
        w.change(1)
        w.ind(1)
        w.step(1)
        w.link_drop()
        w.ind(1)
    elif template == "sub_while_down":
        # subscribe while there is no connection, during the connection attempt and during pair-verify
        w.subscribe([1])
        w.get(1, 1)
        w.subscribe([2])
        w.conn(True)
        w.subscribe([3])
        w.run_all()
        w.link_drop()
        w.subscribe([1, 2])
        w.get(1, 2)
        w.conn(rng.random() < 0.7)
        w.run_all()
    elif template == "drop_in_restore":
        up_and_notified()
        w.link_drop()
        w.get(1, 1)
        w.conn(True)
        w.step(rng.randint(0, 8))
        w.link_drop()
        if rng.random() < 0.5:
            w.timer()
        w.run_all()
    elif template == "shutdown_timer":
        # the debounce timer is pending when shutdown() is called
        w.subscribe([1])
        w.get(1, 1)
        w.run_all()
        if rng.random() < 0.5:
            w.subscribe([2])
        w.close_call("shutdown")
        if rng.random() < 0.5:
            w.timer()
        w.disc()
        w.run_all()
        w.get(2, 1)
    else:
        raise ValueError(template)
    w.honest_tail()
    return w


TEMPLATES = ("unsub", "race", "close_in_pass", "debounce", "sub_in_pass", "storm", "sub_while_down", "drop_in_restore", "shutdown_timer")
