"""C18 driver: a BLE controller with two loaded pairings on a virtual-time loop, an independent
broadcast-notification sealer (ChaCha20-Poly1305 from `cryptography`, AAD = advertising id, nonce from
the state number, tag truncated to 4 bytes), and the translation between the symbolic advertisements
of spec/ble/BleBroadcast.tla and real `AdvertisementData` fed to `BleController._device_detected`.

Nothing here decides a verdict: the driver only concretises symbolic advertisements and translates
what the real code showed (listener calls, description.state_num) back into the spec's vocabulary.
"""
from __future__ import annotations

import hashlib
import logging
import struct

from harness.refacc import crypto as RC
from harness.vloop import close_loop, new_loop

logging.getLogger("aiohomekit").addHandler(logging.NullHandler())
logging.getLogger("aiohomekit").propagate = False

# ----------------------------------------------------------------------------- the accessory database
# one characteristic per format; spec iid j (1-based) -> FORMATS[j-1], real iid = IID0 + j - 1
FORMATS = ["bool", "uint8", "uint16", "uint32", "uint64", "int", "float", "string", "data", "tlv8"]
IID0 = 20


def _f32(x):
    return struct.unpack("<f", struct.pack("<f", x))[0]


# value index v (1-based) -> (8 value bytes as the accessory sends them, acceptable decoded values)
def _vals(fmt):
    def ints(pack, xs):
        return [(struct.pack("<" + pack, x).ljust(8, b"\0"), [x]) for x in xs]
    if fmt == "bool":
        return [(b"\0" * 8, [False]), (b"\1" + b"\0" * 7, [True]), (b"\1" + b"\0" * 7, [True]), (b"\0" * 8, [False])]
    if fmt == "uint8":
        return ints("B", [0, 255, 1, 128])
    if fmt == "uint16":
        return ints("H", [0, 65535, 256, 1])
    if fmt == "uint32":
        return ints("I", [0, 2 ** 32 - 1, 65536, 1])
    if fmt == "uint64":
        return ints("Q", [0, 2 ** 64 - 1, 2 ** 32, 1])
    if fmt == "int":
        return ints("i", [0, -1, 2 ** 31 - 1, -2 ** 31])
    if fmt == "float":
        return [(struct.pack("<f", x).ljust(8, b"\0"), [_f32(x)]) for x in (0.0, 1.5, -2.25, 3.0e38)]
    if fmt == "string":
        out = []
        for s in ("abcdefgh", "héll✓", "on", ""):      # 8 ascii bytes, 8 utf-8 bytes, padded, empty
            b = s.encode("utf-8")
            assert len(b) <= 8
            # HAP pads short values with zeros; a faithful decoder may or may not strip the padding
            out.append((b.ljust(8, b"\0"), [s, s + "\0" * (8 - len(b))]))
        return out
    # data / tlv8: opaque bytes; any faithful rendering of the 8 bytes is accepted
    out = []
    for b in (bytes(range(1, 9)), b"\xff" * 8, b"\0" * 8, bytes([0x80, 0, 0x7f, 1, 2, 3, 4, 5])):
        import base64
        out.append((b, [b, b.hex(), base64.b64encode(b).decode()]))
    return out


VALUES = {f: _vals(f) for f in FORMATS}
NVALS = 4


def _same(got, want):
    return type(got) is type(want) and got == want


def accessories_json():
    chars = [{"iid": IID0 + i, "type": "0000%04X-0000-1000-8000-0026BB765291" % (0xE000 + i), "format": f,
              "perms": ["pr", "ev"], "value": None} for i, f in enumerate(FORMATS)]
    return [{"aid": 1, "services": [
        {"iid": 1, "type": "0000003E-0000-1000-8000-0026BB765291", "characteristics": [
            {"iid": 2, "type": "00000023-0000-1000-8000-0026BB765291", "format": "string", "perms": ["pr"], "value": "acc"}]},
        {"iid": 5, "type": "000000A2-0000-1000-8000-0026BB765291", "characteristics": [
            {"iid": 6, "type": "00000037-0000-1000-8000-0026BB765291", "format": "string", "perms": ["pr"], "value": "2.2.0"},
            {"iid": 7, "type": "000000A5-0000-1000-8000-0026BB765291", "format": "data", "perms": ["pr"], "value": ""}]},
        {"iid": 9, "type": "0000E900-0000-1000-8000-0026BB765291", "characteristics": chars}]}]


# ----------------------------------------------------------------------------- independent sealer
def seal_notification(key: bytes, adv_id: bytes, nonce_gsn: int, inner_gsn: int, iid: int, value8: bytes) -> bytes:
    """HAP-BLE encrypted broadcast payload: 12 bytes (GSN u16 | IID u16 | value 8) sealed with
    ChaCha20-Poly1305, nonce = 0^4 | GSN as u64 LE, AAD = 6-byte advertising id, tag cut to 4 bytes."""
    pt = struct.pack("<HH", inner_gsn & 0xFFFF, iid & 0xFFFF) + value8
    assert len(pt) == 12
    ct = RC.seal(key, RC.counter_nonce(nonce_gsn), pt, adv_id)
    return ct[:12] + ct[12:16]


NAMES = ("A", "B", "X")
ADV_ID = {"A": bytes.fromhex("aabbcc00000a"), "B": bytes.fromhex("AABBCC00000B"), "X": bytes.fromhex("aabbcc00000c")}


def hkid(name, upper=False):
    s = ":".join(f"{b:02x}" for b in ADV_ID[name])
    return s.upper() if upper else s


class World:
    """One controller, pairings A and B restored from a cache (the restart path)."""

    def __init__(self, start: dict, keys: dict, tag: str = ""):
        from bleak.backends.device import BLEDevice
        from aiohomekit.characteristic_cache import CharacteristicCacheMemory
        from aiohomekit.controller.ble.controller import BleController
        from harness.refacc.accessory import ControllerIdentity, Identity, PairVerify

        self.loop = new_loop()
        self.exceptions = []
        self.cache = CharacteristicCacheMemory()
        self.key = {}
        self.derive = {}
        self.ident = {}
        ctrl_ident = ControllerIdentity(seed=hashlib.sha256(b"c18-controller").digest())
        self.pdata = {}
        for name in NAMES:
            self.key[name] = hashlib.sha256(b"c18-broadcast-key-" + name.encode() + tag.encode()).digest()
        for name in ("A", "B"):
            # pairing B uses the upper-case spelling of its id in the pairing data (ids are normalised)
            pid = hkid(name, upper=(name == "B"))
            ident = Identity(acc_id=pid, seed=hashlib.sha256(b"c18-acc-" + name.encode()).digest())
            pd = ident.pairing_data(ctrl_ident)
            pd = {k: v for k, v in pd.items() if not k.startswith("AccessoryIP") and k != "AccessoryPort"}
            pd.update({"Connection": "BLE", "AccessoryAddress": hkid(name).upper()})
            self.ident[name] = ident
            self.pdata[name] = pd
            if not keys[name]:
                # the key the accessory will use is the one a pair-verified session derives:
                # HKDF-SHA512(shared secret, salt = controller LTPK, info = "Broadcast-Encryption-Key")
                self._prepare_session(name, PairVerify)
            self.cache.async_create_or_update_map(pid, 1, accessories_json(),
                                                  self.key[name].hex() if keys[name] else None, start[name])

        async def mk():
            return BleController(self.cache)
        self.ctrl = self.loop.run_until_complete(mk())
        self.pairing = {}
        self.log = []
        for name in ("A", "B"):
            p = self.ctrl.load_pairing("alias" + name, dict(self.pdata[name]))
            self.pairing[name] = p
            p.dispatcher_connect(lambda ev, n=name: self.log.append((n, ev)))
        self.device = {n: BLEDevice(hkid(n).upper(), "acc" + n, None) for n in NAMES}
        self.sent = []          # concrete manufacturer data of everything fed so far

    # -- pair-verify between the real controller-side generator and the reference accessory
    def _prepare_session(self, name, PairVerify):
        from aiohomekit.protocol import get_session_keys
        from harness.refacc import tlv as RT
        pv = PairVerify(self.ident[name])
        gen = get_session_keys(self.pdata[name])
        req, _ = next(gen)
        m2 = pv.on_m1([(int(t), bytes(v)) for t, v in req])
        req, _ = gen.send([(t, bytearray(v)) for t, v in m2])
        m4 = pv.on_m3([(int(t), bytes(v)) for t, v in req])
        try:
            gen.send([(t, bytearray(v)) for t, v in m4])
            raise RuntimeError("pair-verify generator did not finish")
        except StopIteration as st:
            res = st.value
        self.derive[name] = res[-1] if isinstance(res, tuple) else res
        ltpk = bytes.fromhex(self.pdata[name]["iOSDeviceLTPK"])
        self.key[name] = RC.hkdf(pv.shared, ltpk, b"Broadcast-Encryption-Key")

    def install_key(self, name):
        """Run the real key-derivation step of a session (GATT request stubbed out)."""
        p = self.pairing[name]
        p._derive = self.derive[name]
        sent = []

        async def fake_request(opcode, char, data=None, iid=None):
            sent.append((opcode, iid, bytes(data or b"")))
            return b""
        p._async_request_under_lock = fake_request

        async def go():
            async with p._operation_lock:
                await p._async_set_broadcast_encryption_key()
        self.loop.run_until_complete(go())
        self.loop.settle()
        return sent

    # -- concretisation
    def concretise(self, a: dict, bit: int | None = None, trunc: int | None = None) -> bytes:
        """manufacturer data (company 0x004C) of the symbolic advertisement a"""
        fmt = FORMATS[a["iid"] - 1]
        value8 = VALUES[fmt][a["val"] - 1][0]
        sealed = bytearray(seal_notification(self.key[a["k"]], ADV_ID[a["aad"]], a["n"], a["g"], IID0 + a["iid"] - 1, value8))
        if a["dmg"] != "none":
            if trunc is not None:
                sealed = sealed[:trunc] if trunc <= 16 else sealed + bytes(trunc - 16)
            else:
                if bit is None:
                    h = int.from_bytes(hashlib.sha256(repr(sorted(a.items())).encode()).digest()[:4], "big")
                    bit = h % 96 if a["dmg"] == "payload" else 96 + h % 32
                assert (bit < 96) == (a["dmg"] == "payload")
                sealed[bit // 8] ^= 1 << (bit % 8)
        return bytes([0x11, 0x36]) + ADV_ID[a["to"]] + bytes(sealed)

    def state(self):
        out = {}
        for n, p in self.pairing.items():
            d = p.description
            out[n] = d.state_num if d is not None and isinstance(d.state_num, int) else -1
        return out

    def feed_raw(self, name_for_device: str, mfr: bytes):
        from bleak.backends.scanner import AdvertisementData
        adv = AdvertisementData(local_name=None, manufacturer_data={76: mfr}, service_data={}, service_uuids=[],
                                tx_power=-127, rssi=-60, platform_data=((),))
        dev = self.device[name_for_device]
        mark = len(self.log)
        exc = None

        def cb():
            nonlocal exc
            try:
                self.ctrl._device_detected(dev, adv)
            except Exception as ex:  # noqa: BLE001
                exc = f"{type(ex).__name__}: {ex}"
        self.loop.call_soon(cb)
        self.loop.settle()
        return self.log[mark:], exc

    def feed(self, a: dict, bit=None, trunc=None):
        """-> event dict for the trace: symbolic advertisement, translated listener calls, state numbers"""
        mfr = self.concretise(a, bit, trunc)
        self.sent.append(mfr)
        # received from the BLE address on record for a["from"] (A / B: the pairing's AccessoryAddress; X: unrelated)
        calls, exc = self.feed_raw(a.get("from", a["to"]), mfr)
        dele = []
        for name, ev in calls:
            if not isinstance(ev, dict) or not ev:
                dele.append([name, 0, 0])
                continue
            for k, v in ev.items():
                dele.append(self.translate(name, k, v, a))
        e = {"ev": "adv", "a": a, "del": dele, "after": self.state()}
        if exc:
            e["exc"] = exc
        if bit is not None:
            e["bit"] = bit
        if trunc is not None:
            e["trunc"] = trunc
        return e

    def translate(self, name, k, v, a):
        """listener entry -> [pairing, spec iid (0 = unknown), spec value index (0 = not a value of the table)]"""
        try:
            aid, iid = k
        except Exception:  # noqa: BLE001
            return [name, 0, 0]
        j = iid - IID0 + 1
        if aid != 1 or not (1 <= j <= len(FORMATS)):
            return [name, 0, 0]
        got = v.get("value") if isinstance(v, dict) and set(v) == {"value"} else None
        tab = VALUES[FORMATS[j - 1]]
        match = [i + 1 for i, (_, wants) in enumerate(tab) if any(_same(got, w) for w in wants)]
        if a["val"] in match:
            return [name, j, a["val"]]
        return [name, j, match[0] if match else 0]

    def close(self):
        close_loop(self.loop)


def new_world(start, keys, tag=""):
    return World(start, keys, tag)
