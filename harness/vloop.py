"""Virtual-time asyncio event loop over real (socketpair) transports.

`VLoop.time()` is a virtual clock.  The selector first polls the real selector with timeout 0
(so bytes written into a socketpair are seen); if nothing is ready it advances the virtual
clock by the time-out asyncio asked for.  `select(None)` with nothing ready means nothing can
ever happen again: that is reported (Deadlock) rather than waited for.
"""
from __future__ import annotations

import asyncio
import selectors


class Deadlock(Exception):
    pass


class _VSelector(selectors.DefaultSelector):
    def __init__(self, loop_ref):
        super().__init__()
        self._loop_ref = loop_ref

    def select(self, timeout=None):
        ready = super().select(0)
        if ready:
            return ready
        loop = self._loop_ref()
        if timeout is None:
            # only fds could wake us and none is ready: give real time a tiny chance (kernel delivery
            # on socketpairs is synchronous, so one more poll is enough), then declare deadlock
            ready = super().select(0.001)
            if ready:
                return ready
            if loop is not None and loop._stop_on_idle:
                loop.stop()
                loop._idle = True
                return []
            raise Deadlock("event loop idle with no timers and no ready fds")
        if timeout > 0 and loop is not None:
            if loop._time_limit is not None and loop._vtime + timeout > loop._time_limit:
                # do not run past the limit: stop the loop at the limit instead
                loop._vtime = loop._time_limit
                loop._hit_limit = True
                loop.stop()
                return []
            loop._vtime += timeout
        return []


class VLoop(asyncio.SelectorEventLoop):
    def __init__(self):
        import weakref
        self._vtime = 0.0
        self._time_limit = None
        self._hit_limit = False
        self._stop_on_idle = False
        self._idle = False
        super().__init__(_VSelector(weakref.ref(self)))
        self._clock_resolution = 1e-9

    def time(self):
        return self._vtime

    # ---- driving helpers
    def settle(self, max_iter: int = 10000) -> None:
        """Run every callback that is ready *now* (virtual time does not advance)."""
        for _ in range(max_iter):
            # anything ready or any fd event pending?
            if not self._ready:
                ev = self._selector.__class__.__mro__[1].select(self._selector, 0)  # real poll
                due = bool(self._scheduled) and self._scheduled[0]._when <= self._vtime and \
                    not all(h._cancelled for h in self._scheduled if h._when <= self._vtime)
                if not ev and not due:
                    return
            self.call_soon(self.stop)
            self.run_forever()
        raise RuntimeError("settle(): did not quiesce")

    def advance(self, dt: float) -> None:
        """Advance virtual time by dt, firing every timer due on the way (and all I/O)."""
        target = self._vtime + dt
        self.settle()
        while True:
            # next live timer
            live = [h._when for h in self._scheduled if not h._cancelled]
            nxt = min(live) if live else None
            if nxt is None or nxt > target:
                break
            if nxt > self._vtime:
                self._vtime = nxt
            self.settle()
        self._vtime = max(self._vtime, target)
        self.settle()

    def next_timer(self):
        live = [h._when for h in self._scheduled if not h._cancelled]
        return min(live) if live else None

    def run_until_idle_or(self, limit_vtime: float) -> None:
        """Run until nothing is left to do or the virtual clock reaches limit_vtime."""
        while True:
            self.settle()
            nxt = self.next_timer()
            if nxt is None or nxt > limit_vtime:
                return
            self._vtime = max(self._vtime, nxt)


def new_loop() -> VLoop:
    loop = VLoop()
    asyncio.set_event_loop(loop)
    return loop


def close_loop(loop: VLoop) -> None:
    try:
        pending = [t for t in asyncio.all_tasks(loop) if not t.done()]
        for t in pending:
            t.cancel()
        if pending:
            loop._stop_on_idle = True
            try:
                loop.run_until_complete(asyncio.gather(*pending, return_exceptions=True))
            except Exception:  # noqa: BLE001
                pass
        loop.run_until_complete(loop.shutdown_asyncgens())
    except Exception:  # noqa: BLE001
        pass
    finally:
        asyncio.set_event_loop(None)
        loop.close()
