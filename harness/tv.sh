#!/bin/sh
# usage: tv.sh <TraceModule.tla> <cfg> <tracefile>  -- batch trace validation (debug helper)
d=$(mktemp -d /tmp/tlcm.XXXXXX)
TRACE_FILE=$3 timeout ${TLTIMEOUT:-900} java -XX:+UseParallelGC -Xmx8g -Dtlc2.tool.queue.IStateQueue=StateDeque -Djava.io.tmpdir=$d -cp /opt/veriftools/tla/tla2tools.jar:/opt/veriftools/tla/CommunityModules-deps.jar tlc2.TLC -workers 1 -metadir $d -noGenerateSpecTE -config $2 $1 > $d/out.txt 2>&1
grep -E "REJECTED|Error|states generated|Finished in|violated" $d/out.txt | head -${TVN:-20}
if grep -q "Error: Invariant\|Error: Action" $d/out.txt; then /venv/bin/python /verif/harness/tlcshow.py < $d/out.txt | tail -30; fi
rm -rf $d
