"""C15 - pairing TLV8 codec: round trip, canonical wire format, total decoder.

(A) TLC: spec/codec/Tlv8 (pipeline, FRAG=3 exhaustive and FRAG=255 on the boundary classes),
    spec/codec/Tlv8Bytes (byte-level decoder over all short strings).
(B) spec -> code: every case TLC exports is concretised and run on TLV.encode_list /
    TLV.decode_bytes / TLV.decode_bytearray.
(C) code -> spec: seeded random item lists (values up to 2000 bytes, all 256 types) are run through
    the real codec, the observed layout is read by an independent TLV reader and validated by TLC
    against Tlv8_Trace.
"""
from __future__ import annotations

import json
import os
import shutil
import tempfile

from harness.common import MachineryError


def _value(rng, idx, n):
    # distinguishable content per item; includes bytes equal to type/length-looking values
    return bytes(rng.randrange(256) for _ in range(n))


def ref_parse_frags(bs: bytes):
    """Independent TLV reader: (type, len) fragments of a byte string; None if malformed."""
    out, p = [], 0
    while p < len(bs):
        if p + 2 > len(bs):
            return None
        t, n = bs[p], bs[p + 1]
        if p + 2 + n > len(bs):
            return None
        out.append([t, n])
        p += 2 + n
    return out


def run(ctx):
    from aiohomekit.protocol.tlv import TLV, TlvParseException
    if ctx.replay:
        rep = json.load(open(ctx.replay)).get("replay") or {}
        ctx.rule = "replay of one stored case on the tree under test"
        if rep.get("kind") == "item_case":
            _replay_item_case(ctx, TLV, TlvParseException, {"items": rep["items"], "wire": rep["wire"]})
        elif rep.get("kind") == "byte_case":
            _replay_byte_case(ctx, TLV, TlvParseException, {"inp": rep["inp"], "exp": rep["spec"]}, rep.get("expected_filter"))
        elif "items" in rep:
            its = rep["items"]
            try:
                enc = TLV.encode_list([[t, bytearray(bytes(n))] for t, n in its])
                dec = TLV.decode_bytes(bytes(enc))
                if [[int(t), len(v)] for t, v in dec] != [list(x) for x in its]:
                    ctx.violation(f"decode(encode(items)) != items for {its}", rep)
            except Exception as ex:  # noqa: BLE001
                ctx.violation(f"codec raised {type(ex).__name__} on {its}", rep)
            ctx.case(("replay", json.dumps(its)))
        ctx.sample({"replayed": rep})
        ctx.states = ctx.states or 1
        ctx.transitions = ctx.transitions or 1
        return

    ctx.rule = ("item lists / byte strings enumerated by TLC from spec/codec/Tlv8*.tla; a case is distinct by "
                "its abstract description (types, lengths, bytes); non-trivial = at least one item or byte")
    ctx.assume("value *content* is filled in by the concretiser (seeded random bytes); the model is content-independent",
               "the independent TLV reader in harness/props/c15.py is trusted to read fragment boundaries")
    tmp = tempfile.mkdtemp(prefix="c15_")
    try:
        # ---------------- (A) design level
        ctx.tlc("codec/Tlv8", "Tlv8_small.cfg", label="pipeline FRAG=3 exhaustive")
        # ---------------- (A)+(B) real constants, export and replay on the code
        cfgs = ["Tlv8_Cases_real.cfg"] + (["Tlv8_Cases_real3.cfg"] if ctx.thorough else [])
        for cfg in cfgs:
            out = os.path.join(tmp, cfg + ".ndjson")
            ctx.tlc("codec/Tlv8_Cases", cfg, env={"CASES_OUT": out}, label="pipeline FRAG=255 + case export")
            n = 0
            for line in open(out):
                c = json.loads(line)
                n += 1
                _replay_item_case(ctx, TLV, TlvParseException, c)
            if n == 0:
                raise MachineryError("no item cases exported")
        # ---------------- byte-level decoder
        for cfg, expected in (("Tlv8Bytes_nofilter.cfg", None), ("Tlv8Bytes_filter.cfg", [6, 7, 3])):
            cfgp = os.path.join(tmp, cfg)
            src = open(os.path.join(os.path.dirname(__file__), "../../spec/codec", cfg)).read()
            if not ctx.thorough:
                src = src.replace("MaxLen = 6", "MaxLen = 5").replace("MaxLen = 5  Expected = {6", "MaxLen = 4  Expected = {6")
            open(cfgp, "w").write(src)
            out = os.path.join(tmp, cfg + ".ndjson")
            ctx.tlc("codec/Tlv8Bytes", cfgp, env={"CASES_OUT": out}, label=f"byte decoder expected={expected}")
            for line in open(out):
                c = json.loads(line)
                _replay_byte_case(ctx, TLV, TlvParseException, c, expected)
        # ---------------- BLE pairing-reply fragment reassembly on top of the codec (client._pairing_char_write)
        out = os.path.join(tmp, "blefrag.ndjson")
        ctx.tlc("codec/BleFrag_Cases", "BleFrag_Cases.cfg", env={"CASES_OUT": out}, workers=4,
                label="BLE pairing fragment reassembly + case export")
        _replay_blefrag(ctx, [json.loads(l) for l in open(out)])
        # ---------------- (C) code -> spec on random lists
        nrec = ctx.pick(400, 4000)
        recs = []
        rng = ctx.rng
        for k in range(nrec):
            nitems = rng.randrange(1, 7)
            items = []
            prev = None
            for _ in range(nitems):
                t = rng.choice([rng.randrange(256), rng.randrange(256), 255, 0, 1, 6, 7])
                if t == prev:
                    t = (t + 1) % 255
                prev = t
                n = 0 if t == 255 else rng.choice([0, 1, 2, 254, 255, 256, 257, 509, 510, 511, 765, 766,
                                                    rng.randrange(2001), rng.randrange(2001), rng.randrange(600)])
                items.append([t, n])
            vals = [[t, bytearray(_value(rng, i, n))] for i, (t, n) in enumerate(items)]
            rec = {"items": items}
            try:
                enc = TLV.encode_list([[t, bytearray(v)] for t, v in vals])
                frags = ref_parse_frags(bytes(enc))
                if frags is None:
                    ctx.violation("encode_list produced bytes that are not TLV8", {"items": items, "enc": bytes(enc)})
                    continue
                dec = TLV.decode_bytes(bytes(enc))
                rec["frags"] = frags
                rec["dec"] = [[int(t), len(v)] for t, v in dec]
                # content check (outside the content-independent model): bytes must come back unchanged
                if [bytes(v) for _, v in dec] != [bytes(v) for _, v in vals] and rec["dec"] == items:
                    ctx.violation("decode(encode(items)) returned different value bytes", {"items": items})
            except Exception as ex:  # noqa: BLE001
                ctx.violation(f"codec raised {type(ex).__name__} on a well-formed item list", {"items": items})
                continue
            recs.append(rec)
            ctx.case(("rand", json.dumps(items)))
        tf = os.path.join(tmp, "trace.ndjson")
        with open(tf, "w") as f:
            for r in recs:
                f.write(json.dumps(r) + "\n")
        res = ctx.tlc("codec/Tlv8_Trace", "Tlv8_Trace.cfg", env={"TRACE_FILE": tf}, expect_violation=True,
                      require_cover=False, label="trace validation of recorded encode/decode runs")
        if not res.ok:
            from harness import tlc as T
            ce = T.parse_counterexample(res.violation["trace"])
            tid = ce[-1][1].get("tid") if ce else None
            rec = recs[tid - 1] if isinstance(tid, int) else None
            sig = _classify_rec(rec) if rec else None
            ctx.violation(f"recorded codec run rejected by Tlv8_Trace ({res.violation['name']}): {rec}",
                          {"record": rec, "tlc": res.violation}, signature=sig)
        else:
            ctx.trace_ok(len(recs))
        ctx.sample({"trace_record": recs[0] if recs else None})
        ctx.exhaustive = False
    finally:
        shutil.rmtree(tmp, ignore_errors=True)


def _classify_rec(rec):
    return None


def _replay_item_case(ctx, TLV, TlvParseException, c):
    items, wire = c["items"], c["wire"]
    key = ("items", json.dumps(items))
    ctx.case(key if items else None)
    rng = ctx.rng
    vals = [bytes(_value(rng, i, n)) for i, (t, n) in enumerate(items)]
    expect = bytearray()
    for t, n, item, off in wire:
        expect += bytes([t, n]) + vals[item - 1][off:off + n]
    replay = {"kind": "item_case", "items": items, "wire": wire}
    try:
        enc = TLV.encode_list([[t, bytearray(v)] for (t, _), v in zip(items, vals)])
    except Exception as ex:  # noqa: BLE001
        ctx.violation(f"encode_list raised {type(ex).__name__}: {ex} for items {items}", replay)
        return
    if bytes(enc) != bytes(expect):
        ctx.violation(f"encode_list output differs from the canonical TLV8 layout for items {items}: "
                      f"got fragments {ref_parse_frags(bytes(enc))}, spec {[(w[0], w[1]) for w in wire]}", replay)
        # continue with the canonical bytes: the decoder must accept what a conformant peer sends
    for name, fn in (("decode_bytes", lambda b: TLV.decode_bytes(bytes(b))),
                     ("decode_bytearray", lambda b: TLV.decode_bytearray(bytearray(b)))):
        try:
            dec = fn(expect)
        except Exception as ex:  # noqa: BLE001
            ctx.violation(f"{name} raised {type(ex).__name__}: {ex} on the canonical encoding of {items}", replay)
            continue
        got = [[int(t), bytes(v)] for t, v in dec]
        want = [[t, v] for (t, _), v in zip(items, vals)]
        if got != want:
            ctx.violation(f"{name}(canonical encoding) != items for {items}: got {[(t, len(v)) for t, v in got]}", replay)
    ctx.trace_ok()
    if len(items) == 2 and items[1][1] > 255:
        ctx.sample({"item_case": c})


def _replay_byte_case(ctx, TLV, TlvParseException, c, expected):
    inp = bytes(c["inp"])
    exp = c["exp"]
    ctx.case(("bytes", tuple(expected or ()), inp) if inp else None)
    replay = {"kind": "byte_case", "inp": list(inp), "expected_filter": expected, "spec": exp}
    for name, fn in (("decode_bytes", lambda: TLV.decode_bytes(inp, expected=expected)),
                     ("decode_bytearray", lambda: TLV.decode_bytearray(bytearray(inp), expected))):
        try:
            dec = fn()
            got = {"verdict": "ok", "items": [[int(t), list(v)] for t, v in dec]}
        except TlvParseException:
            got = {"verdict": "parse", "items": []}
        except Exception as ex:  # noqa: BLE001
            got = {"verdict": f"other:{type(ex).__name__}", "items": []}
        want = {"verdict": exp["verdict"], "items": [[t, list(v)] for t, v in exp["items"]]}
        if got != want:
            ctx.violation(f"{name}({inp.hex()}, expected={expected}) -> {got['verdict']} "
                          f"{got['items']}, spec says {want['verdict']} {want['items']}", replay)
            return
    ctx.trace_ok()
    if len(inp) == 5 and exp["verdict"] == "ok" and len(ctx.samples) < 4:
        ctx.sample({"byte_case": c})


def _replay_blefrag(ctx, cases):
    """Every (reply length, fragment size, empty-last-fragment) plan exported by BleFrag is played by a scripted
    accessory against the real _pairing_char_write (char_write is the boundary that is replaced)."""
    import asyncio
    import aiohomekit.controller.ble.client as bc
    from aiohomekit.protocol.tlv import TLV
    from harness.refacc import tlv as RT

    def blob_of(l, fill=None):
        """A pairing reply of exactly l bytes.  fill=None: every byte differs from its neighbours; fill=b: the value is a
        constant run (zero padding, a repeated character), so that consecutive fragments are byte-identical - the
        fragments carry no sequence number and identical ones are not retransmissions."""
        if l == 0:
            return b""
        for m in range(max(0, l - 12), l + 1):
            body = bytes((i * 7 + 1) % 251 for i in range(m)) if fill is None else bytes([fill]) * m
            b = RT.enc([(6, b"\x02"), (3, body)]) if m else RT.enc([(6, b"\x02")])
            if len(b) == l:
                return b
        return None

    async def one(c, fill=None):
        blob = blob_of(c["l"], fill)
        if blob is None:
            return None
        writes = []
        it = iter(c["pieces"])

        async def fake_char_write(client, ek, dk, handle, iid, body):
            writes.append(bytes(body))
            kind, off, ln = next(it)
            part = blob[off:off + ln]
            if kind == "whole":
                return blob
            return RT.enc([(12 if kind == "data" else 13, part)])
        orig = bc.char_write
        bc.char_write = fake_char_write
        try:
            class _Client:
                """What drive_pairing_state_machine asks of the GATT client."""
                address = "00:00"

                async def get_characteristic(self, service, characteristic):
                    return type("Char", (), {"handle": 1, "uuid": characteristic, "service_uuid": service})()

                async def get_characteristic_iid(self, char):
                    return 1

            def machine():
                # one step of a pairing state machine: request M1, expect State / PublicKey (the types of the reply);
                # the fragment envelope types are never part of a state machine's expectation list
                reply = yield [(6, b"\x01")], [TLV.kTLVType_State, TLV.kTLVType_PublicKey]
                return reply
            try:
                # the entry point the BLE pair-setup / pair-verify code uses
                got = await bc.drive_pairing_state_machine(_Client(), "pair-setup-uuid", machine())
                res = ("done", got)
            except ValueError as ex:
                res = ("error", str(ex))
            except Exception as ex:  # noqa: BLE001
                res = ("other", f"{type(ex).__name__}: {ex}")
        finally:
            bc.char_write = orig
        return blob, writes, res

    loop = asyncio.new_event_loop()
    try:
        for ci, c in enumerate(cases):
          for fill in (None, (0x00, 0x61, 0xFF)[ci % 3]):
            r = loop.run_until_complete(one(c, fill))
            if r is None:
                continue
            blob, writes, (kind, got) = r
            ctx.case(("blefrag", c["l"], c["f"], c["le"]))
            replay = {"kind": "blefrag", "case": c}
            want = {int(t): bytes(v) for t, v in RT.dec(blob)}
            if kind != c["outcome"]:
                ctx.violation(f"BLE pairing reply of {c['l']} bytes in fragments of {c['f']} (empty last fragment: {c['le']}): "
                              f"outcome {kind} ({got if kind != 'done' else ''}), specification says {c['outcome']}", replay)
                continue
            if kind == "done":
                have = {int(t): bytes(v) for t, v in got.items()}
                if have != want:
                    ctx.violation(f"BLE pairing reply of {c['l']} bytes in fragments of {c['f']} (empty last fragment: {c['le']}) "
                                  f"reassembled to items {[(t, len(v)) for t, v in have.items()]}, sent {[(t, len(v)) for t, v in want.items()]}", replay)
                    continue
                acks = sum(1 for w in writes[1:] if w == b"\x0c\x00")
                if acks != c["acks"] or len(writes) != c["acks"] + 1:
                    ctx.violation(f"BLE pairing reply reassembly wrote {len(writes)} times with {acks} acknowledgements, specification: "
                                  f"{c['acks']} acknowledgements", replay)
                    continue
            ctx.trace_ok()
        ctx.sample({"blefrag_case": cases[len(cases) // 2]})
    finally:
        loop.close()
