"""C20 - saved pairings and the accessory cache survive restart and interrupted saves.

(A) TLC: spec/persist/Persistence.tla - a save is the sequence of file-system calls the code issues,
    Crash between any two calls and for every prefix of the written bytes, Restart = fresh process.
    RoundTrip / CrashSafePairings / CacheCorruptionIsCold are checked exhaustively for three successive
    saves with restarts in between (pairing file: temp file + atomic replace; cache: rewrite in place),
    and the model must find the loss for the two unsafe procedures (rewrite in place, rename before
    the data is flushed) - a self-test of the model.
(C) code -> spec: the calls the REAL Controller.save_data and CharacteristicCacheFile issue (builtins.open /
    io.open / os.open, write, flush, close, os.fsync, os.replace, os.rename, os.unlink ... wrapped for the
    directory under test) are recorded for seeded worlds (all transports, unicode aliases, optional
    fields, random well-formed accessory databases, the repository's fixtures) and TLC checks the same
    invariants on the *recorded* program (Persistence_Trace); the projection of the live controller
    before the process ends and the one after the next start are compared by TLC (Fidelity).
(B) spec -> code: TLC exports every crash image of every recorded save (every byte for small files,
    boundary classes for large ones) and every corruption of a valid cache, with the outcomes the
    specification prescribes / the property allows; each image is materialised and loaded by a fresh
    Controller / CharacteristicCacheFile.  Recovery lives started from crash images are recorded and
    validated the same way (second round).
(A/B) spec/persist/PersistLoad.tla: load_data over every pairing file of up to 4 (thorough: 5) entries of kinds
    IP / legacy IP without "Connection" / BLE / CoAP, in a process with all transports / no BLE / no CoAP / only IP,
    followed by load -> save -> restart: every entry of an available transport is loaded, wherever it sits.  Each
    exported (file order, transports) case is built with the real save_data and restarted on the real code.
"""
from __future__ import annotations

import difflib
import json
import multiprocessing as mp
import os
import random
import re
import shutil
import tempfile

from harness import persist_driver as D
from harness.common import MachineryError



def _fixtures_dir():
    repo = os.environ.get("VERIF_REPO", "/repo")
    return os.path.join(repo, "tests", "fixtures")


# ---------------------------------------------------------------------------------------
# worlds: chains of process lives
# ---------------------------------------------------------------------------------------
def _gen_world(rng, idx, fixtures):
    aliases = list(D.ALIASES)
    rng.shuffle(aliases)
    live = {}            # alias -> dict(t=transport, emap=generated map or None, ble=bool)
    used_ids = set()
    lives = []
    for li in range(rng.choice([1, 2, 2, 3])):
        steps = []
        for _ in range(rng.randrange(0 if li else 1, 4)):
            if not aliases:
                break
            alias = aliases.pop()
            t = rng.choice(["IP", "BLE", "CoAP"])
            pd = D.gen_pairing(rng, t)
            if pd["AccessoryPairingID"].lower() in used_ids:
                continue
            used_ids.add(pd["AccessoryPairingID"].lower())
            steps.append(["add", alias, pd])
            live[alias] = {"t": t, "emap": None, "ble": False}
        for alias, info in sorted(live.items()):
            if rng.random() < 0.55:
                cn = rng.choice([1, 2, 65535, rng.randrange(1, 2 ** 31)])
                bk = D._hex(rng, 64) if rng.random() < 0.5 else None
                sn = rng.choice([None, 1, 65535, rng.randrange(1, 65536)])
                if rng.random() < (0.7 if info["t"] == "BLE" else 0.25):
                    em = D.gen_entity_map(rng, ble=True, big=rng.random() < 0.2)
                    steps.append(["model", alias, em, cn, bk, sn])
                    info.update(emap=em, ble=True)
                elif fixtures and rng.random() < 0.15:
                    steps.append(["restore", alias, rng.choice(fixtures), cn, bk, sn])
                    info.update(emap=None, ble=False)
                else:
                    em = D.gen_entity_map(rng, big=rng.random() < 0.2)
                    steps.append(["restore", alias, em, cn, bk, sn])
                    info.update(emap=em, ble=False)
        if rng.random() < 0.4:
            steps.append(["save"])
        for alias, info in sorted(live.items()):
            if info["emap"] is not None and rng.random() < 0.4:
                ch = D.gen_changes(rng, info["emap"], info["ble"])
                steps.append(["changes", alias, ch, rng.choice([None, rng.randrange(1, 65536)])])
        if li > 0 and live and rng.random() < 0.3:
            alias = rng.choice(sorted(live))
            steps.append(["drop", alias])
            del live[alias]
        steps.append(["save"])
        lives.append(steps)
    return {"idx": idx, "lives": lives, "pairing_file": D.PAIRING_FILE}


def _special_worlds(rng, fixtures, thorough):
    out = []
    # no pairings at all
    out.append({"lives": [[["save"]], [["add", "a", D.gen_pairing(rng, "IP")], ["save"]], [["drop", "a"], ["save"]]],
                "pairing_file": D.PAIRING_FILE})
    # pairing file in a directory that does not exist yet
    out.append({"lives": [[["add", "Küche", D.gen_pairing(rng, "IP")], ["add", "b", D.gen_pairing(rng, "BLE")], ["save"]],
                          [["add", "c", D.gen_pairing(rng, "CoAP")], ["save"]]],
                "pairing_file": os.path.join("sub", "dir", "pairing.json")})
    # every alias, every transport in one file (larger than 4 KiB)
    steps = []
    for i, alias in enumerate(D.ALIASES):
        steps.append(["add", alias, D.gen_pairing(rng, ["IP", "BLE", "CoAP"][i % 3])])
    out.append({"lives": [steps + [["save"]], [["drop", D.ALIASES[0]], ["save"]]], "pairing_file": D.PAIRING_FILE})
    # pairing files as older versions wrote them (no "Connection" field = IP), mixed with current entries of every
    # transport; written here by an independent writer, loaded / re-saved / re-loaded by the real code
    for kinds in (["IP0", "IP", "CoAP", "BLE"], ["BLE", "IP0", "CoAP", "IP0"], ["IP0"]):
        aliases = rng.sample(D.ALIASES, len(kinds))
        entries = []
        for a, k in zip(aliases, kinds):
            pd = D.gen_pairing(rng, "IP" if k == "IP0" else k)
            if k == "IP0":
                pd.pop("Connection", None)
            elif k == "IP":
                pd["Connection"] = "IP"
            entries.append([a, k, pd])
        doc = json.dumps({a: pd for a, _k, pd in entries}, ensure_ascii=False, indent=2).encode("utf-8")
        out.append({"lives": [[["save"]], [["add", "later", D.gen_pairing(rng, "CoAP")], ["save"]]],
                    "pairing_file": D.PAIRING_FILE, "init_files": {D.PAIRING_FILE: doc}, "expect_entries": entries})
    # the repository's fixtures, one world each
    for fx in fixtures if thorough else fixtures[::3]:
        t = rng.choice(["IP", "CoAP", "BLE"])
        out.append({"lives": [[["add", "fixture " + fx, D.gen_pairing(rng, t)],
                               ["restore", "fixture " + fx, fx, rng.randrange(1, 100), D._hex(rng, 64) if t == "BLE" else None,
                                rng.randrange(1, 65536) if t == "BLE" else None], ["save"]],
                              [["save"]]],
                    "pairing_file": D.PAIRING_FILE})
    return out


def _run_world(args):
    """worker: run the chain of lives of one world; returns the material for the trace records"""
    w, parent, fixtures_dir = args
    d = tempfile.mkdtemp(prefix="c20world_", dir=parent)
    out = {"world": w, "lives": [], "final": None, "broken": None, "failed_save": None}
    try:
        if w.get("init_files"):
            D.write_dir(d, w["init_files"])
        for steps in w["lives"]:
            init = D.read_dir(d)
            life = D.run_life(d, steps, w["pairing_file"], fixtures_dir)
            fin = D.read_dir(d)
            life["steps"] = steps
            out["lives"].append((life, init, fin))
            if life["start"]["exc"] is not None:
                out["broken"] = {"files": init, "exc": life["start"]["exc"], "stage": life["start"]["stage"]}
                break
            if life["exc"] is not None:
                out["failed_save"] = {"files": init, **life["exc"]}
                break
        else:
            out["final"] = D.restart(d, w["pairing_file"])
            if out["final"]["exc"] is not None and out["broken"] is None:
                out["broken"] = {"files": D.read_dir(d), "exc": out["final"]["exc"], "stage": out["final"]["stage"]}
    finally:
        shutil.rmtree(d, ignore_errors=True)
    return out


# ---------------------------------------------------------------------------------------
# TLC batches
# ---------------------------------------------------------------------------------------
def _write_ndjson(path, recs):
    with open(path, "w") as f:
        for r in recs:
            f.write(json.dumps(r) + "\n")


def _steps_brief(steps):
    out = []
    for st in steps:
        if st[0] in ("restore", "model") and not isinstance(st[2], str):
            out.append([st[0], st[1], f"<database with {sum(len(a['services']) for a in st[2])} services>"] + list(st[3:]))
        elif st[0] == "changes":
            out.append([st[0], st[1], f"<{len(st[2])} value updates>", st[3]])
        else:
            out.append(st)
    return out


class _Batch:
    def __init__(self, ctx, tmp, pool, kind, items, label):
        self.ctx, self.tmp, self.pool, self.kind, self.items, self.label = ctx, tmp, pool, kind, items, label
        self.results = []          # (case, labels, exc, stage)
        self.groups = {}           # violation class -> dict(count, first)
        self.mismatch = []
        self.tlc_violation = None

    def run(self):
        ctx, kind = self.ctx, self.kind
        if not self.items:
            return self
        cases = []
        CH = 250
        for off in range(0, len(self.items), CH):
            part = self.items[off:off + CH]
            tf = os.path.join(self.tmp, f"{self.label}.{kind}.{off}.ndjson")
            out = os.path.join(self.tmp, f"{self.label}.{kind}.{off}.cases.ndjson")
            _write_ndjson(tf, [it[0] for it in part])
            # (B) every crash image with the prescribed outcome
            r = ctx.tlc("persist/Persistence_Trace", f"Persistence_Cases_{kind}.cfg", env={"TRACE_FILE": tf, "CASES_OUT": out},
                        require_cover=False, coverage=False, expect_violation=True, timeout=1500,
                        label=f"{self.label}: crash images of the recorded saves ({kind})")
            if not r.ok:
                raise MachineryError(f"recorded calls could not be interpreted by Persistence_Trace ({r.violation['name']}):\n"
                                     + r.violation["trace"][:3000])
            n0 = len(cases)
            for ln in open(out):
                c = json.loads(ln)
                c["tid"] += off
                cases.append(c)
            if len(cases) == n0:
                raise MachineryError("no crash image exported")
            os.unlink(out)
            # (C) the invariants on the recorded programs
            r = ctx.tlc("persist/Persistence_Trace", f"Persistence_Trace_{kind}.cfg", env={"TRACE_FILE": tf, "CASES_OUT": out},
                        require_cover=False, coverage=False, expect_violation=True, timeout=1500,
                        label=f"{self.label}: invariants on the recorded call sequences ({kind})")
            if not r.ok:
                if r.violation["kind"] != "invariant" or r.violation["name"] in ("NotStuck", "HandleSane"):
                    raise MachineryError(f"trace validation failed: {r.violation['kind']} {r.violation['name']}\n"
                                         + r.violation["trace"][:3000])
                m = re.findall(r"/\\ tid = (\d+)", r.violation["trace"])
                if self.tlc_violation is None:
                    self.tlc_violation = {"invariant": r.violation["name"], "tid": int(m[-1]) + off if m else None,
                                          "counterexample": _compact_ce(r.violation["trace"])}
            os.unlink(tf)
        # machinery self-check: the model's final image is what the real save left on disk
        by_tid = {}
        for i, c in enumerate(cases):
            by_tid.setdefault(c["tid"], []).append((i, c))
        for tid, lst in by_tid.items():
            aux = self.items[tid - 1][1]
            fins = [c for _, c in lst if c["final"] and not c["corrupt"]]
            if len(fins) != 1:
                raise MachineryError(f"{len(fins)} final images for trace {tid}")
            files = D.image_files(aux, fins[0]["disk"])
            for r_, name in aux["names"].items():
                if files.get(name) != aux["final_files"].get(name):
                    raise MachineryError(f"the file-system model and the real directory disagree on {name!r} after "
                                         f"the recorded calls of trace {tid} ({self.label}): a call was not observed")
        # replay on the real code
        jobs = []
        for tid, lst in sorted(by_tid.items()):
            aux = self.items[tid - 1][1]
            for off in range(0, len(lst), 300):
                jobs.append((aux, lst[off:off + 300], self.tmp))
        import time
        t0 = time.time()
        for res in self.pool.imap_unordered(D.replay_cases, jobs, chunksize=1):
            for idx, labels, exc, stage in res:
                self.results.append((cases[idx], labels, exc, stage))
        ctx.notes.setdefault("phase_s", {})[f"replay {self.label} {kind}"] = round(time.time() - t0, 1)
        t0 = time.time()
        self.results.sort(key=lambda x: json.dumps(x[0], sort_keys=True))
        for c, labels, exc, stage in self.results:
            self._judge(c, labels, exc, stage)
        ctx.notes["phase_s"][f"judge {self.label} {kind}"] = round(time.time() - t0, 1)
        return self

    def _judge(self, c, labels, exc, stage):
        ctx, kind = self.ctx, self.kind
        rec, aux, meta = self.items[c["tid"] - 1]
        ctx.case((self.label, kind, c["tid"], json.dumps(c["disk"], sort_keys=True), c["cur"], c["done"], c["corrupt"]))
        if not (set(labels) & set(c["safe"])):
            cls = ("corruption" if c["corrupt"] else "crash" if c["cur"] != D.IDLE else "restart")
            g = self.groups.setdefault(cls, {"count": 0, "first": None})
            g["count"] += 1
            rank = (c["cur"] <= 0, c["done"] < 0, c["disk"]["T"]["n"], c["tid"])
            if g["first"] is None or rank < g["rank"]:
                g["first"], g["rank"] = (c, labels, exc, stage, aux, meta), rank
        elif not (set(labels) & set(c["expect"])):
            self.mismatch.append((c, labels, exc, meta))
        else:
            ctx.trace_ok()

    def report(self):
        ctx, kind = self.ctx, self.kind
        names = {"crash": "CrashSafePairings" if kind == "pairings" else "CacheCorruptionIsCold",
                 "restart": "RoundTrip", "corruption": "CacheCorruptionIsCold"}
        for cls, g in sorted(self.groups.items()):
            c, labels, exc, stage, aux, meta = g["first"]
            files = D.image_files(aux, c["disk"], aux["final_t"])
            what = _describe(kind, names[cls], c, labels, exc, stage, aux, g["count"], len(self.results), self.label)
            tlcv = self.tlc_violation if (self.tlc_violation and self.tlc_violation["tid"] is not None) else None
            ctx.violation(what, {"kind": kind, "class": cls, "invariant": names[cls], "files": files,
                                 "pairing_file": aux["pairing_file"], "t_name": aux["t_name"],
                                 "case": c, "real_labels": labels, "real_exc": exc, "real_stage": stage,
                                 "vals": {str(k): v for k, v in aux["vals"].items() if k in c["safe"]},
                                 "life_steps": _steps_brief(meta["steps"]), "world": meta["world"],
                                 "scenario": meta["scenario"],
                                 "images_failing": g["count"], "images_total": len(self.results),
                                 "tlc": tlcv})
        if self.tlc_violation and not self.groups:
            raise MachineryError(f"TLC found {self.tlc_violation['invariant']} violated on the recorded calls of trace "
                                 f"{self.tlc_violation['tid']} ({self.label}) but no restart of the real code reproduced it:\n"
                                 f"{self.tlc_violation['counterexample']}")
        if self.mismatch and not self.groups:
            c, labels, exc, meta = self.mismatch[0]
            raise MachineryError(f"{len(self.mismatch)} restarts of the real code gave an allowed outcome that the "
                                 f"specification does not predict ({self.label}, {kind}): image {c['disk']} expect {c['expect']} "
                                 f"real {labels} {exc or ''}")


def _compact_ce(trace):
    out = []
    for m in re.finditer(r"^State (\d+): <([^>]*)>\s*\n(.*?)(?=^State \d+:|\Z)", trace, re.M | re.S):
        body = m.group(3)
        keep = []
        for var in ("pc", "phase", "loaded", "tid"):
            mm = re.search(rf"/\\ {var} = (.*)", body)
            if mm:
                keep.append(f"{var}={mm.group(1).strip()}")
        mm = re.search(r"/\\ fs = (.*?)(?=\n/\\ |\Z)", body, re.S)
        if mm:
            keep.append("fs=" + " ".join(mm.group(1).split()))
        out.append(f"{m.group(1)}: {m.group(2).split(' line ')[0]}  " + "  ".join(keep))
    return "\n".join(out)[:6000]


_LABEL = {D.NONE: "nothing loaded", D.ERR: "start-up fails", D.ALIEN: "data that was never saved"}


def _lab(x, kind):
    if x >= 0:
        return "the data present at start" if x == 0 else f"the data of save #{x}"
    if x == D.NONE and kind == "cache":
        return "cold cache"
    return _LABEL[x]


def _describe(kind, inv, c, labels, exc, stage, aux, count, total, label):
    t = c["disk"]["T"]
    if t["v"] == -1:
        img = f"{aux['t_name']} absent"
    elif t["v"] == -2:
        img = f"{aux['t_name']} damaged (class {t['n']})"
    else:
        full = len(aux["streams"][t["v"]])
        img = (f"{aux['t_name']} = first {t['n']} of the {full} bytes " +
               ("that were on disk at start" if t["v"] == 0 else f"written through handle {t['v']}"))
    others = {aux["names"][r]: v for r, v in c["disk"].items() if r != "T" and v["v"] != -1}
    state = ("process ended" if c["cur"] == D.IDLE else
             "process died while saving " + (f"#{c['cur']}" if c["cur"] > 0 else "an empty set" if c["cur"] == D.NONE
                                             else "again the data loaded at start")) + \
        (f", last completed save #{c['done']}" if c["done"] > 0 else
         ", data loaded at start still on disk" if c["done"] == 0 else ", nothing saved before")
    return (f"{inv} ({kind} file, {label}): {state}; disk image: {img}"
            + (f", other files {others}" if others else "")
            + f"; a fresh {'Controller.load_data' if kind == 'pairings' else 'CharacteristicCacheFile + Controller'} gives: "
            + " / ".join(_lab(x, kind) for x in labels) + (f" [{stage}: {exc}]" if exc else "")
            + f"; allowed by the specification: {', '.join(_lab(x, kind) for x in sorted(c['safe'])) or 'none'}"
            + f".  {count} of {total} crash/corruption images of this batch fail.")


# ---------------------------------------------------------------------------------------
def _fidelity(ctx, tmp, items, label):
    """TLC compares the projection before the process ended with the one after the next start."""
    items = [it for it in items if it[0]["before"] or it[0]["after"]]
    bad = 0
    for _ in range(4):
        if not items:
            break
        tf = os.path.join(tmp, f"{label}.fid.ndjson")
        _write_ndjson(tf, [dict(it[0], cuts=[]) for it in items])
        r = ctx.tlc("persist/Persistence_Trace", "Persistence_Fidelity.cfg", env={"TRACE_FILE": tf}, require_cover=False,
                    coverage=False, expect_violation=True, label=f"{label}: Fidelity (projection before = after restart)")
        if r.ok:
            ctx.trace_ok(len(items))
            break
        if r.violation["name"] != "Fidelity":
            raise MachineryError(f"fidelity run failed: {r.violation}")
        m = re.findall(r"/\\ tid = (\d+)", r.stdout)
        if not m:
            raise MachineryError("Fidelity violated but no tid in the TLC output")
        tid = int(m[-1])
        rec, aux, meta = items[tid - 1]
        diff = [ln for ln in difflib.unified_diff(rec["before"], rec["after"], "before", "after", lineterm="", n=0)
                if not ln.startswith(("---", "+++", "@@"))]
        bad += 1
        ctx.violation(f"RoundTrip fidelity ({label}): after a completed save and a restart the controller differs from "
                      f"the one that saved: {diff[:8]}{' ...' if len(diff) > 8 else ''}",
                      {"kind": "fidelity", "diff": diff[:200], "life_steps": _steps_brief(meta["steps"]),
                       "world": meta["world"], "scenario": meta["scenario"], "pairing_file": aux["pairing_file"]})
        items = items[:tid - 1] + items[tid:]
    return bad


def _records_of_world(res, rng, every_p, every_c, junk):
    """(pairings items, cache items) of one world; an item is (record, aux, meta)."""
    w = res["world"]
    P, C = [], []
    lives = res["lives"]
    for li, (life, init, fin) in enumerate(lives):
        if life["start"]["exc"] is not None or life["before"] is None:
            continue
        nxt = lives[li + 1][0]["start"] if li + 1 < len(lives) else res["final"]
        fid = None
        if nxt is not None and nxt["exc"] is None:
            fid = (life["before"][0] + life["before"][1], nxt["pair"] + nxt["db"])
        meta = {"world": w.get("idx", "special"), "life": li, "steps": life["steps"],
                "scenario": {"init_files": w.get("init_files") or {}, "lives": w["lives"][:li + 2],
                             "pairing_file": w["pairing_file"]}}
        for kind, dest in (("pairings", P), ("cache", C)):
            rec, aux = D.build_record(kind, life, init, fin, rng, every_byte=every_p if kind == "pairings" else every_c,
                                      njunk=D.NJUNK if (kind == "cache" and junk) else 0,
                                      t_name=w["pairing_file"] if kind == "pairings" else None,
                                      with_fidelity=fid if kind == "pairings" else None)
            aux["pairing_file"] = w["pairing_file"]
            if kind == "cache" and not rec["ops"]:
                continue
            dest.append((rec, aux, meta))
    return P, C


def _check_worlds(ctx, tmp, pool, worlds, flags, label):
    """Run the worlds on the real code; report starts / saves that fail outright; return the trace items."""
    results = pool.map(_run_world, [(w, tmp, _fixtures_dir()) for w in worlds], chunksize=2)
    P, C = [], []
    outright = {}
    for wi, res in enumerate(results):
        w = res["world"]
        scen = {"init_files": w.get("init_files") or {}, "lives": w["lives"], "pairing_file": w["pairing_file"],
                "expect_entries": w.get("expect_entries")}
        if res["broken"] is not None:
            b = res["broken"]
            outright.setdefault(("start", b["stage"], b["exc"].split(":")[0]), []).append(
                (f"RoundTrip ({label}): files written by completed saves of the real code cannot be loaded by the next "
                 f"start ({b['stage']}: {b['exc']})",
                 {"kind": "broken", "files": b["files"], "pairing_file": w["pairing_file"], "scenario": scen}))
        if res["failed_save"] is not None:
            b = res["failed_save"]
            act = (f"a save of the {b['kind']} file" if b["kind"] != "step" else
                   {"add": "Controller.load_pairing"}.get(b["step"][0], f"the step '{b['step'][0]}'"))
            outright.setdefault(("save", b["kind"], b["step"][0], b["exc"].split(":")[0]), []).append(
                (f"RoundTrip ({label}): {act} raised {b['exc']} for a well-formed input "
                 f"(step {str(_steps_brief([b['step']])[0])[:400]})",
                 {"kind": "failed_save", "files_before": b["files"], "step": b["step"],
                  "pairing_file": w["pairing_file"], "scenario": scen}))
        if w.get("expect_entries"):
            # a pairing file written by an older version (read here by the harness): every entry must be loaded
            # by every start-up of the chain - the first load, and the loads after each re-save
            entries = [(a, k, pd) for a, k, pd in w["expect_entries"]]
            starts = [lf[0]["start"] for lf in res["lives"]] + ([res["final"]] if res["final"] else [])
            for n_start, st in enumerate(starts):
                if st["exc"] is not None:
                    continue
                bad = D.entry_problems(entries, range(1, len(entries) + 1), st["pair"])
                if bad:
                    outright.setdefault(("legacy", n_start > 0), []).append(
                        (f"RoundTrip ({label}): pairing file with entries {[k for _, k, _ in entries]} (legacy IP entries have no "
                         f"Connection field), every transport available, start-up #{n_start + 1} of the chain load -> save -> "
                         f"restart: " + "; ".join(bad),
                         {"kind": "legacy_file", "files": w["init_files"], "pairing_file": w["pairing_file"],
                          "scenario": scen, "start": n_start + 1}))
                    break
        every_p, every_c, junk = flags(wi)
        p, c = _records_of_world(res, random.Random(ctx.seed * 1000 + wi), every_p, every_c, junk)
        P += p
        C += c
    for key, lst in sorted(outright.items()):
        what, obj = lst[0]
        ctx.violation(what + (f"  [{len(lst)} worlds fail like this]" if len(lst) > 1 else ""), obj)
    return results, P, C


def _transport_dimension(ctx, tmp, pool):
    """Mixed-transport pairing files x set of transports available in the restarted process
    (spec/persist/PersistLoad.tla): every entry of an available transport is loaded, wherever it sits."""
    r = ctx.tlc("persist/PersistLoad", "PersistLoad_stop.cfg", expect_violation=True, require_cover=False,
                label="self-test of the model: a loader that stops at the first unavailable entry must violate "
                      "AvailableAllLoaded")
    if r.ok or r.violation["name"] != "AvailableAllLoaded":
        raise MachineryError("PersistLoad_stop.cfg: the model does not see the loss it is built to see")
    out = os.path.join(tmp, "load_cases.ndjson")
    ctx.tlc("persist/PersistLoad", ctx.pick("PersistLoad_skip.cfg", "PersistLoad_skip5.cfg"), env={"CASES_OUT": out},
            label="load_data over every file order x enabled transports, load -> save -> restart")
    by_order = {}
    for ln in open(out):
        c = json.loads(ln)
        by_order.setdefault(tuple(c["order"]), []).append(c)
    if not by_order:
        raise MachineryError("no transport case exported")
    jobs = [(list(o), sorted(cs, key=lambda c: c["enabled"]), ctx.seed * 7919 + i, tmp)
            for i, (o, cs) in enumerate(sorted(by_order.items()))]
    problems = {}
    n = 0
    for job, res in zip(jobs, pool.map(D.transport_cases, jobs, chunksize=8)):
        for c in job[1]:
            ctx.case(("transports", tuple(job[0]), tuple(c["enabled"])) if job[0] else None)
        n += len(job[1])
        bad = {tuple(en) for en, _, _, _ in res}
        ctx.trace_ok(len(job[1]) - len(bad))
        for en, phase, what, original in res:
            problems.setdefault(phase, []).append((len(job[0]), job[0], en, what, original, job[1]))
    ctx.notes["transport_cases"] = n
    for phase, lst in sorted(problems.items()):
        lst.sort(key=lambda x: (x[0], x[1], x[2]))
        _, order, en, what, original, cases = lst[0]
        must = next((c["must"] for c in cases if c["enabled"] == en), None)
        ctx.violation(f"AvailableAllLoaded ({phase}): pairing file with entries {order} (file order), process with transports "
                      f"{en}: {what}; the specification requires entries {must} to be loaded with all their fields.  "
                      f"{len(lst)} of {n} (file order, transports) cases fail in this phase.",
                      {"kind": "transports", "order": order, "enabled": en, "must": must, "phase": phase,
                       "pairing_file_bytes": original})
    if jobs:
        ctx.sample({"transport_case": jobs[len(jobs) // 2][1][0]})


def run(ctx):
    ctx.rule = ("a case = one disk image (file -> stream, prefix length) enumerated by TLC from a recorded save of the real "
                "code, or one damaged cache file, restarted with a fresh Controller/CharacteristicCacheFile; distinct by "
                "(batch, trace, image, save in progress, last completed save)")
    ctx.assume("the file system applies calls in the order in which they are issued (process crash / ordered journal); "
               "re-ordering of data and rename by a power failure is outside the model",
               "bytes handed to write() may reach the disk any time before flush/close returns: every prefix between the "
               "last flushed length and the written length is a possible image",
               "'unparsable' = not a JSON document in any dialect (truncation, NUL fill, invalid UTF-8, garbage, doubled "
               "document); a damaged file that is still valid JSON of another shape is not part of the claim",
               "readable characteristics hold a non-null value when the database is written (null is replaced by the "
               "format default when a database is parsed)",
               "which value a complete byte stream carries is decided with the standard library's json module",
               "a first-ever save that is interrupted has no previous data to preserve: no outcome is prescribed for it",
               "what happens on a later save to entries whose transport is unavailable in the process is not claimed "
               "(the tree drops them); IP is available in every process")
    fixtures = sorted(f for f in os.listdir(_fixtures_dir()) if f.endswith(".json"))
    tmp = tempfile.mkdtemp(prefix="c20_")
    pool = mp.get_context("fork").Pool(min(16, os.cpu_count() or 4))
    try:
        if ctx.replay:
            return _replay(ctx, tmp, pool)
        # ---------------- (A) design level
        ctx.tlc("persist/Persistence", "Persistence_pairings_atomic.cfg", ignore_cover=("Corrupt", "DoUnlink"),
                label="pairing file, temp file + atomic replace, 3 saves, every crash point")
        ctx.tlc("persist/Persistence", "Persistence_cache_inplace.cfg",
                ignore_cover=("DoFlush", "DoFsync", "DoReplace", "DoUnlink"),
                label="cache, rewritten in place, 3 saves, every crash point, every corruption")
        if ctx.thorough:
            ctx.tlc("persist/Persistence", "Persistence_cache_atomic.cfg", ignore_cover=("DoUnlink",),
                    label="cache, temp file + atomic replace")
        for cfg in ("Persistence_pairings_inplace.cfg", "Persistence_pairings_early.cfg"):
            r = ctx.tlc("persist/Persistence", cfg, expect_violation=True, require_cover=False,
                        label="self-test of the model: unsafe save procedure must violate CrashSafePairings")
            if r.ok or r.violation["name"] != "CrashSafePairings":
                raise MachineryError(f"{cfg}: the model does not see the loss it is built to see")
        _transport_dimension(ctx, tmp, pool)
        # ---------------- worlds on the real code
        D.EVERY_BYTE_LIMIT = ctx.pick(2048, 4096)
        D.CLASS_SAMPLES = ctx.pick((5, 4), (16, 12))
        rng = ctx.rng
        nworlds = ctx.pick(26, 200)
        n_every_p = ctx.pick(3, 20)          # worlds whose pairing-file saves are cut at every byte
        n_every_c = ctx.pick(1, 10)          # ... whose cache saves are cut / damaged at every byte
        special = _special_worlds(rng, fixtures, ctx.thorough)
        worlds = special + [_gen_world(rng, i, fixtures) for i in range(nworlds)]
        ns = len(special)
        results, P, C = _check_worlds(
            ctx, tmp, pool, worlds,
            lambda wi: (wi < 2 or 0 <= wi - ns < n_every_p, 0 <= wi - ns < n_every_c, wi % 2 == 0), "round1")
        ctx.notes["worlds"] = len(worlds)
        ctx.notes["process_lives"] = sum(len(r["lives"]) for r in results)
        ctx.notes["recorded_saves"] = {"pairings": sum(len(it[0]["ops"]) > 0 for it in P), "cache": len(C)}
        if P:
            ctx.sample({"recorded_pairing_save": P[0][0]["ops"], "files": P[0][1]["names"]})
        if C:
            ctx.sample({"recorded_cache_save": C[0][0]["ops"][:12]})
        bP = _Batch(ctx, tmp, pool, "pairings", P, "round1").run()
        bC = _Batch(ctx, tmp, pool, "cache", C, "round1").run()
        _fidelity(ctx, tmp, P, "round1")
        ctx.trace_ok(len(P) + len(C))
        # ---------------- second round: recovery lives started from crash images
        w2 = _recovery_worlds(ctx, bP, rng)
        _res2, P2, _ = _check_worlds(ctx, tmp, pool, w2, lambda wi: (False, False, False), "round2")
        ctx.notes["recovery_lives"] = len(P2)
        b2 = _Batch(ctx, tmp, pool, "pairings", P2, "round2").run()
        _fidelity(ctx, tmp, P2, "round2")
        for b in (bP, bC, b2):
            b.report()
        ctx.notes["images_replayed"] = {"pairings": len(bP.results), "cache": len(bC.results), "recovery": len(b2.results)}
        if bP.results:
            c, labels, _, _ = bP.results[len(bP.results) // 2]
            ctx.sample({"image": c, "real_outcome": labels})
        ctx.notes["observations_not_claimed"] = [
            "a cache file that is valid JSON of another shape ({} / [] / null) makes CharacteristicCacheFile raise "
            "KeyError/TypeError at start-up; the property speaks of truncated or unparsable files only",
            "Controller.load_data skips (with an error log) a pairing whose transport is not available in the process; a "
            "following save_data then rewrites the file without it (all three transports are registered in this check)",
            "the accessory cache itself is still rewritten in place: an interrupted cache save leaves a cold cache, which "
            "the property allows",
        ]
        ctx.exhaustive = False
    finally:
        pool.terminate()
        pool.join()
        shutil.rmtree(tmp, ignore_errors=True)


def _recovery_worlds(ctx, batch, rng):
    """From images of round 1 from which the real code starts: a new process adds a pairing and saves."""
    cand = [(c, labels) for c, labels, exc, _ in batch.results if exc is None and not c["final"]]
    with_left = [x for x in cand if any(r != "T" and v["v"] != -1 for r, v in x[0]["disk"].items())]
    n = ctx.pick(24, 200)
    pick = rng.sample(with_left, min(len(with_left), n * 2 // 3))
    pick += rng.sample(cand, min(len(cand), n - len(pick)))
    out = []
    for c, _ in pick:
        aux = batch.items[c["tid"] - 1][1]
        files = D.image_files(aux, c["disk"], aux["final_t"])
        steps = [["add", "recovered-" + str(len(out)), D.gen_pairing(rng, rng.choice(["IP", "BLE", "CoAP"]))], ["save"]]
        if rng.random() < 0.3:
            steps.append(["save"])
        out.append({"idx": f"recovery-{len(out)}", "init_files": files, "lives": [steps], "pairing_file": aux["pairing_file"]})
    return out


# ---------------------------------------------------------------------------------------
def _unhex(o):
    if isinstance(o, dict) and set(o) == {"hex"}:
        return bytes.fromhex(o["hex"])
    return o


def _replay(ctx, tmp, pool):
    """Re-run the scenario of a recorded violation on the tree under test (every byte, both files)."""
    data = json.load(open(ctx.replay))
    obj = data["replay"]
    if obj.get("kind") == "transports":
        print(f"replaying: {data['what'][:300]}")
        return _transport_dimension(ctx, tmp, pool)
    scen = obj.get("scenario")
    if not scen:
        raise MachineryError("replay file without a scenario (a violation of the design-level model? re-run ./check C20)")
    w = {"idx": "replay", "init_files": {n: _unhex(b) for n, b in scen["init_files"].items()},
         "lives": scen["lives"], "pairing_file": scen["pairing_file"], "expect_entries": scen.get("expect_entries")}
    print(f"replaying: {data['what'][:300]}")
    _res, P, C = _check_worlds(ctx, tmp, pool, [w], lambda wi: (True, True, True), "replay")
    batches = [_Batch(ctx, tmp, pool, "pairings", P, "replay").run(), _Batch(ctx, tmp, pool, "cache", C, "replay").run()]
    _fidelity(ctx, tmp, P, "replay")
    for b in batches:
        b.report()
    ctx.notes["images_replayed"] = {b.kind: len(b.results) for b in batches}
