"""C07 - HTTP/EVENT message parsing is independent of stream segmentation.

(A) TLC: spec/http/HttpParser (the parser's algorithm with one action per step of the code, a read
    is Feed(n) for ANY n, so every segmentation of every stream of the bounded model is explored;
    invariants SegmentationInvariant / NeverEarly / NoLossNoDup / NoParserError / CleanAtEnd).
(B) spec -> code: every stream TLC explored is exported with its classified-byte layout, message
    end indices and sent content, concretised to real bytes (real status lines, header casings,
    optional white space, hex digit case, bodies containing CR LF) and fed to the REAL feed loop
    (InsecureHomeKitProtocol.data_received + HttpResponse.parse) under every set of <= 2 cuts
    (quick: one cut candidate per abstract position plus one inside every expanded byte; thorough:
    every concrete offset, plus seeded multi-cuts); after every read the deliveries must be exactly
    the messages whose last byte has been fed, with content and routing as sent.
(C) code -> spec: seeded random long streams with real sizes (bodies up to 5000 bytes, many chunks,
    adversarial body content) are fed to the real feed loop under random multi-cuts; the recorded
    deliveries after every read are validated by TLC against HttpParser_Trace.
"""
from __future__ import annotations

import json
import multiprocessing as mp
import os
import shutil
import tempfile

from harness import c07_driver as D
from harness.common import MachineryError


def _replay_worker(args):
    cases, seed, mode, max_cuts, extra = args
    return D.replay_cases(cases, seed, mode, max_cuts, extra)


def _record_worker(args):
    seed, idxs, maxbody = args
    return [D.record_random(seed, i, maxbody) for i in idxs]


def _shards(items, n):
    k = max(1, (len(items) + n - 1) // n)
    return [items[i:i + k] for i in range(0, len(items), k)]


def run(ctx):
    ctx.rule = ("one evaluation = one (stream, cut set) fed to the real feed loop; distinct = distinct "
                "(message-shape sequence of the TLC model | recorded random stream) - cut sets of one stream "
                "are not counted as distinct inputs")
    ctx.assume("well-formed messages only: one status line 'VERSION SP CODE SP REASON', 'Name: value' header lines, "
               "exactly one of Content-Length / 'Transfer-Encoding: chunked' (exact lower-case value) / neither, "
               "chunk-size lines are bare hex numbers (no chunk extensions), no trailers",
               "header names are compared case-insensitively and values modulo surrounding white space "
               "(the parser normalises both)",
               "the abstract status/header lines of the model are 2 bytes long; their real text is filled in by the "
               "concretiser (the model is independent of line content)")
    tmp = tempfile.mkdtemp(prefix="c07_")
    pool = mp.get_context("fork").Pool(16)
    try:
        # ---------------- (A) + export for (B)
        cfgs = [(ctx.pick("HttpParser_pairs_quick.cfg", "HttpParser_pairs.cfg"),
                 "all segmentations of streams of <= 2 messages, " + ctx.pick("reduced", "full") + " shape universe"),
                ("HttpParser_triples.cfg", "all segmentations of streams of <= 3 messages, small shape universe")]
        if ctx.thorough:
            cfgs.append(("HttpParser_triples_big.cfg", "streams of <= 3 messages, larger shape universe"))
        cases = {}
        for cfg, label in cfgs:
            out = os.path.join(tmp, cfg + ".ndjson")
            ctx.tlc("http/HttpParser_Cases", cfg, env={"CASES_OUT": out}, label=label, timeout=1500)
            n = 0
            for line in open(out):
                c = json.loads(line)
                for sh in c["msgs"]:
                    for f in ("hdrs", "body", "chunks"):
                        if not sh.get(f):
                            sh[f] = []
                key = json.dumps(c["msgs"], sort_keys=True)
                cases.setdefault(key, c)
                n += 1
            if n == 0:
                raise MachineryError(f"no cases exported by {cfg}")
        caselist = list(enumerate(cases.values()))
        # ---------------- (B) replay on the real feed loop
        if ctx.thorough:
            jobs = [(sh, ctx.seed, "concrete", 2, 40) for sh in _shards(caselist, 64)]
            jobs += [(sh, ctx.seed + 1, "abstract", 3, 0) for sh in _shards([c for c in caselist if len(c[1]["msgs"]) <= 2], 64)]
        else:
            jobs = [(sh, ctx.seed, "abstract", 2, 10) for sh in _shards(caselist, 48)]
        total_runs = 0
        nviol = 0
        for runs, fails in pool.imap(_replay_worker, jobs):
            total_runs += runs
            for f in fails:
                nviol += 1
                if nviol <= 12:
                    ctx.violation(f"segmentation changes the parse: {f['why']} (cuts {f['cuts']}, "
                                  f"stream {f['stream'][:120]!r}...)",
                                  {"kind": "case", "stream": f["stream"], "cuts": f["cuts"], "msgs": f["msgs"],
                                   "why": f["why"]})
        ctx.case(n=total_runs)
        for key in cases:
            ctx.distinct.add(("shape_seq", key))
        ctx.trace_ok(total_runs)
        ctx.notes["replayed_streams"] = len(cases)
        ctx.notes["replayed_cut_sets"] = total_runs
        ex = caselist[min(40, len(caselist) - 1)][1]
        conc = D.concretise(ex, __import__("random").Random(1))
        ctx.sample({"exported_case": {"msgs": ex["msgs"], "ends": ex["ends"]},
                    "concretised": conc["bytes"].decode("latin-1"), "concrete_ends": conc["ends"]})
        # ---------------- (C) recorded random runs -> TLC
        nrec = ctx.pick(160, 1200)
        maxbody = ctx.pick(400, 5000)
        recs, replays = [], []
        for part in pool.imap(_record_worker, [(ctx.seed, idxs, maxbody) for idxs in _shards(list(range(nrec)), 32)]):
            for rec, why, replay in part:
                if why:
                    ctx.violation(why + f" (cuts {replay['cuts'][:20]})", replay)
                if rec is not None:
                    recs.append(rec)
                    replays.append(replay)
                    ctx.case(("rec", json.dumps(rec["msgs"], sort_keys=True)))
        batch = ctx.pick(160, 150)
        for off in range(0, len(recs), batch):
            part = recs[off:off + batch]
            tf = os.path.join(tmp, f"trace{off}.ndjson")
            with open(tf, "w") as f:
                for r in part:
                    f.write(json.dumps(r) + "\n")
            res = ctx.tlc("http/HttpParser_Trace", "HttpParser_Trace.cfg", env={"TRACE_FILE": tf},
                          expect_violation=True, require_cover=False, coverage=False, timeout=1500,
                          label="trace validation of recorded feed-loop runs")
            if res.ok:
                ctx.trace_ok(len(part))
                continue
            from harness import tlc as T
            ce = T.parse_counterexample(res.violation["trace"])
            last = ce[-1][1] if ce else None
            if last is None:
                import re
                m = re.search(r"violated by the initial state:\s*\n(.*?)\n\s*\n", res.stdout, re.S)
                if m:
                    try:
                        last = T.parse_state(m.group(1))
                    except (ValueError, IndexError):
                        last = None
            tid = last.get("tid") if last else None
            ri = last.get("ri") if last else None
            if res.violation["name"] == "RecordConsistent" or not isinstance(tid, int):
                raise MachineryError(f"recorded run {tid} is not an experiment of the model "
                                     f"({res.violation['name']}): {json.dumps(part[tid - 1])[:600] if isinstance(tid, int) else ''}")
            rp = replays[off + tid - 1]
            rec = part[tid - 1]
            ctx.violation(f"recorded run of the real feed loop rejected by HttpParser_Trace ({res.violation['name']}) "
                          f"at read #{ri}: delivered after each read {rec['after']}, reads {rec['reads'][:30]}",
                          {**rp, "after": rec["after"], "got": rec["got"], "invariant": res.violation["name"]})
            # the rest of this batch (TLC stops at the first violation): validate without the rejected one
            rest = [r for i, r in enumerate(part) if i != tid - 1]
            if rest:
                with open(tf, "w") as f:
                    for r in rest:
                        f.write(json.dumps(r) + "\n")
                res2 = ctx.tlc("http/HttpParser_Trace", "HttpParser_Trace.cfg", env={"TRACE_FILE": tf},
                               expect_violation=True, require_cover=False, coverage=False, timeout=1500,
                               label="trace validation (remaining records)")
                if res2.ok:
                    ctx.trace_ok(len(rest))
        if recs:
            r0 = recs[0]
            ctx.sample({"trace_record": {k: r0[k] for k in ("msgs", "reads", "after", "got", "total", "ends")}})
        ctx.exhaustive = False
        ctx.notes["exhaustive_part"] = ("TLC: all segmentations of all streams of the bounded model; replay: all cut "
                                        "sets of <= 2 cuts (see docstring) of every exported stream")
    finally:
        pool.terminate()
        pool.join()
        shutil.rmtree(tmp, ignore_errors=True)
