"""C03 - pair-setup returns pairing data only after a fully authenticated exchange.

(A) TLC: spec/pairing/PairSetup (symbolic; SRP abstracted to "same code, same salt, same server key => same K"):
    SetupOnlyAuthenticated, RecordConsistent, M5Accepted, FailureReturnsNothing, NoPairingAfterError,
    NoCodeNoPairing, HonestCompletes, VerdictMatches over every reply sequence M2 / M4 / M6 of the model.
(B) spec -> code: TLC exports reply sequences with the specification's verdict (all M2 and M4 variants; M6 variants:
    near misses + seeded 1/20 sample in the quick tier, all in the thorough tier).  Each is concretised by the
    reference accessory (independent SRP-6a server, real Ed25519 / ChaCha20-Poly1305 / HKDF) against the messages the
    real perform_pair_setup_part1/part2 send, and run on the real code: the generators (through the library's TLV
    decoder), and - honest and near-miss sequences - IpDiscovery.async_start_pairing/finish_pairing on SimNet,
    CoAPHomeKitConnection.do_pair_setup/do_pair_setup_finish and the BLE driver drive_pairing_state_machine
    (plain and with FragmentData/FragmentLast reassembly).  Corrupt(site) / truncations are expanded to bits and bytes.
(C) code -> spec: every execution is recorded (descriptions, pairing data returned?, M3 sent?, M5 sent?) and validated
    by TLC against PairSetup_Trace.
On success the returned record must be self-consistent (LTSK/LTPK belong together, accessory id/key are the ones
presented under the signature, controller id is the one sent) and the reference accessory must have accepted M5 and
stored exactly the returned controller id / key.
"""
from __future__ import annotations

import glob
import json
import multiprocessing as mp
import os
import random
import shutil
import tempfile

from harness.common import MachineryError

IOS_ID = "c0ffee00-1111-2222-3333-444455556666"
_LEN = {"salt": 16, "pk2": 384, "proof": 64, "enc": 135, "id": 17, "pk": 32, "sig": 64}
_ITEM = {"state": 3, "error": 3, "pk2": 388, "salt": 18, "proof": 66, "enc": 137}
_ID = {}


def _ident():
    if not _ID:
        from harness.refacc import accessory as A
        # an identifier with lower-case letters: the returned record must carry it byte for byte
        _ID["i"] = A.Identity(acc_id="c8:7f:54:aa:0b:e1", seed=bytes(range(32)))
    return _ID["i"]


SRP_CLASSES = ("K", "S", "A", "B", "M1", "M2")


def directed_search(cls: str, seed: int, code: str, limit: int = 6000):
    """Search (with the independent SRP server only) for client key a, server key b and salt such that a value of
    the exchange starts with a zero byte: K = H(S) (session key), S (premaster secret), A / B (public keys),
    M1 / M2 (client / server proof).  Deterministic in `seed`.  -> dict(a, b, salt) as ints/bytes, or None."""
    from harness.refacc import srp as R
    rng = random.Random(f"{seed}/{cls}")
    salt = rng.randbytes(16)
    b = rng.getrandbits(256) | 1
    srv = R.SrpServer("Pair-Setup", code, salt=salt, b=b)
    for _ in range(limit):
        a = rng.getrandbits(128) | 1          # the real client draws 16 random bytes
        if cls == "B":                        # vary the server key (and salt) instead
            salt = rng.randbytes(16)
            b = rng.getrandbits(256) | 1
            srv = R.SrpServer("Pair-Setup", code, salt=salt, b=b)
            if srv.public_bytes()[0] == 0:
                return {"a": a, "b": b, "salt": salt}
            continue
        big_a = pow(R.G, a, R.N)
        if cls == "A":
            if R.pad(big_a)[0] == 0:
                return {"a": a, "b": b, "salt": salt}
            continue
        srv.set_client_public(R.pad(big_a))
        if cls == "S":
            hit = R.pad(srv.S)[0] == 0
        elif cls == "K":
            hit = srv.K[0] == 0
        else:
            m1 = srv.expected_client_proof()
            hit = m1[0] == 0 if cls == "M1" else srv.server_proof(m1)[0] == 0
        if hit:
            return {"a": a, "b": b, "salt": salt}
    return None


def run_job(job):
    if job.get("directed"):
        return _run_directed(job)
    return _run_job(job)


def _run_directed(job):
    """Honest exchange whose SRP values have a leading zero byte: the randomness of the real SrpClient is pinned
    (Srp.generate_private_key replaced for the duration of the run - harness side only), the accessory's salt and
    key are the ones found by directed_search."""
    import aiohomekit.crypto.srp as LS
    from harness import pairing_driver as D
    from harness.refacc import srp as R
    d = job["directed"]
    hit = directed_search(d["cls"], d["n"], D.PIN)
    if hit is None:
        return {"observed": "machinery", "exc": f"no SRP exchange with a leading zero in {d['cls']} found", "m3sent": False,
                "m5sent": False, "problems": []}
    orig = LS.Srp.__dict__["generate_private_key"]
    LS.Srp.generate_private_key = staticmethod(lambda: hit["a"])
    holder = {}
    try:
        res = _run_job(dict(job, srp_params=(hit["salt"], hit["b"])), holder)
    finally:
        LS.Srp.generate_private_key = orig
    acc = holder.get("acc")
    srv = acc.ps.srp if acc is not None and acc.ps is not None else None
    if res["observed"] == "machinery":
        return res
    if srv is None or srv.A != pow(R.G, hit["a"], R.N):
        # the real client did not use the pinned key: the harness no longer controls the library's randomness
        return dict(res, observed="machinery", exc="the real SrpClient did not use the pinned private key")
    val = {"K": srv.K, "S": R.pad(srv.S), "A": R.pad(srv.A), "B": srv.public_bytes(),
           "M1": srv.expected_client_proof(), "M2": srv.server_proof(srv.expected_client_proof())}[d["cls"]]
    if val[0] != 0:
        return dict(res, observed="machinery", exc=f"directed search hit for {d['cls']} not reproduced in the exchange")
    if acc.ps.m3_ok is not True:
        res["problems"].append(f"conformant accessory rejects the controller's SRP proof M3 (leading zero byte in {d['cls']})")
    res["directed"] = {"cls": d["cls"], "a": "%x" % hit["a"], "b": "%x" % hit["b"], "salt": hit["salt"].hex()}
    return res


def _run_job(job, holder=None):
    from cryptography.hazmat.primitives import serialization
    from cryptography.hazmat.primitives.asymmetric import ed25519
    from harness import pairing_driver as D
    from harness.refacc import attacker as K
    case, tr = job["case"], job["tr"]
    ident = _ident()
    pin, ios_id = D.PIN, IOS_ID
    if job.get("fresh"):                 # fresh accessory identity, setup code, controller id, salt and SRP key pair
        from harness.refacc import accessory as A
        frng = random.Random(job["fresh"])
        pin = "%03d-%02d-%03d" % (frng.randrange(1000), frng.randrange(100), frng.randrange(1000))
        style = frng.randrange(4)        # accessory identifiers: upper-case MAC, lower-case MAC, mixed case, free text
        mac = ["%02x" % frng.randrange(256) for _ in range(6)]
        acc_id = {0: ":".join(mac).upper(), 1: ":".join(mac), 2: ":".join(m.upper() if i % 2 else m for i, m in enumerate(mac)),
                  3: "Bridge-" + "".join(mac[:3])}[style]
        ident = A.Identity(acc_id=acc_id, setup_code=pin)
        ios_id = "%08x-%04x-%04x-%04x-%012x" % (frng.getrandbits(32), frng.getrandbits(16), frng.getrandbits(16),
                                                 frng.getrandbits(16), frng.getrandbits(48))
    world = K.PSWorld(ident)
    sent = {}
    site = job.get("site")           # which message the concrete alteration / cut position belongs to

    def hook(acc, step, items, honest):
        if step == "PS_M2" and "m2" not in sent:
            h = honest()
            world.ps = acc.ps
            sent["m2"] = world.build_m2(case["m2"], case["wire2"], case["partial"][0], h,
                                        job.get("how") if site == "m2" else None, job.get("cut_bytes") if site == "m2" else None)
            return sent["m2"]
        if step == "PS_M4" and "m4" not in sent:
            world.m3_items = items
            try:
                h = honest()
            except Exception:  # noqa: BLE001   (a corrupted M2 can make the controller send an A the reference cannot use)
                h = [(4, bytes(64))]
            sent["m4"] = world.build_m4(case["m4"], case["wire4"], case["partial"][1], h,
                                        job.get("how") if site == "m4" else None, job.get("cut_bytes") if site == "m4" else None)
            return sent["m4"]
        if step == "PS_M6" and "m6" not in sent:
            world.m5_items = items
            honest()                       # the reference accessory checks M5 (acc.ps.m5_ok) and stores the controller
            sent["m6"] = world.build_m6(case["m6"], case["wire6"], case["partial"][2],
                                        job.get("how") if site == "m6" else None, job.get("cut_bytes") if site == "m6" else None)
            return sent["m6"]
        return None

    acc = D.ScriptedAccessory(ident=ident, hook=hook, fresh_srp=bool(job.get("fresh")), srp_params=job.get("srp_params"))
    if holder is not None:
        holder["acc"] = acc
    try:
        if tr == "gen":
            o = D.gen_pair_setup(acc, pin, ios_id, real_decoder=True)
        elif tr == "ip":
            o = D.ip_pair_setup(acc, pin)
        elif tr == "coap":
            o = D.coap_pair_setup(acc, pin)
        elif tr == "ble":
            o = D.ble_pair_setup(acc, pin, ios_id)
        else:
            o = D.ble_pair_setup(acc, pin, ios_id, fragment_tlv=120)
    except BaseException as ex:  # noqa: BLE001
        return {"observed": "baseexc", "exc": repr(ex), "m3sent": "m4" in sent, "m5sent": "m6" in sent, "problems": []}
    res = {"observed": "ok" if o.ok else "fail", "exc": None if o.ok else repr(o.exc), "m3sent": "m4" in sent,
           "m5sent": "m6" in sent, "problems": [], "sent": {k: v.hex() for k, v in sent.items()}}
    if "m2" not in sent:
        res["observed"] = "machinery"
        res["exc"] = f"M1 never arrived ({o!r})"
        return res
    if world.degenerate:
        res["degenerate"] = True
        return res
    pr = res["problems"]
    if o.ok:
        rec = o.value
        if not isinstance(rec, dict):
            pr.append(f"returned {type(rec).__name__}, not pairing data")
            return res
        try:
            sk = ed25519.Ed25519PrivateKey.from_private_bytes(bytes.fromhex(rec["iOSDeviceLTSK"]))
            pk = sk.public_key().public_bytes(encoding=serialization.Encoding.Raw, format=serialization.PublicFormat.Raw)
            if pk.hex() != rec["iOSDeviceLTPK"].lower():
                pr.append("returned iOSDeviceLTPK is not the public half of the returned iOSDeviceLTSK")
        except Exception as ex:  # noqa: BLE001
            pr.append(f"returned controller key unusable: {ex!r}")
            pk = None
        if world.presented_id is None or rec.get("AccessoryPairingID") != world.presented_id.decode(errors="replace"):
            pr.append("returned AccessoryPairingID is not the identifier carried under the signature")
        if world.presented_pk is None or rec.get("AccessoryLTPK", "").lower() != world.presented_pk.hex():
            pr.append("returned AccessoryLTPK is not the key carried under the signature")
        if not acc.ps.m5_ok:
            pr.append(f"conformant accessory rejects the controller's M5 ({acc.ps.m5_error})")
        else:
            if acc.ps.ios_id.decode() != rec.get("iOSPairingId"):
                pr.append("the controller id the accessory stored differs from the returned iOSPairingId")
            if pk is not None and acc.ps.ios_ltpk != pk:
                pr.append("the controller key the accessory stored differs from the returned iOSDeviceLTPK")
        if tr in ("gen", "ble", "blefrag") and rec.get("iOSPairingId") != ios_id:
            pr.append("returned iOSPairingId is not the one the caller supplied")
        if not pr and case["honest"]:
            # the record is usable: pair-verify with it against the same reference accessory succeeds
            v = D.gen_pair_verify(D.ScriptedAccessory(ident=ident), dict(rec))
            if not v.ok:
                pr.append(f"pair-verify with the returned record against the accessory just paired fails ({v.exc!r})")
        if tr == "ip":
            if rec.get("AccessoryIP") != "10.0.0.1" or rec.get("AccessoryIPs") != ["10.0.0.1"] or rec.get("AccessoryPort") != 51826 \
                    or rec.get("Connection") != "IP":
                pr.append("IP: address / port / connection type missing from the pairing data")
            if not o.extra.get("registered"):
                pr.append("IP: pairing not registered with the controller")
    else:
        if tr == "ip" and o.extra.get("registered"):
            pr.append("IP: a pairing was registered although pair-setup failed")
    return res


def _work(job):
    try:
        return run_job(job)
    except Exception:  # noqa: BLE001
        import traceback
        return {"observed": "machinery", "exc": traceback.format_exc()[-1500:], "m3sent": False, "m5sent": False, "problems": []}


_H = {"m2": {"st": "ok", "err": "none", "salt": "ok", "pk": "ok", "cut": 0},
      "m4": {"st": "ok", "err": "none", "proof": "right", "mfi": False, "cut": 0},
      "m6": {"st": "ok", "err": "none", "enc": "sub", "key": "right", "nonce": "PS-Msg06", "id": "AccId", "pk": "accLT", "sigp": True,
             "signer": "presented", "info": "right", "corrupt": "none", "alter": "flip", "cut": 0}}


def _short(c, j=None):
    parts = []
    for m in ("m2", "m4", "m6"):
        diff = {k: v for k, v in c[m].items() if _H[m][k] != v}
        if diff:
            parts.append(f"{m.upper()} = honest with {diff}")
    s = "; ".join(parts) or "honest exchange"
    if j is not None:
        s += f" via {j['tr']}"
        if j.get("how"):
            s += f" alteration={j['how']} in {j['site']}"
        if j.get("cut_bytes"):
            s += f" cut {j['cut_bytes']} bytes into the next item of {j['site']}"
        if j.get("directed"):
            s += f" [SRP values chosen so that {j['directed']['cls']} starts with a zero byte, search #{j['directed']['n']}]"
    return s


def _site(c):
    """(message, field-length key, item-length key) of the symbolic corruption / truncation of a case, if any."""
    if c["m2"]["salt"] == "corrupt":
        return "m2", "salt"
    if c["m2"]["pk"] == "corrupt":
        return "m2", "pk2"
    if c["m4"]["proof"] == "corrupt":
        return "m4", "proof"
    if c["m6"]["corrupt"] != "none" and c["m6"]["alter"] == "flip":
        return "m6", c["m6"]["corrupt"]
    return None, None


def _cut_site(c):
    for i, m in enumerate(("m2", "m4", "m6")):
        if c["partial"][i]:
            canon = {"m2": ["state", "pk2", "salt"], "m4": ["state", "proof"], "m6": ["state", "enc"]}[m]
            return m, _ITEM[canon[len(c["wire" + m[1]])]]
    return None, None


def _jobs(ctx, cases):
    from harness.refacc import attacker as K
    rng = random.Random(ctx.seed ^ 0xC03)
    jobs = []
    for c in cases:
        ndiff = sum(1 for m in ("m2", "m4", "m6") for k, v in c[m].items() if _H[m][k] != v)
        near = ndiff <= 1                   # full bit / byte expansion only where the alteration is the only deviation
        single = sum(1 for m in ("m2", "m4", "m6") if c[m] != _H[m]) <= 1
        trs = ["gen"]
        if c["honest"]:
            trs += ["ip", "coap", "ble", "blefrag"]
        elif single and (c["family"] != "m6" or c["dist"] <= 1 or (c["dist"] == 2 and rng.random() < ctx.pick(0.15, 1.0))
                         or (ctx.thorough and rng.random() < 0.05)):
            trs += ["ip", "coap", rng.choice(["ble", "blefrag"])]
        msg, fld = _site(c)
        cmsg, clen = _cut_site(c)
        for tr in trs:
            j = {"case": c, "tr": tr}
            if c["honest"] and tr == "gen":
                j["fresh"] = rng.getrandbits(48) | 1
            if msg is not None:
                n = _LEN[fld]
                if single and near and tr == "gen":
                    for how in K.corruptions(n, rng, every=ctx.thorough):
                        jobs.append(dict(j, how=how, site=msg))
                    continue
                j["site"] = msg
                j["how"] = ("bit", rng.randrange(n * 8)) if rng.random() < 0.7 else ("byte", rng.randrange(n), rng.randrange(256))
            if cmsg is not None:
                if near and tr == "gen":
                    cuts = range(1, clen) if ctx.thorough else sorted({1, clen - 1, rng.randrange(1, clen), rng.randrange(1, clen)})
                    for cb in cuts:
                        jobs.append(dict(j, cut_bytes=cb, site=cmsg))
                    continue
                j["site"] = cmsg
                j["cut_bytes"] = rng.randrange(1, clen)
            jobs.append(j)
    if any(c["honest"] for c in cases):
        h = next(c for c in cases if c["honest"] and not c["m4"]["mfi"])
        # directed honest exchanges: leading zero bytes in K, S, A, B, M1, M2 (each about 1 exchange in 256 by chance)
        for cls in SRP_CLASSES:
            for n in range(ctx.pick(3, 12)):
                jobs.append({"case": h, "tr": ["gen", "ip", "coap", "ble", "blefrag"][n % 5] if n else "gen",
                             "directed": {"cls": cls, "n": (ctx.seed % 1000003) * 100 + n}})
        # honest exchanges with fresh salts / SRP keys / identities (the record must be consistent for all of them)
        for _ in range(ctx.pick(16, 200)):
            jobs.append({"case": h, "tr": rng.choice(["gen", "gen", "ip", "coap", "ble", "blefrag"]), "fresh": rng.getrandbits(48) | 1})
    return jobs


def run(ctx):
    import aiohomekit  # noqa: F401
    ctx.rule = ("a case = symbolic description of the accessory's replies M2 (salt, server key, truncation), M4 (proof from the right "
                "/ another setup code / corrupted, MFi blob) and M6 (sealing key and nonce, identifier, presented key, signer, signed "
                "info, corrupted field, truncation) enumerated by TLC from spec/pairing/PairSetup.tla, x transport x concrete "
                "alteration; non-trivial = differs from the honest exchange")
    ctx.assume("symbolic cryptography (SRP abstracted: equal code, salt and server key <=> equal session key); numeric correctness of "
               "SRP-6a itself is C02 (not claimed); here every honest run is checked against the independent SRP server of harness/refacc",
               "bit-level coverage of Corrupt(site) and truncations comes from the expansion in the concretiser",
               "'fails with an error' = any Exception out of the generator / transport call (DESIGN.md 4.2)",
               "BLE: drive_pairing_state_machine over a duck-typed GATT client (PDU framing, FragmentData/FragmentLast); "
               "BleDiscovery's connection handling is not exercised")
    if ctx.replay:
        return _replay(ctx)
    tmp = tempfile.mkdtemp(prefix="c03_")
    try:
        out = os.path.join(tmp, "cases")
        rate = ctx.pick(20, 1)
        ctx.tlc("pairing/PairSetup_Cases", "PairSetup_Cases.cfg", env={"CASES_OUT": out, "RATE": rate, "SEED": ctx.seed % 100000},
                label=f"symbolic pair-setup, all reply sequences; M6 export rate 1/{rate} + near misses", timeout=1500)
        cases = []
        for f in sorted(glob.glob(out + ".*")):
            cases += [json.loads(line) for line in open(f)]
        if len(cases) < 300 or not any(c["honest"] and c["verdict"] == "ok" for c in cases):
            raise MachineryError(f"case export incomplete ({len(cases)} cases)")
        cases.sort(key=lambda c: json.dumps(c, sort_keys=True))
        seen, uniq = set(), []
        for c in cases:                      # a sequence can be exported by two families (M2 variant + honest M4)
            k = json.dumps([c["m2"], c["m4"], c["m6"]], sort_keys=True)
            if k not in seen:
                seen.add(k)
                uniq.append(c)
        cases = uniq
        jobs = _jobs(ctx, cases)
        with mp.get_context("fork").Pool(16) as pool:
            # the directed searches are long jobs: one per task, started first
            jobs.sort(key=lambda j: 0 if j.get("directed") else 1)
            nd = sum(1 for j in jobs if j.get("directed"))
            ar = pool.map_async(_work, jobs[:nd], chunksize=1)
            rest = pool.map(_work, jobs[nd:], chunksize=8)
            results = ar.get() + rest
        groups = {}
        recs = []
        for j, res in zip(jobs, results):
            c = j["case"]
            if res["observed"] == "machinery":
                raise MachineryError(f"{_short(c, j)}: {res['exc']}")
            if res.get("degenerate"):            # e.g. a front truncation that only removed zero bytes (p = 2^-8 per byte)
                ctx.notes["degenerate_concretisations_skipped"] = ctx.notes.get("degenerate_concretisations_skipped", 0) + 1
                continue
            ctx.case((json.dumps([c["m2"], c["m4"], c["m6"]], sort_keys=True), j["tr"], str(j.get("how")), j.get("cut_bytes"),
                      json.dumps(j.get("directed"))) if not c["honest"] or j.get("directed") else None)
            if j.get("directed") and len(ctx.samples) < 6 and j["directed"]["cls"] in ("K", "S") and j["directed"]["n"] % 100 == 0:
                ctx.sample({"directed_srp_exchange": res.get("directed"), "transport": j["tr"], "observed": res["observed"]})
            bad = []
            if res["observed"] == "baseexc":
                bad.append(("raised a BaseException", res["exc"]))
            if c["verdict"] == "fail" and res["observed"] == "ok":
                bad.append((f"RETURNED PAIRING DATA although the specification rejects the exchange at '{c['stage']}'", None))
            if not c["m3"] and res["m3sent"]:
                bad.append((f"controller went on to M3 although the specification rejects M2 at '{c['stage']}'", None))
            if not c["m5"] and res["m5sent"]:
                bad.append((f"controller sent its exchange message M5 although the specification rejects at '{c['stage']}'", None))
            if c["verdict"] == "ok" and res["observed"] != "ok" and c["honest"]:
                bad.append(("honest exchange failed", res["exc"]))
            for p in res["problems"]:
                bad.append((p, None))
            recs.append({"m2": c["m2"], "m4": c["m4"], "m6": c["m6"], "observed": "ok" if res["observed"] == "ok" else "fail",
                         "m3sent": bool(res["m3sent"]), "m5sent": bool(res["m5sent"])})
            if bad:
                for what, exc in bad:
                    groups.setdefault((what, j["tr"]), []).append((j, res, exc))
            else:
                ctx.trace_ok()
            if len(ctx.samples) < 4 and j["tr"] in ("ip", "blefrag", "coap") and c["stage"] in ("proof", "sig", "aead"):
                ctx.sample({"case": {"m2": c["m2"], "m4": c["m4"], "m6": c["m6"], "spec_verdict": c["verdict"], "spec_stage": c["stage"]},
                            "transport": j["tr"], "observed": res["observed"], "exception": res["exc"],
                            "m6_bytes": res.get("sent", {}).get("m6")})
        for (what, tr), items in sorted(groups.items()):
            j, res, exc = items[0]
            ctx.violation(f"{_short(j['case'], j)}: {what}{' - ' + exc if exc else ''}  [{len(items)} executions fail this way]",
                          {"kind": "job", "job": _jsonable_job(j), "result": res, "more": [_short(x[0]["case"], x[0]) for x in items[1:6]]})
        ctx.notes["cases_exported"] = len(cases)
        ctx.notes["executions"] = len(jobs)
        ctx.notes["executions_by_transport"] = {t: sum(1 for j in jobs if j["tr"] == t) for t in ("gen", "ip", "coap", "ble", "blefrag")}
        tf = os.path.join(tmp, "trace.ndjson")
        with open(tf, "w") as f:
            for x in recs:
                f.write(json.dumps(x) + "\n")
        res = ctx.tlc("pairing/PairSetup_Trace", "PairSetup_Trace.cfg", env={"TRACE_FILE": tf}, expect_violation=True,
                      require_cover=False, label="executions of the real code validated against the symbolic model", timeout=1500)
        if not res.ok and not groups:
            from harness import tlc as TL
            ce = TL.parse_counterexample(res.violation["trace"])
            tid = ce[-1][1].get("tid") if ce else None
            rec = recs[tid - 1] if isinstance(tid, int) and 0 < tid <= len(recs) else None
            ctx.violation(f"execution rejected by PairSetup_Trace ({res.violation['name']}): {rec}",
                          {"kind": "record", "record": rec, "tlc": res.violation["name"]})
        ctx.exhaustive = bool(ctx.thorough)
    finally:
        shutil.rmtree(tmp, ignore_errors=True)


def _jsonable_job(j):
    return {"case": j["case"], "tr": j["tr"], "how": list(j["how"]) if j.get("how") else None, "cut_bytes": j.get("cut_bytes"),
            "site": j.get("site"), "fresh": j.get("fresh", 0), "directed": j.get("directed")}


def _replay(ctx):
    data = json.load(open(ctx.replay))
    j = data["replay"]["job"]
    if j.get("how"):
        j["how"] = tuple(j["how"])
    res = run_job(j)
    c = j["case"]
    res.pop("sent", None)
    print(f"replay: {_short(c, j)} -> {res}")
    ctx.case(1)
    bad = (c["verdict"] == "fail" and res["observed"] == "ok") or (not c["m3"] and res["m3sent"]) or (not c["m5"] and res["m5sent"]) \
        or res["problems"] or (c["honest"] and res["observed"] != "ok")
    if bad:
        ctx.violation(f"{_short(c, j)}: observed {res['observed']} (M3 sent {res['m3sent']}, M5 sent {res['m5sent']}, {res['problems']}); "
                      f"specification: {c['verdict']} at '{c['stage']}'", {"kind": "job", "job": _jsonable_job(j), "result": res})
    else:
        ctx.trace_ok()
