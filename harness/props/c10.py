"""C10 - see ipconn_common.py and spec/ip/IpConn.tla."""
from harness.props import ipconn_common


def run(ctx):
    ipconn_common.run(ctx, "C10")
