"""C12 - subscriptions survive reconnects; every event reaches every listener once (spec/ip/IpSubs.tla).

(A) TLC: IpSubs exhaustively for a tiny instance and by random simulation for a richer one
    (ResubscribedAfterReconnect, ToldUp, ExactlyOnce, NeverTwice, InOrder, ListenersDoNotDrop).
(B)+(C) seeded random histories (subscribe / unsubscribe with overlapping sets over two accessory ids, listener
    registration / removal, a raising listener, a listener that unregisters itself inside its callback, event
    bursts, events split across reads, empty and non-JSON event bodies, disconnect / reconnect at any point
    including in the middle of a subscription exchange) drive the real IpPairing on the virtual-time loop;
    recorded traces (per-session registrations at the accessory, listener call logs, API results) are validated
    against IpSubs_Trace with the invariants evaluated in every state of every trace.
"""
from __future__ import annotations

import json
import multiprocessing as mp
import os
import random

from harness import tracecheck


def _run(args):
    seed, rid, nsteps = args
    from harness import ipsubs_driver as D
    rng = random.Random(seed)
    r = D.random_run(rng, rid, nsteps=nsteps)
    try:
        rec = r.record(rid)
        rec["loop_exceptions"] = r.loop_exceptions[:5]
        return rec
    finally:
        r.close()


def run(ctx):
    if ctx.replay:
        return _replay(ctx)
    ctx.rule = ("TLC explores IpSubs (exhaustive tiny instance + simulation); executions of the real code are seeded random "
                "histories; distinct by recorded event sequence; non-trivial if at least one registration or event occurred")
    ctx.assume("a conformant accessory only notifies characteristics registered on that session and answers PUT with 204",
               "operations are started at settled points of the event loop (the connector is modelled in IpConn)",
               "events buffered but unread when the connection is lost are not claimed (nothing can deliver them)")
    ctx.tlc("ip/IpSubs", "IpSubs_MCt.cfg" if ctx.thorough else "IpSubs_MCq.cfg", label="exhaustive to a depth bound, tiny instance", timeout=1200, coverage=False, require_cover=False)
    ctx.tlc("ip/IpSubs", "IpSubs_MC.cfg", simulate=f"num={ctx.pick(20000, 400000)}", depth=40, seed=ctx.seed,
            workers=8, label="simulation, 3 chars / 3 listeners / 2 sessions (coverage + vacuity guard)", timeout=1800)
    n = ctx.pick(400, 5000)
    jobs = [(ctx.seed * 1000003 + i, f"sub{i}", [20, 35, 50][i % 3]) for i in range(n)]
    with mp.get_context("fork").Pool(min(16, os.cpu_count() or 4)) as pool:
        recs = pool.map(_run, jobs, chunksize=16)
    for r in recs:
        ctx.case(json.dumps(r["events"], sort_keys=True) if any(e["ev"] in ("acc_reg", "acc_ev") for e in r["events"]) else None)
    ctx.notes["events_recorded"] = sum(len(r["events"]) for r in recs)
    ctx.notes["sessions_observed"] = sum(1 for r in recs for e in r["events"] if e["ev"] == "session")
    ctx.notes["listener_calls_observed"] = sum(1 for r in recs for e in r["events"] if e["ev"] == "listener")
    ctx.notes["loop_exceptions"] = sum(len(r.get("loop_exceptions", [])) for r in recs)
    rej = tracecheck.validate(ctx, "ip/IpSubs_Trace", "IpSubs_Trace.cfg", recs, label=f"trace validation ({len(recs)} executions)")
    for j in rej:
        what = (f"execution {j['record']['id'] if j.get('record') else '?'} is not a behaviour of IpSubs: "
                + (f"invariant {j['invariant']} violated" if j.get("invariant") else
                   f"event #{j['maxl']} {j['event']} cannot be explained"))
        ctx.violation(what, {"kind": "trace", "record": j.get("record"), "first_unexplained": j.get("event"),
                             "position": j.get("maxl"), "last_matched_state": j.get("last_state")})
    ctx.sample({"recorded_trace_prefix": recs[0]["events"][:30]})


def _replay(ctx):
    """--replay <file>: re-execute the recorded execution (same seed => same stimuli) and validate the fresh trace;
    if it cannot be regenerated from its id, re-validate the recorded trace."""
    import re
    rep = json.load(open(ctx.replay))
    seed = rep.get("seed", ctx.seed)
    obj = rep.get("replay") or {}
    if obj.get("kind") == "tlc":
        ctx.tlc(obj["module"][len("spec/"):-4], obj["cfg"], coverage=False, require_cover=False, label="replay: re-run the TLC configuration")
        return
    rec = obj.get("record") or {}
    rid = str(rec.get("id", ""))
    m = re.match(r"sub(\d+)$", rid)
    fresh = None
    if m:
        i = int(m.group(1))
        fresh = _run((seed * 1000003 + i, rid, [20, 35, 50][i % 3]))
    use = fresh or rec
    ctx.notes["replayed"] = "re-executed" if fresh else "recorded trace re-validated"
    ctx.case(json.dumps(use.get("events", [])))
    ctx.sample({"replayed_trace_prefix": use.get("events", [])[:25]})
    rej = tracecheck.validate(ctx, "ip/IpSubs_Trace", "IpSubs_Trace.cfg", [use], label="replay")
    for j in rej:
        ctx.violation(f"replayed execution {rid} is rejected: "
                      + (f"invariant {j['invariant']} violated" if j.get("invariant") else f"event #{j['maxl']} {j['event']} cannot be explained"),
                      {"kind": "trace", "record": use, "position": j.get("maxl"), "last_matched_state": j.get("last_state")})
