"""EXTBLESUB - BLE subscriptions and connected events (GATT notifications) (spec/ble/BleSubs.tla).

Extension beyond the listed properties - the BLE analogue of C12: subscribe / unsubscribe, the debounced start-notify
pass with its _notifications set, the restore of subscriptions after a reconnection by any operation, the notification
callback (empty indication -> one read -> every listener told once), close() / shutdown().

(A)  TLC checks BleSubs (the intended behaviour, Deviations = {}) exhaustively for small constants, one configuration per
     aspect (pass + restore over three links / close + shutdown / notifications + listeners / unsubscribe + characteristics
     without events; larger and combined ones in the thorough tier), plus liveness (notifications eventually active for every
     subscription while the link lasts) on a small instance.  As a guard against a vacuous model every named departure -
     the three of the released library (recorded findings) and nine that correspond to mutants - must be refuted by the
     property it is meant to break, and every action must fire in at least one configuration.
(B)  spec -> code: behaviours produced by `tlc -simulate` (SimSpec) are replayed as stimuli on the real BlePairing
     (harness/extblesub_driver.py).
(C)  code -> spec: those executions, seeded random schedules and directed schedules are recorded at the fake GATT client,
     the listeners, the public API and the loop's timers and validated by TLC against BleSubs_Trace with the invariants on:
     against the intended behaviour (Deviations = {}, all invariants) unless the one place where a recorded departure
     changes the model shows in the record (an unsubscribe call / a background task dying of AttributeError / a
     start_notify answered together with the loss of the link) - then against the model with exactly those departures and
     without the invariants they break, and, if that model does not accept it, with fewer departures down to the intended
     behaviour (a tree in which a finding has been repaired).  An execution none of them accepts is a VIOLATION.  Per
     recorded finding one execution is shown (KNOWN-FINDING): it is not a behaviour of the intended model, and for two of
     them TLC exhibits the consequence (NotifyExact / NotifyComplete violated in the model with the departure).
"""
from __future__ import annotations

import glob
import itertools
import json
import multiprocessing as mp
import os
import re
import shutil
import tempfile
import threading
from concurrent.futures import ThreadPoolExecutor

from harness import tlc as T
from harness import tracecheck
from harness.common import SPEC, MachineryError

SIG_UNSUB = "extblesub-unsubscribe-ignored"
SIG_STALE = "extblesub-stale-notify-entry-after-link-loss"
SIG_CRASH = "extblesub-pass-crashes-on-closed-client"
TRACE = os.path.join(SPEC, "ble", "BleSubs_Trace.tla")
ACTIONS = ["Begin", "PassBegin", "PassNext", "EvBegin", "ConnRes", "PvDone", "GReq", "GRes", "KeyDone", "BcReq", "BcRes", "ParDone", "SnRes",
           "EvReq", "EvRes", "EvDone", "Drop", "DiscRes", "Wait", "Timer", "TimerC", "Subscribe", "Unsubscribe", "Listen", "Unlisten", "Call",
           "CloseCall", "Ind", "Change"]
EVENT_KINDS = {"sub", "unsub", "listen", "unlisten", "call", "ret:ok", "ret:err", "ret:none", "close", "shutdown", "cret", "conn_req",
               "conn_res:ok", "conn_res:fail", "drop", "disc_req", "disc_res", "sn_req", "sn_res:ok", "sn_res:err", "sn_res:race", "ind:0",
               "ind:1", "chg", "read", "told", "bcen", "timer", "wait", "bgfail:disc", "bgfail:attr", "obs", "end"}
MC = [("BleSubs_MCa.cfg", "exhaustive: subscribe / debounce / pass / restore over 3 links, link loss at every await, retry"),
      ("BleSubs_MCb.cfg", "exhaustive: + close() / shutdown() at every point (2 links)"),
      ("BleSubs_MCc.cfg", "exhaustive: notifications, value changes, 2 listeners (one raising), payload indications"),
      ("BleSubs_MCd.cfg", "exhaustive: unsubscribe, a characteristic that refuses notifications, broadcast events"),
      ("BleSubs_cov.cfg", "exhaustive, small: every action enabled with 1 characteristic, 1 link (coverage)")]
COVERED = ("BleSubs_MCc.cfg", "BleSubs_cov.cfg")     # -coverage 1 only on the small ones (it is slow)
MCT = [("BleSubs_MCt1.cfg", "exhaustive: 3 characteristics (one refusing), 3 links, queue of 4"),
       ("BleSubs_MCt2.cfg", "exhaustive: close / shutdown, 2 callers, 3 links, queue of 4"),
       ("BleSubs_MCt3.cfg", "exhaustive: notifications on 2 characteristics, 2 listeners, queue of 4"),
       ("BleSubs_MCt4.cfg", "exhaustive: unsubscribe + close / shutdown + notifications + a listener together"),
       ("BleSubs_MCt5.cfg", "exhaustive: unsubscribe, a characteristic that refuses notifications, waits, connection failures, 3 links"),
       ("BleSubs_MCt6.cfg", "exhaustive: everything but unsubscribe with 2 characteristics, 1 listener, close()")]
NEG = [("unsub", "NotifyExact"), ("stale", "NotifyComplete"), ("crash", "NoBackgroundCrash"), ("noclear", "NotifyComplete"),
       ("norestore", "RestoredAfterReconnect"), ("nosched", "NotifyComplete"), ("keeptimer", "TimerRestarted"), ("oneslot", "NotifyNotLost"),
       ("firstonly", "EveryListenerOnce"), ("raisekills", "EveryListenerOnce"), ("dup", "SnOncePerLink"), ("noread", "NotifyNotLost"),
       ("live", "EventuallyNotified")]
CH = {1: "On (iid 0x21)", 2: "Brightness (iid 0x23)", 3: "ConfiguredName (iid 0x22, no events)"}


# ------------------------------------------------------------------ (B) behaviours from TLC
_STATE = re.compile(r"^STATE_\d+ ==\s*\n(.*?)(?=^\\\* <|\Z|^={4,})", re.M | re.S)


def _behaviours(ctx, tmp, num, depth, seed):
    """-> list of behaviours, each the list of `out` sequences (lists of event dicts) of its steps"""
    d = os.path.join(tmp, "sim")
    os.makedirs(d, exist_ok=True)
    ctx.tlc("ble/BleSubs", "BleSubs_sim.cfg", simulate=f"file={d}/b,num={num}", depth=depth, seed=seed, workers=1,
            coverage=False, require_cover=False, label="simulate (SimSpec): behaviours for replay", timeout=600)
    out = []
    for f in sorted(glob.glob(d + "/b_*")):
        states = [T.parse_state(m.group(1)) for m in _STATE.finditer(open(f).read())]
        if len(states) < 2:
            continue
        out.append({"steps": [[_plain(e) for e in st["out"]] for st in states[1:]]})
    shutil.rmtree(d, ignore_errors=True)
    return out


def _plain(e):
    return {k: (list(v) if isinstance(v, tuple) else v) for k, v in dict(e).items()}


def _replay_behaviour(args):
    """Worker: drive the real code along the stimuli of one TLC behaviour (a stimulus that does not apply to the state the
    real code is in is left out: the recorded execution is validated on its own)."""
    beh, seed, rid = args
    from harness import extblesub_driver as S
    w = S.SWorld(seed, rid)
    applied = 0
    try:
        for outs in beh["steps"]:
            if not outs:
                applied += 1 if w.step(1) else 0
                continue
            e = outs[0]
            ev = e["ev"]
            ok = False
            if ev == "sub":
                w.subscribe(e["S"])
                ok = True
            elif ev == "unsub":
                w.unsubscribe(e["S"])
                ok = True
            elif ev == "listen":
                ok = w.listen(e["l"])
            elif ev == "unlisten":
                ok = w.unlisten(e["l"])
            elif ev == "call":
                ok = w.get(e["c"], e["i"])
            elif ev in ("close", "shutdown"):
                ok = w.close_call(ev)
            elif ev == "ind":
                ok = w.ind(e["i"], e["d"])
            elif ev == "chg":
                ok = w.change(e["i"], e["v"])
            elif ev == "conn_res":
                ok = w.conn(e["out"] == "ok")
            elif ev == "sn_res":
                ok = w.sn(e["out"])
            elif ev == "wait":
                ok = w.wait(e["d"])
            elif ev == "timer":
                ok = w.timer()
            elif ev == "drop":
                ok = w.link_drop()
            elif ev == "disc_res":
                ok = w.disc()
            elif ev in ("read", "bcen", "told", "ret"):
                # an answer of the Bluetooth side: GATT operations are answered until something becomes visible
                for _ in range(12):
                    mark = len([x for x in w.sev if x["ev"] not in ("obs", "wb")])
                    if not w.step(1):
                        break
                    ok = True
                    if len([x for x in w.sev if x["ev"] not in ("obs", "wb")]) > mark:
                        break
            applied += 1 if ok else 0
        w.honest_tail()
        rec = w.record()
        rec["applied"] = applied
        rec["beh"] = beh
        return rec
    finally:
        w.close()


def _random_run(args):
    seed, rid, nsteps, fault = args
    from harness import extblesub_driver as S
    w = S.random_run(seed, rid, nsteps=nsteps, fault=fault)
    try:
        return w.record()
    finally:
        w.close()


def _directed_run(args):
    seed, rid, template = args
    from harness import extblesub_driver as S
    w = S.directed_run(seed, rid, template)
    try:
        return w.record()
    finally:
        w.close()


def _rnd_job(seed, i):
    return (seed * 1000003 + i, f"rnd{i}", [20, 40, 60, 90][i % 4], [0.1, 0.2, 0.35][i % 3])


def _dir_job(seed, i):
    from harness import extblesub_driver as S
    return (seed * 7919 + i, f"dir{i}", S.TEMPLATES[i % len(S.TEMPLATES)])


# ------------------------------------------------------------------ (C) validation
_REJ = re.compile(r'<<"REJECTED", (\d+), (\d+)>>')
_acct = threading.Lock()


def _tlc_traces(ctx, cfg, part, label, timeout=900, max_inv=6):
    """One TLC run (repeated without a trace that violated an invariant) over a batch -> rejections."""
    cfgp = os.path.join(SPEC, "ble", cfg)
    out = []
    todo = list(part)
    while todo:
        tmp = tempfile.mkdtemp(prefix="tvs_")
        try:
            tf = os.path.join(tmp, "batch.ndjson")
            with open(tf, "w") as f:
                for r in todo:
                    f.write(json.dumps({"id": r["id"], "events": r["events"]}) + "\n")
            res = T.run(TRACE, cfgp, env={"TRACE_FILE": tf, "DBG_L": "0"}, workers=1, dfs_queue=True, coverage=False, timeout=timeout)
        finally:
            shutil.rmtree(tmp, ignore_errors=True)
        with _acct:
            ctx.states += res.distinct
            ctx.transitions += res.generated
            ctx.tlc_runs.append({"module": "spec/ble/BleSubs_Trace.tla", "cfg": cfg, "label": f"{label} ({len(todo)} executions)",
                                 "generated": res.generated, "distinct": res.distinct, "depth": res.depth,
                                 "wall_s": round(res.wall_s, 2), "ok": res.ok, "actions": {}})
        if not res.ok and res.violation["kind"] in ("invariant", "action_property"):
            ce = T.parse_counterexample(res.violation["trace"])
            tid = ce[-1][1].get("tid") if ce else None
            if not isinstance(tid, int):
                raise MachineryError("trace validation: invariant violated but the trace could not be identified\n" + res.stdout[-1500:])
            rec = todo[tid - 1]
            last = ce[-1][1]
            out.append({"record": rec, "maxl": last.get("l"), "event": None, "invariant": res.violation["name"],
                        "last_state": last.get("s")})
            todo = [r for i, r in enumerate(todo) if i != tid - 1]
            if sum(1 for j in out if j["invariant"]) >= max_inv:
                for r in todo:              # enough evidence; the rest of this batch stays unvalidated
                    out.append({"record": r, "maxl": 0, "event": None, "invariant": None, "last_state": None, "unvalidated": True})
                break
            continue
        if not res.ok and res.violation["kind"] != "postcondition":
            raise MachineryError(f"trace validation failed: {res.violation['kind']}\n" + res.stdout[-2000:])
        for tid, maxl in [(int(x), int(y)) for x, y in _REJ.findall(res.stdout)]:
            rec = todo[tid - 1]
            ev = rec["events"][maxl - 1] if 0 < maxl <= len(rec["events"]) else None
            out.append({"record": rec, "maxl": maxl, "event": ev, "invariant": None, "last_state": None})
        break
    return out


def validate(ctx, recs, cfg, label, parallel=4):
    if not recs:
        return []
    k = max(1, min(parallel, (len(recs) + 59) // 60))
    parts = [recs[i::k] for i in range(k)]
    with ThreadPoolExecutor(k) as ex:
        outs = list(ex.map(lambda part: _tlc_traces(ctx, cfg, part, label), parts))
    return [j for o in outs for j in o]


def _schedule(rec, upto=None):
    """the stimuli and the visible effects of an execution, compact"""
    out = []
    for e in rec["events"][:upto]:
        if e["ev"] in ("obs", "wb"):
            continue
        out.append(e["ev"] + "".join(f" {k}={v}" for k, v in e.items() if k != "ev"))
    return out


def _short(recs):
    """directed executions first, the shortest first: they make the most readable example"""
    return sorted(recs, key=lambda r: (not str(r["id"]).startswith("dir"), len(r["events"])))


def _known_unsub(ctx, recs, what):
    ex = None
    for part in (_short(recs)[:1], _short(recs)[1:10]):
        if part and ex is None:
            hit = _tlc_traces(ctx, "BleSubs_Trace_exact.cfg", part, "executions with an ignored unsubscribe: notifications started again?", max_inv=1)
            ex = next((j for j in hit if j.get("invariant") == "NotifyExact"), None)
    if ex:
        rec, st = ex["record"], ex.get("last_state") or {}
        sched = _schedule(rec, ex["maxl"] - 1)
        txt = (f"{what} {rec['id']}: BlePairing.unsubscribe is `pass` - pairing.subscriptions still holds {sorted(st.get('subs', []))} while the "
               f"application wants {sorted(st.get('want', []))}; after the reconnection (link {st.get('ln')}) the restore and the start-notify pass "
               f"enabled GATT notifications again for the unsubscribed characteristic(s) {sorted(set(st.get('act', [])) - set(st.get('everw', [])))} "
               f"(event #{ex['maxl'] - 1}), listeners keep being told and every catch-up poll reads them. Schedule: " + "; ".join(sched[-26:]))
    else:
        # no reconnection after the unsubscribe in these executions: show the subscription set that did not change
        def still(r):
            ev = r["events"]
            return next((i for i, e in enumerate(ev) if e["ev"] == "unsub" and i + 1 < len(ev) and ev[i + 1]["ev"] == "obs"
                         and set(e["S"]) & set(ev[i + 1]["subs"])), None)
        rec = next((r for r in _short(recs) if still(r) is not None), None)
        if rec is None:
            return
        k = still(rec)
        txt = (f"{what} {rec['id']}: after {_schedule(rec, k + 1)[-1]} pairing.subscriptions is still {rec['events'][k + 1]['subs']}: "
               f"BlePairing.unsubscribe is `pass`. Schedule: " + "; ".join(_schedule(rec, k + 1)[-12:]))
    if _rejected_by_intended(ctx, rec):
        ctx.violation(txt, {"kind": "trace", "record": rec, "schedule": _schedule(rec)}, signature=SIG_UNSUB)


def _known_crash(ctx, recs, what):
    rec = _short(recs)[0]
    k = next((i for i, e in enumerate(rec["events"]) if e["ev"] == "bgfail" and e.get("cls") == "attr"), None)
    sched = _schedule(rec, (k or 0) + 1)
    txt = (f"{what} {rec['id']}: close()/shutdown() completed (client := None) while the start-notify pass was suspended in start_notify; the "
           f"pass swallowed that characteristic's BleakError and evaluated `self.client.is_connected` for the next one: AttributeError out "
           f"of _async_start_notify_subscriptions, the background task died (event #{(k or 0) + 1}, logged as 'Failure running background "
           f"task'). Schedule: " + "; ".join(sched[-14:]))
    if _rejected_by_intended(ctx, rec):
        ctx.violation(txt, {"kind": "trace", "record": rec, "schedule": _schedule(rec)}, signature=SIG_CRASH)


def _known_stale(ctx, recs, what):
    ex = None
    for part in (_short(recs)[:1], _short(recs)[1:10], _short(recs)[10:120]):
        if part and ex is None:
            hit = _tlc_traces(ctx, "BleSubs_Trace_lost.cfg", part, "executions with a stale _notifications entry: notifications missing?", max_inv=1)
            ex = next((j for j in hit if j.get("invariant") == "NotifyComplete"), None)
    if ex:
        rec, st = ex["record"], ex.get("last_state") or {}
        missing = sorted((set(st.get("subs", [])) - {3}) - set(st.get("act", [])))
        txt = (f"{what} {rec['id']}: start_notify was answered in the loop iteration in which the link was lost - the disconnected callback "
               f"emptied _notifications, then the pass added the iid; after the reconnection (link {st.get('ln')}) everything has settled "
               f"(event #{ex['maxl'] - 1}: no timer, no operation) and _notifications = {sorted(st.get('ntf', []))}, but on the accessory "
               f"notifications are active only for {sorted(st.get('act', []))}: characteristic(s) {missing} of the subscriptions "
               f"{sorted(st.get('subs', []))} get no connected events on this link. Schedule: " + "; ".join(_schedule(rec, ex["maxl"] - 1)[-24:]))
    else:
        rec = _short(recs)[0]
        k = next((i for i, e in enumerate(rec["events"]) if e["ev"] == "sn_res" and e.get("out") == "race"), 0)
        txt = (f"{what} {rec['id']}: after {_schedule(rec, k + 1)[-1]} (start_notify answered and the link lost in the same loop iteration) "
               f"_notifications keeps the iid of the dead link")
    if _rejected_by_intended(ctx, rec):
        ctx.violation(txt, {"kind": "trace", "record": rec, "schedule": _schedule(rec)}, signature=SIG_STALE)


def _features(rec):
    """which recorded departures can matter for this execution: each of them changes the model in exactly one place, and
    that place shows in the record (an unsubscribe call / a background task dying of AttributeError / a start_notify answered
    together with the loss of the link)"""
    u = any(e["ev"] == "unsub" for e in rec["events"])
    c = any(e["ev"] == "bgfail" and e.get("cls") == "attr" for e in rec["events"])
    s = any(e["ev"] == "sn_res" and e.get("out") == "race" for e in rec["events"])
    return ("u" if u else "") + ("c" if c else "") + ("s" if s else "")


def _subsets(f):
    """the sets of departures to try for an execution with features f: all of them first, the intended behaviour last"""
    return ["".join(c) for n in range(len(f), -1, -1) for c in itertools.combinations(f, n)]


def report(ctx, recs, what="execution"):
    """Verdicts for a set of recorded executions."""
    for r in recs:
        if r.get("problems"):
            ctx.violation(f"{what} {r['id']}: the Bluetooth stand-in observed {r['problems'][0]}", {"kind": "trace", "record": r})
    usable = [r for r in recs if not r.get("skipped")]
    ctx.notes["executions_skipped_coincident_timers"] = len(recs) - len(usable)
    # every execution is validated against the intended behaviour (Deviations = {}, all invariants) unless a place where a
    # recorded departure changes the model shows in it: then first against the model with exactly those departures (the
    # invariants they break switched off); what that model does not accept is tried with fewer departures, down to the
    # intended behaviour (a tree in which a finding has been repaired).  Accepted = a behaviour of one of these models.
    pending = {id(r): (r, _subsets(_features(r)), 0) for r in usable}
    first_rej, accepted = {}, {}
    while pending:
        groups = {}
        for r, subs, k in pending.values():
            groups.setdefault(subs[k], []).append(r)
        jobs = []
        for f, rs in sorted(groups.items()):
            n = max(1, (len(rs) + 119) // 120)
            jobs += [(f, rs[i::n]) for i in range(n)]
        with ThreadPoolExecutor(min(5, len(jobs))) as ex:
            outs = list(ex.map(lambda j: _tlc_traces(ctx, f"BleSubs_Trace_{j[0] or 'intended'}.cfg", j[1],
                                                     "trace validation: " + (f"model with the recorded departures [{j[0]}]" if j[0]
                                                                             else "intended behaviour (Deviations = {}), all invariants")), jobs))
        rejected = {}
        for (f, _), o in zip(jobs, outs):
            for j in o:
                j["model"] = f
                rejected[id(j["record"])] = j
        nxt = {}
        for key, (r, subs, k) in pending.items():
            if key not in rejected:
                accepted.setdefault(subs[k], []).append(r)
                continue
            first_rej.setdefault(key, rejected[key])
            if k + 1 < len(subs) and not rejected[key].get("unvalidated"):
                nxt[key] = (r, subs, k + 1)
        pending = nxt
    acc = {id(r) for rs in accepted.values() for r in rs}
    final = [j for key, j in first_rej.items() if key not in acc]
    bad = {id(j["record"]) for j in final}
    detailed = 0
    for j in final:
        rec = j["record"]
        if j.get("unvalidated"):
            continue
        cfg = f"BleSubs_Trace_{j['model'] or 'intended'}.cfg"
        if j.get("invariant"):
            msg = f"{what} {rec['id']} drives BleSubs into a state that violates {j['invariant']}"
        else:
            msg = f"{what} {rec['id']} is not a behaviour of BleSubs: event #{j['maxl']} {j['event']} cannot be explained"
            if detailed < 3:
                detailed += 1
                j["last_state"] = (tracecheck._last_state(TRACE, os.path.join(SPEC, "ble", cfg), rec, j["maxl"]) or {}).get("s")
        ctx.violation(msg, {"kind": "trace", "record": rec, "validated_against": cfg, "first_unexplained": j.get("event"),
                            "position": j.get("maxl"), "invariant": j.get("invariant"), "last_matched_state": j.get("last_state"),
                            "schedule": _schedule(rec, j.get("maxl"))})
    with _acct:
        ctx.trace_ok(len(usable) - len(bad))
    ok = accepted
    ctx.notes["executions_validated_per_model"] = {f or "intended": len(rs) for f, rs in sorted(ok.items())}
    # the recorded findings: one execution each, with its consequence (verdict from the specification: the execution is not
    # a behaviour of the intended model, and the model with the departure reaches a state violating the property)
    todo = [(fn, [r for f, rs in ok.items() if letter in f for r in rs]) for letter, fn in (("u", _known_unsub), ("c", _known_crash), ("s", _known_stale))]
    with ThreadPoolExecutor(3) as ex:
        list(ex.map(lambda x: x[0](ctx, x[1], what) if x[1] else None, todo))
    return final


def _rejected_by_intended(ctx, rec):
    rej = _tlc_traces(ctx, "BleSubs_Trace_intended.cfg", [rec], "the example of a recorded finding against the intended behaviour", max_inv=1)
    return bool(rej)


# ------------------------------------------------------------------ (A) model checking
def _mc_jobs(ctx):
    cover = {}
    lock = threading.Lock()

    def mc(cfg, label, cov):
        def job(c):
            res = c.tlc("ble/BleSubs", cfg, label=label, timeout=1500, coverage=cov, require_cover=False, workers=ctx.pick(4, 8))
            with lock:
                for a, (d, t) in res.coverage.items():
                    cover[a] = cover.get(a, 0) + t
        return job

    def neg(name, inv):
        def job(c):
            res = c.tlc("ble/BleSubs", f"BleSubs_neg_{name}.cfg", expect_violation=True, coverage=False, require_cover=False, workers=2,
                        label=f"departure '{name}' must be refuted ({inv})", timeout=600)
            if res.ok or res.violation.get("name") not in (inv, "temporal"):
                raise MachineryError(f"BleSubs_neg_{name}.cfg no longer violates {inv}: the model has become vacuous")
        return job

    def live(c):
        c.tlc("ble/BleSubs", "BleSubs_Live.cfg", label="liveness under fairness: notifications eventually active for every subscription "
              "while the link lasts (2 characteristics, 2 links, close())", timeout=900, coverage=False, require_cover=False, workers=ctx.pick(4, 8))
    jobs = [mc(cfg, label, cfg in COVERED) for cfg, label in MC]
    if ctx.thorough:
        jobs += [mc(cfg, label, False) for cfg, label in MCT]
    jobs += [live] + [neg(n, i) for n, i in NEG]
    return jobs, cover


def _run_mc(ctx, ex):
    from harness.common import Ctx
    jobs, cover = _mc_jobs(ctx)
    subs, futs = [], []
    for job in jobs:
        sub = Ctx(ctx.pid + "-mc", ctx.tier, ctx.seed)
        subs.append(sub)
        futs.append(ex.submit(job, sub))

    def merge():
        for f in futs:
            f.result()
        for sub in subs:
            ctx.states += sub.states
            ctx.transitions += sub.transitions
            ctx.tlc_runs += sub.tlc_runs
            for what, path in sub.violations:
                try:
                    obj = json.load(open(path)).get("replay")
                    os.remove(path)
                except (OSError, ValueError):
                    obj = None
                ctx.violation(what, obj)
        dead = [a for a in ACTIONS if cover.get(a, 0) == 0]
        if dead:
            raise MachineryError(f"vacuity guard: actions that fired in no exhaustive configuration of BleSubs: {dead}")
    return merge


def _kind(e):
    ev = e["ev"]
    if ev in ("ret", "bgfail"):
        return f"{ev}:{e.get('res', e.get('cls'))}"
    if ev in ("conn_res", "sn_res"):
        return f"{ev}:{e['out']}"
    if ev == "ind":
        return f"ind:{e['d']}"
    return ev


def run(ctx):
    ctx.rule = ("TLC explores BleSubs exhaustively for the listed constants (+ liveness on a small instance); executions of the real "
                "BlePairing = TLC -simulate behaviours replayed as stimuli + seeded random schedules + directed schedules; an execution is "
                "distinct by its recorded event sequence, non-trivial if a start_notify was issued or a listener was told a value")
    ctx.assume("the Bluetooth stand-in of EXTBLE (harness/extble_driver.py): a lost link runs the disconnected callback synchronously and fails "
               "the pending GATT operations with BleakError in the order they were started; start_notify of the fake client is a suspension "
               "point; a characteristic without events refuses start_notify with BleakError and the link stays; no other start_notify "
               "error without loss of the link is injected (the library by design does not retry then)",
               "a conformant accessory sends indications only for characteristics on which notifications are active on the current link; "
               "the GATT callback is called from the event loop",
               "stimuli are applied one at a time and the loop runs until nothing is ready; callers are not cancelled and pair-verify does "
               "not fail (EXTBLE covers both); the answer-and-loss-in-one-iteration race is injected at start_notify only",
               "time advances by waiting less than the next timer's remaining time or by firing the next timer; executions in which two "
               "timers fall due at the same instant are left out (counted)",
               "intended behaviour of unsubscribe: the characteristic leaves pairing.subscriptions; notifications already running may "
               "continue until the link ends (no stop_notify required), later links must not start them again")
    if ctx.replay:
        return _replay(ctx)
    tmp = tempfile.mkdtemp(prefix="extblesub_")
    try:
        nb = ctx.pick(100, 600)
        beh = _behaviours(ctx, tmp, nb, ctx.pick(80, 120), ctx.seed % 100000)
        kinds = {_kind(e) for b in beh for st in b["steps"] for e in st}
        want = EVENT_KINDS - {"obs", "end", "bgfail:attr"}
        if want - kinds:
            raise MachineryError(f"vacuity guard: effects that occur in no simulated behaviour: {sorted(want - kinds)}")
        jobs_b = [(b, ctx.seed * 7 + i, f"beh{i}") for i, b in enumerate(beh)]
        nr = ctx.pick(500, 4000)
        jobs_r = [_rnd_job(ctx.seed, i) for i in range(nr)]
        nd = ctx.pick(90, 450)
        jobs_d = [_dir_job(ctx.seed, i) for i in range(nd)]
        with mp.get_context("fork").Pool(min(12, os.cpu_count() or 4)) as pool:
            recs = pool.map(_replay_behaviour, jobs_b, chunksize=8)
            recs += pool.map(_random_run, jobs_r, chunksize=8)
            recs += pool.map(_directed_run, jobs_d, chunksize=4)
        ctx.notes["behaviours_replayed"] = len(jobs_b)
        ctx.notes["behaviour_stimuli_applied"] = sum(r.get("applied", 0) for r in recs)
        ctx.notes["random_runs"] = nr
        ctx.notes["directed_runs"] = nd
        ctx.notes["events_recorded"] = sum(len(r["events"]) for r in recs)
        cnt = {}
        for r in recs:
            for e in r["events"]:
                k = _kind(e)
                cnt[k] = cnt.get(k, 0) + 1
        ctx.notes["observed"] = dict(sorted(cnt.items()))
        missing = EVENT_KINDS - {"bgfail:attr"} - set(cnt)      # (bgfail:attr only occurs while that finding is unrepaired)
        ctx.notes["loop_exceptions"] = sorted({x for r in recs for x in r.get("loop_exceptions", [])})[:5]
        for r in recs:
            key = json.dumps(r["events"], sort_keys=True)
            ctx.case(key if any(e["ev"] in ("sn_req", "told") for e in r["events"]) else None)
        with ThreadPoolExecutor(ctx.pick(5, 3)) as ex:
            merge = _run_mc(ctx, ex)
            report(ctx, recs)
            merge()
        if missing and not ctx.violations:
            raise MachineryError(f"vacuity guard: effects that occur in no recorded execution: {sorted(missing)}")
        ctx.sample({"recorded_trace_prefix": [e for e in recs[len(jobs_b)]["events"] if e["ev"] != "wb"][:24]})
        if beh:
            ctx.sample({"tlc_behaviour_effects": [e for st in beh[0]["steps"] for e in st][:24]})
        ctx.exhaustive = False
    finally:
        shutil.rmtree(tmp, ignore_errors=True)


def _replay(ctx):
    rep = json.load(open(ctx.replay))
    seed = rep.get("seed", ctx.seed)
    obj = rep.get("replay") or {}
    if obj.get("kind") == "tlc":
        ctx.tlc("ble/BleSubs", obj["cfg"], coverage=False, require_cover=False, label="replay: re-run the TLC configuration")
        return
    rec = obj.get("record") or {}
    rid = str(rec.get("id", ""))
    fresh = None
    m = re.match(r"rnd(\d+)$", rid)
    md = re.match(r"dir(\d+)$", rid)
    if m:
        fresh = _random_run(_rnd_job(seed, int(m.group(1))))
    elif md:
        fresh = _directed_run(_dir_job(seed, int(md.group(1))))
    elif rid.startswith("beh") and rec.get("beh"):
        fresh = _replay_behaviour((rec["beh"], seed * 7 + int(rid[3:]), rid))
    use = fresh or rec
    ctx.notes["replayed"] = "re-executed" if fresh else "recorded trace re-validated"
    ctx.case(json.dumps(use.get("events", [])))
    ctx.sample({"replayed_schedule": _schedule(use)[:40]})
    report(ctx, [use], what="replayed execution")
