"""C18 - BLE broadcast notifications are accepted only if authentic and fresh.

(A) TLC: spec/ble/BleBroadcast.tla - the candidate-state-number algorithm of BlePairing._async_notification
    against the requirement (StepOK) and the named properties OnlyAuthenticFresh / AcceptedDelivered /
    MonotoneLast / ReplayNeverAccepted, exhaustively for W=3 (two pairings, histories <= 3; one pairing,
    histories <= 6) and for the real window W=99 over the offsets of the property's quantifier.
(B) spec -> code: every history of length <= 2 (thorough: 3) over the advertisement classes exported by
    BleBroadcast_Cases, and `tlc -simulate` behaviours of the real-constant model (including the key
    installation step), are sealed by an independent ChaCha20-Poly1305 and fed to the real
    BleController._device_detected; listener calls and description.state_num are compared with the
    specification's after every advertisement.
(C) code -> spec: every execution of (B), seeded random histories over all characteristic formats /
    values / truncations, and sweeps over every single-bit corruption of the 16 sealed bytes are recorded
    and validated by TLC against BleBroadcast_Trace.
"""
from __future__ import annotations

import glob
import json
import multiprocessing as mp
import os
import random
import re
import shutil
import tempfile

from harness import tlc as T
from harness.common import SPEC, MachineryError

AREA = os.path.join(SPEC, "ble")


def _cfg(tmp, name, subst=(), drop_props=False, out=None):
    src = open(os.path.join(AREA, name)).read()
    for a, b in subst:
        if a not in src:
            raise MachineryError(f"{name}: cannot find {a!r}")
        src = src.replace(a, b)
    if drop_props:
        src = re.sub(r"^(PROPERTY|INVARIANT).*\n", "", src, flags=re.M)
    p = os.path.join(tmp, out or name)
    open(p, "w").write(src)
    return p


# ------------------------------------------------------------------ workers (run in forked processes)
def _norm_del(d):
    return [list(x) for x in d]


def _run_history(job):
    """job = dict(id, start, keys, steps=[{a, bit?, trunc?} | {key: p}], expect=[{del, after} | None])"""
    from harness import c18_driver as D
    w = D.new_world(job["start"], job["keys"], tag=job.get("tag", ""))
    events, diverged = [], None
    try:
        for i, st in enumerate(job["steps"]):
            if "key" in st:
                w.install_key(st["key"])
                events.append({"ev": "key", "p": st["key"]})
                continue
            e = w.feed(st["a"], st.get("bit"), st.get("trunc"))
            events.append(e)
            exp = job["expect"][i] if job.get("expect") else None
            if exp is not None and diverged is None:
                if e["del"] != exp["del"] or e["after"] != exp["after"]:
                    diverged = i
    finally:
        w.close()
    return {"id": job["id"], "start": job["start"], "keys": job["keys"], "events": events, "diverged": diverged,
            "src": job.get("src", ""), "tag": job.get("tag", "")}


def _random_history(args):
    """Seeded random history driven against the real code; classes are chosen relative to the state
    the real code shows (description.state_num), so every class of the quantifier keeps being hit."""
    seed, rid, nsteps = args
    from harness import c18_driver as D
    rng = random.Random(seed)
    start = {"A": rng.choice([1, 2, 7, 100, 300, 4242, 30000, 60000, 65436, 65437, 65500, 65534, 65535]),
             "B": rng.choice([1, 9, 500, 61000, 65480])}
    keys = {"A": rng.random() < 0.85, "B": rng.random() < 0.85}
    keys0 = dict(keys)
    w = D.new_world(start, keys, tag=str(seed))
    events, hist = [], []
    try:
        for _ in range(nsteps):
            if (not keys["A"] or not keys["B"]) and rng.random() < 0.15:
                p = rng.choice([n for n in ("A", "B") if not keys[n]])
                w.install_key(p)
                keys[p] = True
                events.append({"ev": "key", "p": p})
                continue
            cur = w.state()
            p = rng.choice(["A", "A", "B"])
            other = "B" if p == "A" else "A"
            cls = rng.choice(["next", "next", "ahead", "ahead", "edge", "beyond", "same", "old", "wrongkey", "foreignkey",
                              "wrongaad", "reroute", "toX", "payload", "tag", "inner", "trunc", "replay", "replay",
                              "otheraddr", "unknownid", "unknownid", "low", "low"])
            if cls == "replay" and hist:
                a, bit, trunc = rng.choice(hist)
                if rng.random() < 0.3:
                    a = dict(a, **{"from": rng.choice(["A", "B", "X"])})
            else:
                lastp = max(cur[p], 0)
                d = {"next": 1, "ahead": rng.randrange(2, 99), "edge": rng.choice([98, 99]), "beyond": rng.choice([100, 101, 150, 1000]),
                     "same": 0, "old": -rng.choice([1, 2, 50, 99, 100, 1000])}.get(cls, rng.choice([1, 1, 2, 5, 99]))
                n = lastp + d
                if cls == "low":                 # a recording from early in the key epoch
                    n = rng.choice([1, 2, 5, rng.randrange(1, 105), 104])
                elif n > 65535:                  # what a wrapped counter would send: last+d - 65535 (1 .. 104)
                    n = n - 65535 if rng.random() < 0.7 else 65535
                elif n < 0:
                    n = lastp + 1
                a = {"from": p, "to": p, "k": p, "aad": p, "n": n, "g": n, "iid": rng.randrange(1, len(D.FORMATS) + 1),
                     "val": rng.randrange(1, D.NVALS + 1), "dmg": "none"}
                bit = trunc = None
                if cls == "wrongkey":
                    a["k"] = other
                elif cls == "foreignkey":
                    a["k"] = "X"
                elif cls == "wrongaad":
                    a["aad"] = rng.choice([other, "X"])
                elif cls == "reroute":
                    a["to"] = other
                elif cls == "toX":
                    a["to"] = "X"
                    a["from"] = rng.choice(["A", "B", "X"])
                elif cls == "otheraddr":       # genuine, but received from another BLE address
                    a["from"] = rng.choice([other, "X"])
                elif cls == "unknownid":       # header id of no loaded pairing, received from a pairing's address
                    a["to"] = "X"
                    a["aad"] = rng.choice(["X", "X", p])
                    a["k"] = rng.choice([p, p, "X"])
                    a["from"] = rng.choice([p, p, other])
                elif cls == "payload":
                    a["dmg"] = "payload"
                    bit = rng.randrange(96)
                elif cls == "tag":
                    a["dmg"] = "tag"
                    bit = 96 + rng.randrange(32)
                elif cls == "inner":
                    g = n + rng.choice([1, -1, 2, 256, -256])
                    a["g"] = g if 0 <= g <= 65535 and g != n else n + 1
                elif cls == "trunc":
                    a["dmg"] = "payload"
                    trunc = rng.choice([0, 1, 2, 3, 4, 5, 8, 12, 15, 17, 20])
            hist.append((a, bit, trunc))
            events.append(w.feed(dict(a), bit, trunc))
    finally:
        w.close()
    return {"id": rid, "start": start, "keys": keys0, "events": events, "diverged": None, "src": "random", "tag": str(seed)}


def _bit_sweep(args):
    """Every single-bit corruption of the 16 sealed bytes of a fresh genuine notification, then the
    notification itself, then every single-bit corruption again (now of a replay)."""
    seed, rid = args
    from harness import c18_driver as D
    rng = random.Random(seed)
    start = {"A": rng.choice([1, 77, 12345, 65500]), "B": 5}
    keys = {"A": True, "B": True}
    w = D.new_world(start, keys, tag=str(seed))
    events = []
    try:
        d = rng.choice([1, 1, 2, 50, 99])
        n = min(start["A"] + d, 65535)
        base = {"from": "A", "to": "A", "k": "A", "aad": "A", "n": n, "g": n, "iid": rng.randrange(1, len(D.FORMATS) + 1),
                "val": rng.randrange(1, D.NVALS + 1), "dmg": "none"}
        for rnd in range(2):
            for bit in range(128):
                a = dict(base, dmg="payload" if bit < 96 else "tag")
                events.append(w.feed(a, bit))
            events.append(w.feed(dict(base)))
    finally:
        w.close()
    return {"id": rid, "start": start, "keys": keys, "events": events, "diverged": None, "src": "bitsweep", "tag": str(seed)}


# ------------------------------------------------------------------ inputs from TLC
def _jobs_from_cases(path):
    jobs = []
    for k, line in enumerate(open(path)):
        c = json.loads(line)
        start = {"A": c["start"], "B": c["start"]}
        jobs.append({"id": f"case{k}", "start": start, "keys": {"A": True, "B": True}, "src": "case",
                     "steps": [{"a": s["a"]} for s in c["steps"]],
                     "expect": [{"del": _norm_del(s["del"]), "after": s["after"]} for s in c["steps"]]})
    return jobs


def _jobs_from_behaviours(ctx, tmp, num, depth):
    cfg = os.path.join(AREA, "BleBroadcast_sim.cfg")
    d = os.path.join(tmp, "sim")
    os.makedirs(d, exist_ok=True)
    ctx.tlc("ble/BleBroadcast", cfg, simulate=f"file={d}/b,num={num}", depth=depth, seed=ctx.seed % 1000003, workers=1,
            coverage=False, require_cover=False, label="simulate (W=99): behaviours for replay", timeout=600)
    jobs = []
    for f in sorted(glob.glob(d + "/b_*")):
        sts = T.parse_sim_file(f)
        if not sts:
            continue
        s0 = sts[0][1]
        job = {"id": "beh" + os.path.basename(f), "start": dict(s0["last"]), "keys": {k: bool(v) for k, v in s0["key"].items()},
               "src": "behaviour", "steps": [], "expect": []}
        for _, st in sts[1:]:
            o = st["out"]
            if o["kind"] == "key":
                job["steps"].append({"key": o["why"]})
                job["expect"].append(None)
            elif o["kind"] == "adv":
                a = dict(o["a"])
                if a["n"] > 65535 or a["g"] > 65535:
                    break
                job["steps"].append({"a": a})
                job["expect"].append({"del": _norm_del(o["del"]), "after": dict(st["last"])})
        if job["steps"]:
            jobs.append(job)
    shutil.rmtree(d, ignore_errors=True)
    return jobs


# ------------------------------------------------------------------ trace validation
def _validate(ctx, tmp, recs, label):
    """-> list of (record, position, property name or None)"""
    bad = []
    chunk = 20000
    for off in range(0, len(recs), chunk):
        part = recs[off:off + chunk]
        tf = os.path.join(tmp, f"trace_{off}.ndjson")
        with open(tf, "w") as f:
            for r in part:
                f.write(json.dumps({"start": r["start"], "keys": r["keys"], "events": [
                    {k: v for k, v in e.items() if k in ("ev", "a", "del", "after", "p")} for e in r["events"]]}) + "\n")
        res = ctx.tlc("ble/BleBroadcast_Trace", "BleBroadcast_Trace.cfg", env={"TRACE_FILE": tf, "DBG_L": "0"}, workers=1,
                      coverage=False, require_cover=False, expect_violation=True, timeout=1500,
                      label=f"{label} ({len(part)} executions)")
        if not res.ok:
            raise MachineryError(f"trace validation failed: {res.violation['kind']}\n{res.stdout[-2000:]}")
        rej = [(int(a), int(b)) for a, b in re.findall(r'<<"REJECTED", (\d+), (\d+)>>', res.stdout)]
        for tid, maxl in rej:
            bad.append([part[tid - 1], maxl, None])
        ctx.trace_ok(len(part) - len(rej))
        os.unlink(tf)
    # name the violated property for the first few rejected executions
    for item in bad[:4]:
        one = os.path.join(tmp, "one.ndjson")
        r = item[0]
        open(one, "w").write(json.dumps({"start": r["start"], "keys": r["keys"], "events": [
            {k: v for k, v in e.items() if k in ("ev", "a", "del", "after", "p")} for e in r["events"]]}) + "\n")
        res = T.run(os.path.join(AREA, "BleBroadcast_Trace.tla"), os.path.join(AREA, "BleBroadcast_Trace_one.cfg"), workers=1,
                    coverage=False, env={"TRACE_FILE": one, "DBG_L": "0"}, timeout=300)
        if not res.ok and res.violation:
            item[2] = res.violation["name"]
    return bad


def _replay(ctx, tmp):
    """./check C18 --replay file: feed the recorded history to the tree under test again and validate"""
    data = json.load(open(ctx.replay))["replay"]
    r0 = data["record"]
    steps = [{"key": e["p"]} if e["ev"] == "key" else {"a": e["a"], "bit": e.get("bit"), "trunc": e.get("trunc")} for e in r0["events"]]
    rec = _run_history({"id": r0["id"], "start": r0["start"], "keys": r0["keys"], "steps": steps, "src": r0.get("src", "replay"),
                        "tag": r0.get("tag", "")})
    for e in rec["events"]:
        print("replay:", json.dumps(e)[:300])
    ctx.case(json.dumps(rec["events"], sort_keys=True))
    for r, pos, prop in _validate(ctx, tmp, [rec], "replayed history"):
        ev = r["events"][pos - 1] if 0 < pos <= len(r["events"]) else None
        ctx.violation(f"replayed execution {r['id']}: step {pos} is not allowed by BleBroadcast"
                      + (f" (property {prop[1:] if prop.startswith('T') else prop})" if prop else "") + f": {json.dumps(ev)[:400]}",
                      {"kind": "trace", "record": r, "position": pos, "property": prop})


def run(ctx):
    ctx.rule = ("histories of symbolic advertisements (to, key, aad, nonce state number, inner state number, iid, value, "
                "damage) enumerated by TLC (all histories up to the case depth, -simulate behaviours) or drawn from the "
                "seeded driver; an execution is distinct by its recorded event sequence, non-trivial if it has >= 1 "
                "advertisement")
    ctx.assume("ideal AEAD in the model: a 4-byte-tag forgery / damaged payload never authenticates (probability 2^-32 per "
               "candidate state number on the real code; the driver is seeded, so a run is reproducible)",
               "the broadcast sealer in harness/c18_driver.py (ChaCha20-Poly1305 from `cryptography`) is the reference for "
               "'genuine'",
               "advertisements beyond the window (state number > last+99) may be accepted or ignored (weaker reading); "
               "state-number wrap-around at 65535 is outside the histories checked",
               "key derivation is exercised through the real pair-verify generator and "
               "_async_set_broadcast_encryption_key with the GATT request stubbed out")
    tmp = tempfile.mkdtemp(prefix="c18_")
    try:
        if ctx.replay:
            return _replay(ctx, tmp)
        # ---------------- (A) design level
        small = _cfg(tmp, "BleBroadcast_small.cfg", () if ctx.thorough else (("MaxSteps = 3", "MaxSteps = 2"),))
        ctx.tlc("ble/BleBroadcast", small, label=f"W=3, two pairings + unknown id/key, any advertiser address, histories <= "
                f"{ctx.pick(2, 3)}, exhaustive", timeout=1500)
        deep = _cfg(tmp, "BleBroadcast_deep.cfg", (("MaxSteps = 6", "MaxSteps = 7"),) if ctx.thorough else ())
        ctx.tlc("ble/BleBroadcast", deep, ignore_cover=("InstallKey",), label="W=3, one pairing, histories <= 6/7, exhaustive",
                timeout=900)
        # W=99: histories <= 2 (quick: from 65500; thorough: from 1000 and 65500), thorough also histories <= 3 from 65500
        real = _cfg(tmp, "BleBroadcast_real.cfg", (("MaxSteps = 3", "MaxSteps = 2"),)
                    + (() if ctx.thorough else (("Starts = {1000, 65500}", "Starts = {65500}"),)))
        ctx.tlc("ble/BleBroadcast", real, ignore_cover=("InstallKey",), timeout=1500,
                label="W=99, offsets of the quantifier + early recordings, histories <= 2, exhaustive")
        if ctx.thorough:
            real3 = _cfg(tmp, "BleBroadcast_real.cfg", (("Starts = {1000, 65500}", "Starts = {65500}"),), out="real3.cfg")
            ctx.tlc("ble/BleBroadcast", real3, ignore_cover=("InstallKey",), timeout=2400,
                    label="W=99, offsets of the quantifier + early recordings, last starting at 65500, histories <= 3, exhaustive")
        # ---------------- (B) histories from TLC
        cases_out = os.path.join(tmp, "cases.ndjson")
        ctx.tlc("ble/BleBroadcast_Cases", _cfg(tmp, "BleBroadcast_Cases.cfg"), env={"CASES_OUT": cases_out},
                label="case export (W=99): histories <= 2 from last in {1, 2, 100, 65436, 65437, 65500, 65534, 65535}",
                timeout=1500, require_cover=False)
        jobs = _jobs_from_cases(cases_out)
        if ctx.thorough:
            cases3 = os.path.join(tmp, "cases3.ndjson")
            ccfg = _cfg(tmp, "BleBroadcast_Cases.cfg", (("CaseDepth = 2", "CaseDepth = 3"),
                                                        ("Starts = {1, 2, 100, 65436, 65437, 65500, 65534, 65535}", "Starts = {300, 65500}")),
                        out="cases3.cfg")
            ctx.tlc("ble/BleBroadcast_Cases", ccfg, env={"CASES_OUT": cases3}, timeout=2400, require_cover=False,
                    label="case export (W=99): histories <= 3 from last in {300, 65500}")
            more = _jobs_from_cases(cases3)
            for j in more:
                j["id"] = "d3" + j["id"]
            jobs += more
        if not jobs:
            raise MachineryError("no cases exported")
        ncases = len(jobs)
        jobs += _jobs_from_behaviours(ctx, tmp, ctx.pick(20, 150), ctx.pick(10, 12))
        nbeh = len(jobs) - ncases
        if nbeh == 0:
            raise MachineryError("no behaviours produced by tlc -simulate")
        nrand = ctx.pick(250, 3000)
        nsweep = ctx.pick(2, 24)
        with mp.get_context("fork").Pool(min(16, os.cpu_count() or 4)) as pool:
            recs = pool.map(_run_history, jobs, chunksize=16)
            rrecs = pool.map(_random_history, [(ctx.seed * 1000003 + i, f"rnd{i}", ctx.rng.choice([6, 10, 16])) for i in range(nrand)],
                             chunksize=4)
            recs += rrecs
            recs += pool.map(_bit_sweep, [(ctx.seed * 7919 + i, f"sweep{i}") for i in range(nsweep)], chunksize=1)
        nadv = sum(1 for r in recs for e in r["events"] if e["ev"] == "adv")
        ctx.notes["histories_from_cases"] = ncases
        ctx.notes["histories_from_behaviours"] = nbeh
        ctx.notes["random_histories"] = nrand
        ctx.notes["bit_sweeps"] = nsweep
        ctx.notes["advertisements_fed"] = nadv
        ctx.notes["accepted_by_real_code"] = sum(1 for r in recs for e in r["events"] if e["ev"] == "adv" and e["del"])
        ctx.notes["formats_delivered"] = sorted({e["a"]["iid"] for r in recs for e in r["events"] if e["ev"] == "adv" and e["del"]})
        excs = [(r["id"], e["exc"]) for r in recs for e in r["events"] if e.get("exc")]
        ctx.notes["callback_exceptions"] = excs[:5]
        for r in recs:
            ctx.case(json.dumps(r["events"], sort_keys=True) if any(e["ev"] == "adv" for e in r["events"]) else None)
        diverged = [r for r in recs if r.get("diverged") is not None]
        # ---------------- (C) the verdict: TLC on the recorded executions
        bad = _validate(ctx, tmp, recs, "trace validation BleBroadcast_Trace")
        bad_ids = {b[0]["id"] for b in bad}
        ctx.notes["diverged_from_algorithm_but_allowed"] = sum(1 for r in diverged if r["id"] not in bad_ids)
        for r, pos, prop in bad:
            ev = r["events"][pos - 1] if 0 < pos <= len(r["events"]) else None
            what = (f"execution {r['id']} ({r['src']}): step {pos} is not allowed by BleBroadcast"
                    + (f" (property {prop[1:] if prop and prop.startswith('T') else prop})" if prop else "")
                    + f": advertisement {ev.get('a') if ev else None} -> listener calls {ev.get('del') if ev else None}, "
                    f"state numbers {ev.get('after') if ev else None}"
                    + (f", callback raised {ev['exc']}" if ev and ev.get("exc") else ""))
            ctx.violation(what, {"kind": "trace", "record": r, "position": pos, "property": prop})
        good = [r for r in recs if r["id"] not in bad_ids]
        for src in ("case", "behaviour", "random", "bitsweep"):
            for r in good:
                if r["src"] == src and any(e.get("del") for e in r["events"]):
                    ctx.sample({src: {"start": r["start"], "keys": r["keys"], "events": r["events"][:6]}})
                    break
        ctx.exhaustive = False
    finally:
        shutil.rmtree(tmp, ignore_errors=True)
