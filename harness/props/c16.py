"""C16 - structured TLV8 messages (aiohomekit/tlv8.py and every TLVStruct subclass of the package).

(A) TLC: spec/codec/TlvStruct (encode -> wire -> decode pipeline at byte level, with the iterator's
    look-ahead and the list splitter as the code has them) on generic schemas that exercise every
    field kind, with FRAG = 3 (exhaustive within the bound profiles): StructRoundTrip, Canonical,
    OnBoundary.
(B) spec -> code: the same generic schemas with FRAG = 255 on the property's boundary sizes, and the
    schemas of the *real* classes (derived by reflection at check time) on a covering family of
    values; every case TLC exports (value + prescribed wire image) is replayed on the real code:
    encode() must produce exactly these bytes, decode(bytes) must return exactly this value.  The
    generic schemas are replayed through real TLVStruct dataclasses built from the exported schemas.
    Struct-valued characteristics (model Characteristic.value, incl. the `array` form) are driven
    with the same cases.
(C) code -> spec: seeded random values of every real class (library producer) and random /
    systematic accessory-side messages (reference encoder: BLE signatures, CoAP databases with
    1..3 accessories x services x characteristics, linked-service lists with every byte value) are
    run through the real code; (value, bytes, decoded value) records are validated by TLC against
    TlvStruct_Trace.
(H) decoding over a history of calls (spec/codec/TlvStructHist.tla: a heap of decoded objects must refine value
    semantics - DecodeIsFunctionOfBytes; TLC verifies it for fresh objects and refutes the memoised-decode deviation):
    for every exported case the first result is overwritten completely and the same bytes are decoded again, every
    message node of a result gets its own write and must read back its own value (identical sub-messages do not
    share state); struct-valued characteristics are read, edited and read again; seeded decode/write/observe
    histories and the real CoAP get_accessory_info on reference-encoded bridge databases with byte-identical
    accessories (a value per (accessory, characteristic) held by the reference accessory, two connections, fresh
    re-decodes) are recorded and validated by TLC against TlvStructHist_Trace.  Only wrong field values count: a
    cache that hands out fresh copies, or immutable messages, are quiet.
"""
from __future__ import annotations

import base64
import json
import os
import random
import shutil
import tempfile

from harness import c16_schema as S
from harness.common import MachineryError
from harness.refacc import tlv as rtlv


# stable signatures of the two failure classes found on the unchanged tree (used only if they are ever
# listed in known_findings.json instead of being repaired)
SIGNATURES = {"packed-ids": "tlv8: Sequence[int] field (packed id list) fed to the TLV list splitter",
              "dup-tag": "meshcop: two fields declared with the same TLV type"}


HISTORY_REASONS = {'identical sub-messages inside one decoded message share state (a write to one changes the other)', 'decoded message left the message type after writes', 'decode / write / decode history raised', 'accessory database left the message type after get_accessory_info', 'get_accessory_info raised on a reference-encoded bridge database', 'decode() of the same bytes after an earlier result was modified raised / left the message type', 'array-valued characteristic: 2nd read after the 1st result was edited != encoded items', 'get_accessory_info reports a value the reference accessory does not hold for that characteristic', 'struct-valued characteristic: 2nd read after the 1st result was edited != encoded message', 'decode() of the same bytes after an earlier result was modified != message'}


# ------------------------------------------------------------------ reporting (grouped)
class _Reporter:
    """Many cases fail for the same reason; one violation per (cause, symptom) with the smallest example."""

    def __init__(self, ctx, schemas):
        self.ctx, self.schemas = ctx, schemas
        self.groups = {}

    def _has_ids(self, c, val):
        for f, o in zip(self.schemas[c - 1]["fields"], val):
            if not o:
                continue
            if f["kind"] == "ids":
                return f["name"]
            if f["kind"] == "struct":
                r = self._has_ids(f["inner"], o[0])
                if r:
                    return r
            if f["kind"] == "seq":
                for it in o[0]:
                    r = self._has_ids(f["inner"], it)
                    if r:
                        return r
        return None

    def cause(self, case):
        s = self.schemas[case["c"] - 1]
        tags = [f["tag"] for f in s["fields"]]
        if any(o and tags.count(f["tag"]) > 1 for f, o in zip(s["fields"], case["val"])):
            return f"{s['name']}: two fields share a TLV type", "dup-tag"
        ids = self._has_ids(case["c"], case["val"])
        if ids:
            return f"packed integer list ({ids}: Sequence[int])", "packed-ids"
        return s["name"], None

    def fail(self, reason, case, detail, history=False):
        cause, code = self.cause(case)
        if history or reason in HISTORY_REASONS or reason.startswith("decode history rejected"):     # the first decode of these bytes was right: not one of the recorded per-message findings
            cause, code = "decode over a history of calls", None
        key = (cause, reason)
        g = self.groups.setdefault(key, {"n": 0, "first": None, "detail": detail, "classes": set(), "size": None,
                                         "sig": SIGNATURES.get(code)})
        g["n"] += 1
        g["classes"].add(self.schemas[case["c"] - 1]["name"].rsplit(".", 1)[-1])
        size = len(json.dumps(case["val"]))
        if g["size"] is None or size < g["size"]:
            g["first"], g["detail"], g["size"] = case, detail, size

    def flush(self):
        for (cause, reason), g in sorted(self.groups.items()):
            cl = sorted(g["classes"])
            self.ctx.violation(f"{cause}: {reason} - {g['n']} case(s) in {', '.join(cl[:6])}{'...' if len(cl) > 6 else ''}; "
                               f"smallest: {g['detail']}",
                               {"kind": "struct_case", "cause": cause, "reason": reason, "case": g["first"], "count": g["n"],
                                "schemas": self.schemas},
                               signature=g["sig"])
        self.groups = {}


def _short(b, n=24):
    b = bytes(b)
    return b.hex() if len(b) <= n else f"{b[:n].hex()}..({len(b)} bytes)"


# ------------------------------------------------------------------ (B) replay of one exported case
def _replay(ctx, rep, classes, schemas, case, extra=None):
    c, mode, val, wire = case["c"], case["mode"], case["val"], bytes(case["wire"])
    cls = classes[c - 1]
    name = schemas[c - 1]["name"]
    nontrivial = any(val)
    ctx.case((name, mode, case["pol"], json.dumps(val)) if nontrivial else None)
    slim = {"c": c, "class": name, "mode": mode, "pol": case["pol"], "val": val, "wire": wire}
    if cls is None:                                   # synthetic wrapper (array-valued characteristic)
        if extra:
            extra(slim, None)
        ctx.trace_ok()
        return
    try:
        inst = S.to_instance(classes, schemas, c, val)
    except Exception as ex:  # noqa: BLE001
        raise MachineryError(f"cannot build {name} from {val}: {ex!r}") from ex
    if mode == "lib":
        try:
            enc = inst.encode()
        except Exception as ex:  # noqa: BLE001
            rep.fail("encode() raised", slim, f"{type(ex).__name__}: {ex}")
            enc = None
        if enc is not None and bytes(enc) != wire:
            rep.fail("encode() differs from the canonical layout", slim,
                     f"got {_short(enc)}, specification {_short(wire)}")
    try:
        dec = cls.decode(wire)
    except Exception as ex:  # noqa: BLE001
        rep.fail(f"decode() raised on the {'canonical encoding' if mode == 'lib' else 'message of a conformant accessory'}",
                 slim, f"{type(ex).__name__}: {ex} on {_short(wire)}")
        return
    try:
        got = S.from_instance(classes, schemas, c, dec)
    except S.Unrepresentable as ex:
        rep.fail("decode() returned a value outside the message type", slim, f"{ex} on {_short(wire)}")
        return
    if got != val:
        diff = [schemas[c - 1]["fields"][k]["name"] for k in range(len(val)) if got[k] != val[k]]
        k = [k for k in range(len(val)) if got[k] != val[k]][0]
        rep.fail("decode(encoding) != message", slim,
                 f"fields {diff}: decoded {str(got[k])[:120]}, encoded {str(val[k])[:120]} (wire {_short(wire)})")
        return
    if dec != inst:
        rep.fail("decoded dataclass compares unequal to the encoded one", slim, f"{dec!r:.200} != {inst!r:.200}")
        return
    if not _history_probe(ctx, rep, classes, schemas, slim, cls, inst, dec):
        return
    if extra:
        extra(slim, inst)
    ctx.trace_ok()


def _history_probe(ctx, rep, classes, schemas, slim, cls, inst, first):
    """Decoding is a function of the bytes over a history (spec/codec/TlvStructHist.tla):
    (1) the first result is overwritten completely, the same bytes are decoded again -> still the specified value;
    (2) every message node of the new result gets its own write; each node must read back its own value
        (identical sub-messages inside one message do not share state)."""
    c, val, wire = slim["c"], slim["val"], slim["wire"]
    rng = ctx.rng
    try:
        S.scribble(rng, classes, schemas, c, first)
        second = cls.decode(wire)
        got = S.from_instance(classes, schemas, c, second)
    except Exception as ex:  # noqa: BLE001
        rep.fail("decode() of the same bytes after an earlier result was modified raised / left the message type", slim,
                 f"{type(ex).__name__}: {ex}")
        return False
    if got != val or second != inst:
        k = [k for k in range(len(val)) if got[k] != val[k]]
        rep.fail("decode() of the same bytes after an earlier result was modified != message", slim,
                 (f"field {schemas[c - 1]['fields'][k[0]]['name']}: decoded {str(got[k[0]])[:100]}, encoded {str(val[k[0]])[:100]}" if k
                  else f"library state differs: {second!r:.160}") + f" (wire {_short(wire)})")
        return False
    try:
        nodes = S.node_paths(schemas, c, S.node_of(classes, schemas, c, second))
        if len(nodes) > 1:
            written = []
            for n, (path, nc, node) in enumerate(nodes):
                ws = [w for w in S.possible_writes(rng, classes, schemas, nc, node) if w[0] in ("x", "s")]
                ws = [w for w in ws if w[0] == "x"] or [w for w in ws if schemas[nc - 1]["fields"][w[1] - 1]["kind"] in ("bytes", "str")] or ws
                if not ws:
                    written.append(None)
                    continue
                kind, j, _ = ws[0]
                fs = schemas[nc - 1]["fields"][j - 1] if j else None
                w = [(n * 7 + 1) % 256] * (fs["w"] if fs and fs["kind"] == "int" else 1) if kind == "x" or fs["kind"] != "enum" else [fs["vals"][n % len(fs["vals"])]]
                if fs and fs["kind"] == "str":
                    w = [97 + n % 26, 48 + (n // 26) % 10]
                try:
                    S.apply_write(classes, schemas, c, second, path, kind, j, w)
                except S.NotWritable:               # immutable messages cannot share state observably
                    written.append(None)
                    continue
                written.append((kind, j, w))
            after = {tuple(map(tuple, p)): nd for p, _, nd in S.node_paths(schemas, c, S.node_of(classes, schemas, c, second))}
            for (path, nc, node), wr in zip(nodes, written):
                if wr is None:
                    continue
                kind, j, w = wr
                nd = after.get(tuple(map(tuple, path)))
                seen = None if nd is None else (nd["x"] if kind == "x" else nd["f"][j - 1])
                if seen != [w]:
                    rep.fail("identical sub-messages inside one decoded message share state (a write to one changes the other)", slim,
                             f"wrote {w} at node {path}, it now reads {seen} (wire {_short(wire)})")
                    return False
    except S.Unrepresentable as ex:
        rep.fail("decoded message left the message type after writes", slim, str(ex))
        return False
    return True


# ------------------------------------------------------------------ struct-valued characteristics
def _struct_characteristics(classes):
    """{class: [(uuid, array?)]} from the characteristic metadata table."""
    from aiohomekit.model.characteristics.data import characteristics as table
    out = {}
    for uuid, d in table.items():
        if d.get("struct") is not None:
            out.setdefault(d["struct"], []).append((uuid, bool(d.get("array"))))
    return out


def _model_char(uuid, raw: bytes):
    from aiohomekit.model import Accessory
    acc = Accessory.create_with_info(1, "n", "m", "model", "sn", "1.0")
    svc = acc.add_service("00000110-0000-1000-8000-0026BB765291")
    ch = svc.add_char(uuid)
    ch.format = "tlv8"
    ch._value = base64.b64encode(raw).decode("ascii")
    return ch


# ------------------------------------------------------------------ (C) random values
_BOUNDARY = [1, 2, 3, 7, 16, 64, 253, 254, 255, 256, 257, 300, 509, 510, 511, 512, 600, 765, 766, 1021]


def _rand_bytes(rng, n):
    r = rng.random()
    if r < 0.15:
        return [0] * n
    if r < 0.3:
        return [255] * n
    if r < 0.4:
        return [rng.choice([0, 255, 1, 16])] * n
    return [rng.randrange(256) for _ in range(n)]


def _rand_str(rng, n):
    """UTF-8 bytes of a string of about n bytes with multi-byte characters."""
    out = bytearray()
    alphabet = ["a", "Z", "0", " ", "é", "€", "\U0001f600", "\x00", "\x7f", "Ā"]
    while len(out) < n:
        ch = rng.choice(alphabet).encode("utf-8")
        if len(out) + len(ch) > n:
            ch = b"x"
        out += ch
    return list(out)


def _rand_struct(rng, schemas, c, mode, depth, big=0.25):
    fs = schemas[c - 1]["fields"]
    val = []
    for f in fs:
        k = f["kind"]
        if k == "none" or rng.random() < 0.3:
            val.append([])
            continue
        if k == "int":
            x = rng.choice([[0] * f["w"], [255] * f["w"], [rng.randrange(256) for _ in range(f["w"])],
                            [rng.randrange(256) for _ in range(f["w"])]])
        elif k == "enum":
            x = [rng.choice(f["vals"])]
        elif k in ("bytes", "str"):
            n = rng.choice(_BOUNDARY) if rng.random() < big else rng.randrange(1, 12)
            if mode == "acc" and rng.random() < 0.1:
                n = 0
            x = _rand_bytes(rng, n) if k == "bytes" else _rand_str(rng, n)
        elif k == "struct":
            if depth <= 0:
                val.append([])
                continue
            x = _rand_struct(rng, schemas, f["inner"], mode, depth - 1, big * 0.6)
            if mode == "lib" and not S.ref_encode(schemas, f["inner"], x, "lib"):
                val.append([])
                continue
        elif k == "seq":
            if depth <= 0:
                val.append([])
                continue
            n = rng.choice([1, 1, 2, 3]) if mode == "lib" or rng.random() < 0.9 else 0
            x = []
            for _ in range(n):
                it = _rand_struct(rng, schemas, f["inner"], mode, depth - 1, big * 0.6)
                if S.ref_encode(schemas, f["inner"], it, mode):
                    x.append(it)
            if not x and mode == "lib":
                val.append([])
                continue
            if x and rng.random() < 0.2:      # items without any field set (zero bytes) in first / middle position
                for _ in range(rng.randrange(1, 3)):
                    x.insert(rng.randrange(len(x)), [[] for _ in schemas[f["inner"] - 1]["fields"]])
        elif k == "ids":
            n = rng.randrange(1 if mode == "lib" else 0, 7)
            x = [rng.choice([[rng.randrange(256), 0], [rng.randrange(256), rng.randrange(256)], [0, 0], [255, 255],
                             [f["tag"], 0], [0, f["tag"]], [16, 0], [0, 1]])[:f["w"]] + [0] * max(0, f["w"] - 2)
                 for _ in range(n)]
        val.append([x])
    return val


def _db_value(rng, schemas, idx, na, ns, nc, link_counts):
    """Abstract value of a Pdu09Database with the given shape (realistic field contents)."""
    def sch(name):
        return schemas[idx[name] - 1]["fields"]

    def build(name, d):
        return [[d[f["name"]]] if f["name"] in d else [] for f in sch(name)]
    iid = [0]

    def nxt():
        iid[0] += rng.choice([1, 1, 2, 17, 250])
        return list((iid[0] % 65536).to_bytes(2, "little"))
    accs = []
    for a in range(na):
        svcs = []
        svc_ids = []
        for _ in range(ns):
            chars = []
            sid = nxt()
            svc_ids.append(sid)
            for _ in range(nc):
                fmt = rng.choice([0x01, 0x04, 0x06, 0x08, 0x0A, 0x10, 0x14, 0x19, 0x1B])
                d = {"type": _rand_bytes(rng, 16) if rng.random() < 0.3 else [rng.randrange(256), rng.randrange(3)] + [0] * 14,
                     "instance_id": nxt(), "properties": [rng.choice([0x10, 0x30, 0xB0, 0x90]), rng.choice([0, 1, 3])],
                     "presentation_format": [fmt, 0, rng.choice([0x00, 0x2F, 0xAD]), 0x27, 1, 0, 0]}
                if rng.random() < 0.4:
                    d["user_descriptor"] = _rand_str(rng, rng.choice([5, 20, 254, 255, 256, 300]))
                if rng.random() < 0.3:
                    d["valid_values"] = _rand_bytes(rng, rng.randrange(1, 6))
                chars.append(build("Pdu09CharacteristicContainer", {"characteristic": build("Pdu09Characteristic", d)}))
            nl = rng.choice(link_counts)
            sd = {"type": [rng.randrange(256), 0] + [0] * 14, "instance_id": sid, "_characteristics": chars,
                  "properties": [rng.randrange(8), 0],
                  "linked_services": [rng.choice(svc_ids + [nxt()]) for _ in range(nl)]}
            if rng.random() < 0.2:
                del sd["linked_services"]
            svcs.append(build("Pdu09ServiceContainer", {"service": build("Pdu09Service", sd)}))
        accs.append(build("Pdu09AccessoryContainer",
                          {"accessory": build("Pdu09Accessory", {"instance_id": [a + 1, 0], "_services": svcs})}))
    return build("Pdu09Database", {"_accessories": accs})


def _u16(b):
    return int.from_bytes(bytes(b), "little")


def _db_projection(schemas, idx, val):
    """What to_dict() of the decoded database must show of the encoded structure (ids, types, links)."""
    def get(name, v, field):
        for f, o in zip(schemas[idx[name] - 1]["fields"], v):
            if f["name"] == field:
                return o[0] if o else None
        raise KeyError(field)
    out = []
    for ac in get("Pdu09Database", val, "_accessories"):
        a = get("Pdu09AccessoryContainer", ac, "accessory")
        svcs = []
        for sc in get("Pdu09Accessory", a, "_services"):
            s = get("Pdu09ServiceContainer", sc, "service")
            chars = []
            for cc in get("Pdu09Service", s, "_characteristics"):
                ch = get("Pdu09CharacteristicContainer", cc, "characteristic")
                chars.append({"type": f"{_u16(get('Pdu09Characteristic', ch, 'type')):X}",
                              "iid": _u16(get("Pdu09Characteristic", ch, "instance_id"))})
            d = {"type": f"{_u16(get('Pdu09Service', s, 'type')):X}", "iid": _u16(get("Pdu09Service", s, "instance_id")),
                 "characteristics": chars}
            links = get("Pdu09Service", s, "linked_services")
            if links:
                d["linked"] = [_u16(x) for x in links]
            svcs.append(d)
        out.append({"aid": _u16(get("Pdu09Accessory", a, "instance_id")), "services": svcs})
    return out


def _project_to_dict(td):
    out = []
    for a in td:
        svcs = []
        for s in a["services"]:
            d = {"type": s["type"], "iid": s["iid"],
                 "characteristics": [{"type": c["type"], "iid": c["iid"]} for c in s["characteristics"]]}
            if "linked" in s:
                d["linked"] = list(s["linked"])
            svcs.append(d)
        out.append({"aid": a["aid"], "services": svcs})
    return out


# ------------------------------------------------------------------ (C') histories of decode calls
def _dup_items(rng, schemas, c, val):
    """Make list items byte-identical (identical sub-messages inside one message)."""
    out = []
    for f, o in zip(schemas[c - 1]["fields"], val):
        if not o:
            out.append(o)
        elif f["kind"] == "struct":
            out.append([_dup_items(rng, schemas, f["inner"], o[0])])
        elif f["kind"] == "seq" and o[0]:
            items = [_dup_items(rng, schemas, f["inner"], it) for it in o[0]]
            if rng.random() < 0.7:
                items = [items[0]] * rng.choice([2, 3]) + (items[1:] if rng.random() < 0.3 else [])
            out.append([items])
        else:
            out.append(o)
    return out


def _history(rng, classes, schemas, c, wire, nmut):
    """decode / write / observe on the real code; returns the list of operations for TlvStructHist_Trace."""
    cls = classes[c - 1]
    ops, res = [], []

    def dec():
        res.append(cls.decode(wire))
        ops.append(["D"])

    def obs(k):
        ops.append(["O", k, S.node_of(classes, schemas, c, res[k - 1])])

    def mut(k):
        nodes = S.node_paths(schemas, c, S.node_of(classes, schemas, c, res[k - 1]))
        path, nc, nd = rng.choice(nodes)
        ws = S.possible_writes(rng, classes, schemas, nc, nd)
        if not ws:
            return
        kind, j, w = rng.choice(ws)
        try:
            S.apply_write(classes, schemas, c, res[k - 1], path, kind, j, w)
        except S.NotWritable:
            return
        ops.append(["M", k, path, kind, j, w])

    dec(); obs(1)
    for _ in range(nmut):
        mut(1)
    obs(1); dec(); obs(2); obs(1)
    for _ in range(nmut):
        mut(rng.choice([1, 2]))
    obs(1); obs(2); dec(); obs(3); obs(2); obs(1)
    return ops


def _bridge_value(rng, schemas, idx, na, ns, nc):
    """A bridge database whose accessories are byte-identical except for the accessory id."""
    def build(name, d):
        return [[d[f["name"]]] if f["name"] in d else [] for f in schemas[idx[name] - 1]["fields"]]
    svcs = []
    iid = 15
    for s in range(ns):
        iid += 1
        sid = iid
        chars = []
        for _ in range(nc):
            iid += 1
            d = {"type": [rng.randrange(256), 0] + [0] * 14, "instance_id": [iid % 256, iid // 256], "properties": [0x90, 0],
                 "presentation_format": [0x08, 0, 0, 0x27, 1, 0, 0]}           # uint32, secure read + notify
            chars.append(build("Pdu09CharacteristicContainer", {"characteristic": build("Pdu09Characteristic", d)}))
        sd = {"type": [0x8A + s, 0] + [0] * 14, "instance_id": [sid % 256, sid // 256], "_characteristics": chars, "properties": [0, 0]}
        svcs.append(build("Pdu09ServiceContainer", {"service": build("Pdu09Service", sd)}))
    accs = [build("Pdu09AccessoryContainer", {"accessory": build("Pdu09Accessory", {"instance_id": [a + 2, 0], "_services": svcs})})
            for a in range(na)]
    return build("Pdu09Database", {"_accessories": accs})


class _RefAccessoryCtx:
    """Fake encryption context of a CoAP connection: the reference accessory behind it holds a value per
    (accessory, service, characteristic) and answers get_accessory_info's reads in the order they are made
    (the CoAP read carries no accessory id; the bridge serves accessory after accessory, service after service)."""
    coap_ctx = object()

    def __init__(self, body, held):
        self.body, self.held, self.calls = body, held, 0

    async def post(self, opcode, iid, data):
        return len(self.body), self.body

    async def post_all(self, opcode, iids, data):
        from aiohomekit.controller.coap.pdu import PDUStatus
        row = self.held[self.calls]
        self.calls += 1
        out = []
        for k, _ in enumerate(iids):
            v = row[k] if k < len(row) else None
            out.append(PDUStatus.INVALID_REQUEST if v is None else bytes([1, len(v)]) + bytes(v))
        return out


def _bridge_history(ctx, rep, bseed, classes, schemas, idx, na, ns, nc):
    """(ii) the real get_accessory_info on a reference-encoded bridge database with byte-identical accessories.
    Everything random comes from `bseed` (stored in the replay object, so the execution can be repeated)."""
    import asyncio
    from aiohomekit.controller.coap.connection import CoAPHomeKitConnection
    rng = random.Random(bseed)
    c = idx["Pdu09Database"]
    val = _bridge_value(rng, schemas, idx, na, ns, nc)
    wire = S.ref_encode(schemas, c, val, "acc", "decl")
    slim = {"c": c, "class": schemas[c - 1]["name"], "mode": "acc", "pol": "decl", "val": val, "wire": wire, "origin": "driver",
            "src": {"bridge": [na, ns, nc], "bseed": bseed}}
    ctx.case(("bridge", na, ns, nc, json.dumps(val)))

    def fld(name, field):
        return [f["name"] for f in schemas[idx[name] - 1]["fields"]].index(field) + 1
    p_acc, p_a = fld("Pdu09Database", "_accessories"), fld("Pdu09AccessoryContainer", "accessory")
    p_svcs, p_s = fld("Pdu09Accessory", "_services"), fld("Pdu09ServiceContainer", "service")
    p_chars, p_c = fld("Pdu09Service", "_characteristics"), fld("Pdu09CharacteristicContainer", "characteristic")
    ops = []
    infos = []
    for conn_no in (1, 2):                          # two connections to identical accessories (or a reconnect)
        held = [[None if rng.random() < 0.25 else [rng.randrange(256) for _ in range(4)] for _ in range(nc)]
                for _ in range(na * ns)]
        conn = CoAPHomeKitConnection(None, "2001:db8::17", 5683)
        conn.enc_ctx = _RefAccessoryCtx(wire, held)
        try:
            listed = asyncio.run(conn.get_accessory_info())
        except Exception as ex:  # noqa: BLE001
            rep.fail("get_accessory_info raised on a reference-encoded bridge database", slim, f"{type(ex).__name__}: {ex}")
            return None
        infos.append(conn.info)
        k = len(infos)
        ops.append(["D"])                           # the decode made by the library; then its own writes of the values read
        want = {}
        for a in range(na):
            for sv in range(ns):
                for ch in range(nc):
                    v = held[a * ns + sv][ch]
                    want[(a, sv, ch)] = v
                    if v is not None:
                        ops.append(["M", k, [[p_acc, a + 1], [p_a], [p_svcs, sv + 1], [p_s], [p_chars, ch + 1], [p_c]], "x", 0, v])
        for j in range(1, k + 1):
            try:
                ops.append(["O", j, S.node_of(classes, schemas, c, infos[j - 1])])
            except S.Unrepresentable as ex:
                rep.fail("accessory database left the message type after get_accessory_info", slim, str(ex))
                return None
        # what the caller gets (to_dict) against what the reference accessory holds
        for a, acc in enumerate(listed):
            for sv, svc in enumerate(acc["services"]):
                for ch, chd in enumerate(svc["characteristics"]):
                    v = want[(a, sv, ch)]
                    exp = None if v is None else int.from_bytes(bytes(v), "little")
                    if chd.get("value") != exp:
                        rep.fail("get_accessory_info reports a value the reference accessory does not hold for that characteristic", slim,
                                 f"connection {conn_no}, aid {acc['aid']} iid {chd['iid']}: reported {chd.get('value')!r}, the accessory holds {exp!r}")
                        return None
        # a fresh decode of the same bytes carries no state of any connection
        ops.append(["D"])
        infos.append(classes[c - 1].decode(wire))
        ops.append(["O", len(infos), S.node_of(classes, schemas, c, infos[-1])])
    return {"c": c, "wire": list(wire), "ops": ops, "slim": slim}



def _make_char_access(ctx, rep, classes, schemas, array_wrappers, struct_chars):
    """Struct-valued characteristics read through the model Characteristic.value (incl. the bare `array` form)."""
    def char_access(slim, inst):
        c = slim["c"]
        if c in array_wrappers:                       # array-valued characteristic: items joined by separators
            uuid, cls = array_wrappers[c]
            joined = b"".join(v for _, v in rtlv.dec(slim["wire"]))
            want = [S.to_instance(classes, schemas, classes.index(cls) + 1, it) for it in (slim["val"][0][0] if slim["val"][0] else [])]
            try:
                ch = _model_char(uuid, joined)
                got = ch.value
            except Exception as ex:  # noqa: BLE001
                rep.fail("array-valued characteristic: value raised", slim, f"{type(ex).__name__}: {ex}")
                return
            if not isinstance(got, (list, tuple)) or list(got) != want:
                rep.fail("array-valued characteristic: value != encoded items", slim, f"{got!r:.200} != {want!r:.200}")
                return
            for it in got:                            # the consumer edits what it read ...
                S.scribble(ctx.rng, classes, schemas, classes.index(cls) + 1, it)
            if isinstance(got, list):
                got.clear()
            again = ch.value                          # ... the accessory's value has not changed
            if not isinstance(again, (list, tuple)) or list(again) != want:
                rep.fail("array-valued characteristic: 2nd read after the 1st result was edited != encoded items", slim,
                         f"{again!r:.200} != {want!r:.200}")
            return
        for uuid, is_array in struct_chars.get(c, ()):
            if is_array or slim["mode"] != "lib":
                continue
            try:
                ch = _model_char(uuid, slim["wire"])
                got = ch.value
            except Exception as ex:  # noqa: BLE001
                rep.fail("struct-valued characteristic: value raised", slim, f"{type(ex).__name__}: {ex}")
                continue
            if got != inst:
                rep.fail("struct-valued characteristic: value != encoded message", slim, f"{got!r:.200} != {inst!r:.200}")
                continue
            S.scribble(ctx.rng, classes, schemas, c, got)      # the consumer edits what it read (to build a write request)
            again = ch.value
            if again != inst:
                rep.fail("struct-valued characteristic: 2nd read after the 1st result was edited != encoded message", slim,
                         f"{again!r:.200} != {inst!r:.200}")
    return char_access


# ------------------------------------------------------------------ driver executions (re-usable by --replay)
def _record_run(ctx, rep, classes, schemas, recs, c, mode, pol, val, label):
    """Run the real code on one value chosen by the driver; appends the (value, bytes, decoded) record for
    TlvStruct_Trace and returns the decoded object (None if a violation was reported directly)."""
    cls = classes[c - 1]
    name = schemas[c - 1]["name"]
    slim = {"c": c, "class": name, "mode": mode, "pol": pol, "val": val, "label": label, "origin": "driver"}
    ctx.case((name, mode, pol, json.dumps(val)))
    inst = S.to_instance(classes, schemas, c, val)
    if mode == "lib":
        try:
            enc = bytes(inst.encode())
        except Exception as ex:  # noqa: BLE001
            rep.fail("encode() raised", slim, f"{type(ex).__name__}: {ex}")
            return None
    else:
        enc = S.ref_encode(schemas, c, val, "acc", pol)
    slim["wire"] = enc
    try:
        dec = cls.decode(enc)
        got = S.from_instance(classes, schemas, c, dec)
    except S.Unrepresentable as ex:
        rep.fail("decode() returned a value outside the message type", slim, str(ex))
        return None
    except Exception as ex:  # noqa: BLE001
        rep.fail("decode() raised on a well-formed message", slim, f"{type(ex).__name__}: {ex} on {_short(enc)}")
        return None
    recs.append({"c": c, "mode": mode, "pol": pol, "val": val, "enc": list(enc), "dec": got})
    return dec


def _todict_checks(rep, schemas, idx, c, mode, pol, val, dec, label=""):
    """to_dict() of decoded signatures / databases against the encoded structure (ids, types, links)."""
    name = schemas[c - 1]["name"]
    fnames = [f["name"] for f in schemas[c - 1]["fields"]]
    slim = {"c": c, "class": name, "mode": mode, "pol": pol, "val": val, "origin": "driver", "label": label}

    def get(nm):
        o = val[fnames.index(nm)] if nm in fnames else []
        return o[0] if o else None
    try:
        if name.endswith("ble.structs.Characteristic"):
            pf = get("presentation_format")
            if get("type") is None or get("instance_id") is None or get("properties") is None or get("valid_range") or get("step_value") \
                    or pf is None or len(pf) != 7 or pf[0] not in (1, 4, 6, 8, 10, 16, 20, 25, 27):
                return       # not a complete, self-consistent signature: to_dict() is not defined on it
            td = dec.to_dict()
            want = (f"{int.from_bytes(bytes(get('type')), 'little'):X}", _u16(get("instance_id")))
            if (td.get("type"), td.get("iid")) != want:
                rep.fail("to_dict() of the decoded characteristic signature shows another type / iid", slim,
                         f"{(td.get('type'), td.get('iid'))} != {want}")
        elif name.endswith("ble.structs.Service"):
            ids = get("linked_services")
            if ids is None:
                return
            td = dec.to_dict()
            want = [_u16(x) for x in ids]
            if td.get("linked", []) != want:
                rep.fail("to_dict() of the decoded service signature shows other links", slim, f"{td.get('linked')} != {want}")
        elif name.endswith("Pdu09Database") and label.startswith("database"):     # complete databases only
            want = _db_projection(schemas, idx, val)
            got = _project_to_dict(dec.to_dict())
            if got != want:
                rep.fail("to_dict() of the decoded database differs from the encoded structure", slim,
                         f"{str(got)[:200]} != {str(want)[:200]}")
    except KeyError:
        return                       # the value lacks a field to_dict() needs: not a conformant signature / database
    except Exception as ex:  # noqa: BLE001
        rep.fail("to_dict() of the decoded message raised", slim, f"{type(ex).__name__}: {ex}")


def _trace_check(ctx, rep, tmp, schemas, schema_file, jvm, recs):
    """Recorded encode/decode runs -> TlvStruct_Trace; every rejected record is reported."""
    if not recs:
        return
    tf = os.path.join(tmp, "trace.ndjson")
    with open(tf, "w") as f:
        for r in recs:
            f.write(json.dumps(r) + "\n")
    vf = os.path.join(tmp, "verdicts.ndjson")
    res = ctx.tlc("codec/TlvStruct_Trace", "TlvStruct_Trace.cfg",
                  env={"TRACE_FILE": tf, "SCHEMA_FILE": schema_file, "VERDICTS_OUT": vf, **jvm},
                  expect_violation=True, require_cover=False, workers=4, timeout=1500,
                  label="trace validation of recorded encode/decode runs")
    if res.ok:
        if os.path.exists(vf) and open(vf).read().strip():
            raise MachineryError("TlvStruct_Trace accepted every record but exported rejected ones")
        ctx.trace_ok(len(recs))
        return
    if res.violation["name"] == "InDomain":
        raise MachineryError(f"driver produced a value outside the property's domain: {res.violation['trace'][:2000]}")
    from harness import tlc as T
    rejected = []
    if os.path.exists(vf):
        rejected = [json.loads(line) for line in open(vf) if line.strip()]
    if not rejected:                       # fall back to the counterexample TLC printed
        ce = T.parse_counterexample(res.violation["trace"])
        tid = ce[-1][1].get("tid") if ce else None
        if not isinstance(tid, int):
            raise MachineryError(f"trace validation failed without a record id: {res.violation['name']}")
        rejected = [{"tid": tid, "enc": res.violation["name"] != "EncoderConforms",
                     "dec": res.violation["name"] != "DecoderConforms", "rt": res.violation["name"] != "StructRoundTrip"}]
    for v in rejected:
        bad = recs[v["tid"] - 1]
        what = " and ".join(w for w, ok in (("wire image differs from the specification's", v["enc"]),
                                            ("decoded value differs from the specification's", v["dec"]),
                                            ("the specification's own round trip fails for this class", v.get("rt", True))) if not ok)
        rep.fail(f"recorded run rejected by TlvStruct_Trace ({what})",
                 {"c": bad["c"], "class": schemas[bad["c"] - 1]["name"], "mode": bad["mode"], "pol": bad["pol"],
                  "val": bad["val"], "wire": bytes(bad["enc"]), "dec": bad["dec"], "origin": "driver"},
                 f"producer {bad['mode']}, value {str(bad['val'])[:160]}, bytes {_short(bad['enc'])}, decoded {str(bad['dec'])[:160]}")
    rep.flush()
    ctx.trace_ok(len(recs) - len(rejected))


def _hist_check(ctx, rep, tmp, schema_file, jvm, hrecs):
    """Recorded decode histories -> TlvStructHist_Trace; every rejected history is reported."""
    if not hrecs:
        return
    hf = os.path.join(tmp, "hist.ndjson")
    hv = os.path.join(tmp, "hist_verdicts.ndjson")
    with open(hf, "w") as f:
        for r in hrecs:
            f.write(json.dumps({"c": r["c"], "wire": r["wire"], "ops": r["ops"]}) + "\n")
    res = ctx.tlc("codec/TlvStructHist_Trace", "TlvStructHist_Trace.cfg",
                  env={"TRACE_FILE": hf, "SCHEMA_FILE": schema_file, "VERDICTS_OUT": hv, **jvm},
                  expect_violation=True, require_cover=False, workers=4, timeout=1500,
                  label="trace validation of decode histories")
    bad = [json.loads(line) for line in open(hv) if line.strip()] if os.path.exists(hv) else []
    if res.ok:
        if bad:
            raise MachineryError("TlvStructHist_Trace accepted every history but exported rejected ones")
        ctx.trace_ok(len(hrecs))
        return
    if not bad:
        from harness import tlc as T
        ce = T.parse_counterexample(res.violation["trace"])
        tid = ce[-1][1].get("tid") if ce else None
        if not isinstance(tid, int):
            raise MachineryError(f"history validation failed without a record id: {res.violation['name']}")
        bad = [{"tid": tid, "bad": 0}]
    for v in bad:
        r = hrecs[v["tid"] - 1]
        upto = [op if op[0] != "O" else ["O", op[1], "..."] for op in r["ops"][:max(v["bad"], 1)]]
        seen = r["ops"][v["bad"] - 1][2] if v["bad"] else None
        rep.fail("decode history rejected by TlvStructHist_Trace (what is read through a result is not the decoded value "
                 "plus the writes made through that result)", r["slim"],
                 f"history {json.dumps(upto)[:500]}; observed {json.dumps(seen)[:300]}")
    rep.flush()
    ctx.trace_ok(len(hrecs) - len(bad))


def _random_history(ctx, rep, classes, schemas, c, mode, val, hseed):
    """One seeded decode / write / observe history of a value; everything random comes from `hseed`."""
    wire = S.ref_encode(schemas, c, val, mode, "decl")
    slim = {"c": c, "class": schemas[c - 1]["name"], "mode": mode, "pol": "decl", "val": val, "wire": wire, "origin": "driver",
            "src": {"history": hseed}}
    hr = random.Random(hseed)
    try:
        return {"c": c, "wire": list(wire), "ops": _history(hr, classes, schemas, c, wire, hr.randrange(1, 4)), "slim": slim}
    except Exception as ex:  # noqa: BLE001
        rep.fail("decode / write / decode history raised", slim, f"{type(ex).__name__}: {ex}")
        return None


# ------------------------------------------------------------------ the check
def run(ctx):
    from aiohomekit import tlv8  # noqa: F401

    ctx.rule = ("a case = (message class, producer lib/accessory, field order, abstract value); values enumerated by TLC "
                "from spec/codec/TlvStruct*.tla (generic schemas: bound profiles; real schemas: covering family) or drawn by "
                "the seeded driver and validated by TlvStruct_Trace; non-trivial = at least one field set")
    ctx.assume("encode side: a set field whose value serialises to nothing (empty bytes/str/list, nested message without "
               "fields) is not emitted by the library and is outside the claim (DESIGN 4.2); a list item without any field set "
               "(zero bytes) is part of the claim in first / middle position, where its separators carry it; as the LAST item "
               "it cannot be told from no item (the unmodified list splitter ignores an empty tail) and is outside the claim",
               "fields whose annotation has no serialiser (float) are not encodable and stay unset",
               "conformant accessory = canonical TLV8 (255-byte fragments, an empty value is one empty item), fields in any "
               "order, lists joined by one 00 00 separator, 16-bit ids packed little endian",
               "history reading: every decode returns the encoded values whatever happened to earlier results; writes are "
               "ordinary attribute/list writes a caller or the library (raw_value) makes; object identity itself is not demanded",
               "integers are written in the machine's native byte order by struct.pack('H'...) - checked on this "
               "(little-endian) host only")
    if ctx.replay:
        return _replay_file(ctx)
    tmp = tempfile.mkdtemp(prefix="c16_")
    # the specification's operators recurse once per fragment / list item: give TLC's threads room
    jvm = {"JDK_JAVA_OPTIONS": "-Xss64m"}
    try:
        # ---------------- schemas of the real classes, by reflection
        classes, skipped = S.discover()
        if not classes:
            raise MachineryError("no TLVStruct subclass found")
        schemas, notes = S.schemas_of(classes)
        classes = list(classes)
        # synthetic wrappers for array-valued struct characteristics (value = items joined by separators)
        structs = _struct_characteristics(classes)
        array_wrappers = {}
        for cls, uses in sorted(structs.items(), key=lambda kv: S._qual(kv[0])):
            for uuid, is_array in uses:
                if is_array and cls in classes:
                    schemas.append({"name": f"array-characteristic:{uuid}", "rx": 0,
                                    "fields": [{"name": "items", "tag": 1, "kind": "seq", "w": 0, "be": 0,
                                                "inner": classes.index(cls) + 1, "vals": []}]})
                    classes.append(None)
                    array_wrappers[len(schemas)] = (uuid, cls)
        ctx.notes["classes"] = [s["name"] for s in schemas]
        ctx.notes["not_encodable"] = notes
        ctx.notes["modules_not_importable"] = skipped
        idx = {s["name"].rsplit(".", 1)[-1]: k + 1 for k, s in enumerate(schemas)}
        schema_file = os.path.join(tmp, "schemas.ndjson")
        with open(schema_file, "w") as f:
            for s in schemas:
                f.write(json.dumps(s) + "\n")
        ctx.sample({"schema": schemas[idx["Service"] - 1]} if "Service" in idx else {"schema": schemas[0]})

        # ---------------- (A) generic schemas, FRAG = 3, exhaustive within the profiles
        ctx.tlc("codec/TlvStruct_Toy", ctx.pick("TlvStruct_Toy_small.cfg", "TlvStruct_Toy_small_thorough.cfg"),
                env=jvm, label="generic schemas FRAG=3", timeout=1500)

        # ---------------- (A') histories of decode calls: heap of objects refines value semantics; memoised decode refuted
        ctx.tlc("codec/TlvStructHist", ctx.pick("TlvStructHist_small.cfg", "TlvStructHist_thorough.cfg"), env=jvm,
                label="decode history: DecodeIsFunctionOfBytes (fresh objects)", timeout=1500)
        res = ctx.tlc("codec/TlvStructHist", "TlvStructHist_small_memo.cfg", env=jvm, expect_violation=True, require_cover=False,
                      label="decode history: memoised decode is refuted (sensitivity)", timeout=600)
        if res.ok or res.violation["name"] != "DecodeIsFunctionOfBytes":
            raise MachineryError("TlvStructHist does not refute the memoised-decode deviation")

        # ---------------- (B1) generic schemas, FRAG = 255, replayed through real TLVStruct dataclasses
        out = os.path.join(tmp, "toy.ndjson")
        sout = os.path.join(tmp, "toy_schemas.ndjson")
        ctx.tlc("codec/TlvStruct_Toy", ctx.pick("TlvStruct_Toy_real.cfg", "TlvStruct_Toy_real_thorough.cfg"),
                env={"CASES_OUT": out, "SCHEMA_OUT": sout, **jvm}, label="generic schemas FRAG=255 + case export", timeout=1500)
        toy_schemas = [json.loads(line) for line in open(sout)]
        toy_classes = S.build_toy_classes(toy_schemas)
        rep = _Reporter(ctx, toy_schemas)
        n = 0
        for line in open(out):
            case = json.loads(line)
            n += 1
            _replay(ctx, rep, toy_classes, toy_schemas, case)
            if n == 4000:
                ctx.sample({"generic_case": {**case, "wire": _short(case["wire"]), "val": str(case["val"])[:300]}})
        rep.flush()
        if n == 0:
            raise MachineryError("no generic case exported")

        # ---------------- (B2) real schemas
        out = os.path.join(tmp, "real.ndjson")
        cfg = ctx.pick("TlvStruct_Cases_quick.cfg", "TlvStruct_Cases_thorough.cfg")
        res = ctx.tlc("codec/TlvStruct_Cases", cfg, env={"CASES_OUT": out, "SCHEMA_FILE": schema_file, **jvm}, workers=4,
                      label="real schemas FRAG=255 + case export", timeout=1500, expect_violation=True)
        if not res.ok:
            _report_spec_violation(ctx, res, schemas)
            if not os.path.exists(out):     # the export is a postcondition; TLC evaluates it after a violation too
                ctx.tlc("codec/TlvStruct_Cases", cfg.replace(".cfg", "_export.cfg"),
                        env={"CASES_OUT": out, "SCHEMA_FILE": schema_file, **jvm}, label="real schemas: case export only", timeout=1500)
        rep = _Reporter(ctx, schemas)
        struct_chars = {classes.index(cls) + 1: uses for cls, uses in structs.items() if cls in classes}

        char_access = _make_char_access(ctx, rep, classes, schemas, array_wrappers, struct_chars)

        n = 0
        for line in open(out):
            case = json.loads(line)
            n += 1
            _replay(ctx, rep, classes, schemas, case, extra=char_access)
            if case["mode"] == "acc" and len(case["wire"]) > 300 and len(ctx.samples) < 3:
                ctx.sample({"real_case": {**case, "class": schemas[case["c"] - 1]["name"], "wire": _short(case["wire"]),
                                          "val": str(case["val"])[:300]}})
        rep.flush()
        if n == 0:
            raise MachineryError("no real case exported")
        ctx.notes["exported_cases"] = n

        # ---------------- (C) recorded runs of the real code -> TlvStruct_Trace
        recs = []
        rng = ctx.rng

        def record(c, mode, pol, val, label):
            dec = _record_run(ctx, rep, classes, schemas, recs, c, mode, pol, val, label)
            if dec is not None:
                _todict_checks(rep, schemas, idx, c, mode, pol, val, dec, label)
            return dec

        real_idx = [k + 1 for k, cl in enumerate(classes) if cl is not None]
        rx_idx = [k for k in real_idx if schemas[k - 1]["rx"]]
        per_class = ctx.pick(12, 150)
        for c in real_idx:
            for _ in range(per_class):
                val = _rand_struct(rng, schemas, c, "lib", depth=ctx.pick(3, 7))
                if S.ref_encode(schemas, c, val, "lib") or not any(val):
                    record(c, "lib", "decl", val, "random")
        for c in rx_idx:
            fnames = [f["name"] for f in schemas[c - 1]["fields"]]
            is_sig = schemas[c - 1]["name"].endswith("ble.structs.Characteristic") and {"type", "instance_id", "properties"} <= set(fnames)
            for _ in range(per_class):
                val = _rand_struct(rng, schemas, c, "acc", depth=ctx.pick(3, 7))
                if is_sig:      # a characteristic signature always carries type, iid and properties
                    for nm, w in (("type", 16), ("instance_id", 2), ("properties", 2)):
                        if not val[fnames.index(nm)]:
                            val[fnames.index(nm)] = [[rng.randrange(256) for _ in range(w)]]
                    val[fnames.index("presentation_format")] = [[rng.choice([1, 4, 6, 8, 10, 16, 20, 25, 27]), 0, 0, 0x27, 1, 0, 0]]
                    for nm in ("valid_range", "step_value"):     # their size depends on the format; not part of this check
                        if nm in fnames:
                            val[fnames.index(nm)] = []
                record(c, "acc", rng.choice(["decl", "rev", "rot"]), val, "random accessory message")
        # linked services: every byte value in every position of lists of 1..6 ids (BLE service signature + CoAP service)
        for cname in ("Service", "Pdu09Service"):
            if cname not in idx:
                continue
            c = idx[cname]
            fields = schemas[c - 1]["fields"]
            k_ids = [k for k, f in enumerate(fields) if f["kind"] == "ids"]
            if not k_ids:
                ctx.notes[f"{cname}_ids"] = "no packed id list field in this tree"
                continue
            k_ids = k_ids[0]
            step = ctx.pick(5, 1)
            for cnt in range(0, 7):
                for pos in range(cnt):
                    for half in (0, 1):
                        for b in range(0, 256, step) if cnt <= 2 or ctx.thorough else (0, 1, 16, 255):
                            ids = [[(7 * j + 1) % 256, 0] for j in range(cnt)]
                            ids[pos][half] = b
                            val = [[] for _ in fields]
                            val[k_ids] = [ids]
                            if rng.random() < 0.5:
                                val[0] = [[rng.randrange(8), 0][:fields[0]["w"]] + [0] * (fields[0]["w"] - 2)] if fields[0]["kind"] == "int" else []
                            record(c, "acc", rng.choice(["decl", "rev"]), val, "linked services")
                if cnt == 0:
                    val = [[] for _ in fields]
                    val[k_ids] = [[]]
                    record(c, "acc", "decl", val, "no linked services")
        # CoAP accessory databases 1..3 x 1..3 x 1..3
        if "Pdu09Database" in idx:
            c = idx["Pdu09Database"]
            for na in (1, 2, 3):
                for ns in (1, 2, 3):
                    for nc in (1, 2, 3):
                        for rep_k in range(ctx.pick(1, 6)):
                            val = _db_value(rng, schemas, idx, na, ns, nc, link_counts=[0, 1, 2, 3, 6])
                            record(c, "acc", "decl" if rep_k % 2 == 0 else "rev", val, f"database {na}x{ns}x{nc}")
        rep.flush()

        _trace_check(ctx, rep, tmp, schemas, schema_file, jvm, recs)
        if recs:
            ctx.sample({"trace_record": {k: (v if k not in ("enc",) else _short(v)) for k, v in recs[len(recs) // 2].items()}})
        # ---------------- (C') histories of decode calls on the real code -> TlvStructHist_Trace
        hrecs = []
        hist_classes = [k for k in real_idx if any(f["kind"] in ("struct", "seq") for f in schemas[k - 1]["fields"])]
        for c in hist_classes + [k for k in real_idx if k not in hist_classes][:6]:
            for _ in range(ctx.pick(6, 60)):
                mode = "acc" if schemas[c - 1]["rx"] and rng.random() < 0.5 else "lib"
                val = _dup_items(rng, schemas, c, _rand_struct(rng, schemas, c, mode, depth=ctx.pick(3, 6), big=0.08))
                if rep._has_ids(c, val) or not any(val):
                    continue                       # (packed id lists: separate, recorded finding)
                if mode == "lib" and not S.ref_encode(schemas, c, val, "lib"):
                    continue
                ctx.case(("history", schemas[c - 1]["name"], json.dumps(val)))
                r = _random_history(ctx, rep, classes, schemas, c, mode, val, f"{ctx.seed}/hist/{c}/{len(hrecs)}/{rng.random()}")
                if r:
                    hrecs.append(r)
        if "Pdu09Database" in idx:
            for na, ns, nc in ((2, 2, 2), (2, 1, 1), (3, 1, 2), (2, 2, 3), (3, 2, 1))[:ctx.pick(3, 5)]:
                for k in range(ctx.pick(1, 4)):
                    r = _bridge_history(ctx, rep, f"{ctx.seed}/bridge/{na}{ns}{nc}/{k}", classes, schemas, idx, na, ns, nc)
                    if r:
                        hrecs.append(r)
        rep.flush()
        _hist_check(ctx, rep, tmp, schema_file, jvm, hrecs)
        ctx.notes["decode_histories"] = len(hrecs)
        ctx.exhaustive = False
    finally:
        shutil.rmtree(tmp, ignore_errors=True)


def _report_spec_violation(ctx, res, schemas):
    from harness import tlc as T
    ce = T.parse_counterexample(res.violation["trace"])
    info = ""
    dup = False
    try:
        st = ce[-1][1]
        cs = st["cs"]
        s = schemas[cs["c"] - 1]
        setf = [s["fields"][k]["name"] for k, o in enumerate(cs["val"]) if o]
        gotf = [s["fields"][k]["name"] for k, o in enumerate(st.get("kw", ())) if o]
        dup = bool(_dups(s))
        info = (f": {s['name']} with field(s) {setf} set is decoded with field(s) {gotf} set - the class declares "
                f"{_dups(s)}" if _dups(s) else f": {s['name']} fields set {setf}, decoded {gotf}")
    except Exception:  # noqa: BLE001
        pass
    ctx.violation(f"TLC: {res.violation['name']} violated on the schema of a real class{info}",
                  {"kind": "tlc", "module": "spec/codec/TlvStruct_Cases.tla", "invariant": res.violation["name"],
                   "trace": res.violation["trace"][:200000]},
                  signature=SIGNATURES["dup-tag"] if dup else None)


def _dups(s):
    seen, d = {}, []
    for f in s["fields"]:
        if f["tag"] in seen:
            d.append(f"{seen[f['tag']]} and {f['name']} with the same TLV type {f['tag']}")
        seen[f["tag"]] = f["name"]
    return "; ".join(d)


def _replay_file(ctx):
    """./check C16 --replay <file>: execute the stored case again on the tree under test.

    TLC-exported cases are replayed with the wire image the specification prescribed; executions of the seeded driver
    (random values, decode histories, bridge databases) are repeated from the stored value / seed, the expected bytes are
    recomputed by the reference encoder and the FRESH records are validated by TLC (TlvStruct_Trace / TlvStructHist_Trace)."""
    data = json.load(open(ctx.replay))["replay"]
    jvm = {"JDK_JAVA_OPTIONS": "-Xss64m"}
    tmp = tempfile.mkdtemp(prefix="c16_")
    try:
        found, _ = S.discover()
        cur_schemas, _notes = S.schemas_of(found)
        if data.get("kind") != "struct_case":
            # a TLC counterexample on the schemas of the real classes: model-check the schemas of THIS tree again
            schema_file = os.path.join(tmp, "schemas.ndjson")
            with open(schema_file, "w") as f:
                for sc in cur_schemas:
                    f.write(json.dumps(sc) + "\n")
            out = os.path.join(tmp, "real.ndjson")
            res = ctx.tlc("codec/TlvStruct_Cases", "TlvStruct_Cases_quick.cfg", env={"CASES_OUT": out, "SCHEMA_FILE": schema_file, **jvm},
                          workers=4, label="replay: real schemas of this tree", timeout=1500, expect_violation=True)
            if not res.ok:
                _report_spec_violation(ctx, res, cur_schemas)
            print(f"replay: TlvStruct_Cases model-checked on the schemas of this tree -> {'VIOLATION' if not res.ok else 'ok'}")
            return
        schemas, case = data["schemas"], dict(data["case"])
        real = any(sc["name"].startswith("aiohomekit.") for sc in schemas)
        if real:
            byname = {S._qual(c): c for c in found}
            classes = [byname.get(sc["name"]) for sc in schemas]
            cur = {sc["name"]: sc for sc in cur_schemas}
            for k, sc in enumerate(schemas):            # field layout must be the one the stored value was made for
                if classes[k] is not None and [f["name"] for f in cur[sc["name"]]["fields"]] != [f["name"] for f in sc["fields"]]:
                    print(f"replay: {sc['name']} has other fields in this tree; the stored value cannot be rebuilt")
                    return
        else:
            classes = S.build_toy_classes(schemas)
        schema_file = os.path.join(tmp, "schemas.ndjson")
        with open(schema_file, "w") as f:
            for sc in schemas:
                f.write(json.dumps(sc) + "\n")
        idx = {sc["name"].rsplit(".", 1)[-1]: k + 1 for k, sc in enumerate(schemas)}
        rep = _Reporter(ctx, schemas)
        c, val = case["c"], case["val"]
        mode, pol = case.get("mode", "acc"), case.get("pol", "decl")
        src = case.get("src") or {}
        name = schemas[c - 1]["name"]
        wire = case.get("wire")
        stored_wire = bytes.fromhex(wire["hex"]) if isinstance(wire, dict) else (bytes(wire) if wire is not None else None)
        if "bridge" in src:
            na, ns, nc = src["bridge"]
            r = _bridge_history(ctx, rep, src["bseed"], classes, schemas, idx, na, ns, nc)
            rep.flush()
            _hist_check(ctx, rep, tmp, schema_file, jvm, [r] if r else [])
            print(f"replay: get_accessory_info on the bridge database {na}x{ns}x{nc} (seed {src['bseed']}) executed again on this tree, "
                  f"fresh history validated by TlvStructHist_Trace -> {'VIOLATION' if ctx.violations else 'ok'}")
            return
        array_wrappers = {}
        for k, sc in enumerate(schemas, start=1):
            if sc["name"].startswith("array-characteristic:"):
                inner = sc["fields"][0]["inner"]
                array_wrappers[k] = (sc["name"].split(":", 1)[1], classes[inner - 1])
        structs = _struct_characteristics([cl for cl in classes if cl is not None]) if real else {}
        struct_chars = {classes.index(cl) + 1: uses for cl, uses in structs.items() if cl in classes}
        char_access = _make_char_access(ctx, rep, classes, schemas, array_wrappers, struct_chars) if real else None
        driver = case.get("origin") == "driver" or stored_wire is None or "mode" not in case
        if driver:
            # the stored bytes are what the tree that produced the file wrote; the expectation is the reference encoding
            exp_wire = S.ref_encode(schemas, c, val, mode, pol)
            how = "driver execution repeated; expected bytes from the reference encoder"
        else:
            exp_wire = stored_wire
            how = "TLC-exported case; wire image prescribed by the specification"
        if classes[c - 1] is None and c not in array_wrappers:
            print("replay: class not present in this tree; nothing to execute")
            return
        _replay(ctx, rep, classes, schemas, {"c": c, "mode": mode, "pol": pol, "val": val, "wire": list(exp_wire)}, extra=char_access)
        if classes[c - 1] is not None and (driver or "history" in src):
            recs = []
            grp = dict(rep.groups)
            rep.groups = {}
            dec = _record_run(ctx, rep, classes, schemas, recs, c, mode, pol, val, "replay")
            if dec is not None:
                _todict_checks(rep, schemas, idx, c, mode, pol, val, dec, case.get("label") or "")
            rep.groups = {**rep.groups, **grp}
            _trace_check(ctx, rep, tmp, schemas, schema_file, jvm, recs)
            hseed = src.get("history") or f"{ctx.seed}/replay-history"
            r = _random_history(ctx, rep, classes, schemas, c, mode, val, hseed) if not rep._has_ids(c, val) else None
            _hist_check(ctx, rep, tmp, schema_file, jvm, [r] if r else [])
            how += "; fresh record validated by TlvStruct_Trace, fresh decode history by TlvStructHist_Trace"
        rep.flush()
        print(f"replay: {name} mode={mode} value={str(val)[:160]} executed again on this tree ({how}) -> "
              f"{'VIOLATION' if ctx.violations else 'ok'}")
    finally:
        shutil.rmtree(tmp, ignore_errors=True)
