"""EXTCFG - accessory database / configuration number / cache coherence of a pairing (extension).

(A) TLC: spec/cfgcache/CfgCache.tla - one pairing: the accessory's database version (= its c#), the descriptions the
    controller is shown (repeated, late, out of order), the pairing's AccessoriesState (database, config_num), the
    cache entry, config-change tasks and list / populate calls waiting for the connection (10 s) or queued FIFO on
    it, the accessory answering with its database as of the reply, replies arriving later, the connection coming
    and going, restore_accessories_state, the three listener registries with plain and self-unregistering
    listeners, restarts (a new pairing object over what the cache kept).  Invariants / action properties P1..P7 of
    the module, exhaustive for small constants.  With Deviations = {"live_iter"} (the tree as it is: listener
    rounds iterate the live set) TLC must refute WriteThrough and ConnectedCallProceeds; both counterexamples are
    replayed on the real code (known finding).
(B) spec -> code: `tlc -simulate` behaviours of the module are turned into stimulus schedules and run on the REAL
    IpPairing (created by IpController.load_pairing over a memory / file characteristic cache; only the transport
    is a stand-in the driver moves: harness/cfgcache_driver.py), followed by a fair ending.
(C) code -> spec: every execution of (B) and seeded random schedules are logged (stimulus; what became visible
    while the loop settled, with multiplicities; every cache write as a restart would read it; what is visible
    afterwards) and validated by TLC against CfgCache_Trace: an execution is accepted only if every observation is
    the one the specification computes.  Executions rejected by the intended behaviour are validated once more with
    the deviation enabled: accepted only then = KNOWN-FINDING, rejected even then = VIOLATION.

(D) the CoAP flavour: the real CoAPPairing (CoAPController.load_pairing; same algorithm, its own _ensure_connected: the
    first call that finds no connection connects, the others wait for it, it alone runs the availability listeners)
    over a stand-in for CoAPHomeKitConnection, same module with Flavour = "coap", same two passes.
(E) the BLE flavour: spec/cfgcache/BleCfg.tla (every operation compares the held number with the advertised one and
    re-reads the GATT database if they differ; the label of what was fetched) with the same properties; the real
    BlePairing (BleController.load_pairing, advertisements through BleController._device_detected; the Bluetooth side
    below the configuration logic replaced by a subclass whose database fetch is one suspension) is driven along
    -simulate behaviours and random schedules and validated against BleCfg_Trace in the same two passes (deviation
    "late_label": the label is read after the fetch; known finding).

./check EXTCFG --replay replays/EXTCFG-<tier>-<n>.json re-executes the recorded stimulus list and explains the first
rejected event (observed vs. what the specification computes).
"""
from __future__ import annotations

import glob
import json
import multiprocessing as mp
import os
import random
import re
import shutil
import tempfile
from concurrent.futures import ThreadPoolExecutor

from harness import tlc as T
from harness import tracecheck
from harness.common import SPEC, MachineryError

AREA = os.path.join(SPEC, "cfgcache")
MOD, TMOD = "cfgcache/CfgCache", "cfgcache/CfgCache_Trace"
KEEP = ("ev", "c", "s", "kind", "force", "v", "reg", "i", "out", "saves", "obs")
WHAT = ("ev", "c", "s", "kind", "force", "v", "reg", "i")
CBASES = (0, 0, 100, 65000)
INV_ONLY = dict(coverage=False, require_cover=False)
# the two flavours: module, trace module, trace configurations (intended behaviour / with the recorded deviation), the
# known finding the deviation stands for
FL = {
    "ip": dict(mod="cfgcache/CfgCache", tmod="cfgcache/CfgCache_Trace", intended="CfgCache_Trace.cfg", dev="CfgCache_Trace_dev.cfg",
               sig="extcfg-live-listener-set-iteration",
               devtext="the deviation live_iter (a listener that unregisters itself inside its callback breaks the round: RuntimeError "
                       "from the live-set iteration)"),
    "coap": dict(mod="cfgcache/CfgCache", tmod="cfgcache/CfgCache_Trace", intended="CfgCache_Trace_coap.cfg", dev="CfgCache_Trace_coap_dev.cfg",
                 sig="extcfg-live-listener-set-iteration",
                 devtext="the deviation live_iter (a listener that unregisters itself inside its callback breaks the round: RuntimeError "
                         "from the live-set iteration)"),
    "ble": dict(mod="cfgcache/BleCfg", tmod="cfgcache/BleCfg_Trace", intended="BleCfg_Trace.cfg", dev="BleCfg_Trace_dev.cfg",
                sig="extcfg-ble-label-read-after-fetch",
                devtext="the deviation late_label (BlePairing files the GATT database it fetched under description.config_num read AFTER "
                        "the fetch)"),
}
SIG = FL["ip"]["sig"]

_HDR = re.compile(r"^\\\* <(\w+)(?:\((.*?)\))? line \d+", re.M)
_CE = re.compile(r"^State \d+: <(\w+)(?:\((.*?)\))? line \d+", re.M)
_PLAIN = {"DbChange": "db", "LinkUp": "linkup", "LinkDown": "linkdown", "Tick": "tick", "Deliver": "deliver", "UserList": "list",
          "Restart": "restart", "FetchReply": "freply", "FetchDone": "fdone"}


# ------------------------------------------------------------------ behaviours from TLC
def _step_of(name, par, pre=None, post=None):
    """the stimulus of one step of a TLC behaviour; parameters read off the two states when they are given (-simulate:
    the names of the Sim* actions carry none or stale ones), else from the action name (counterexamples)"""
    par = [x.strip().strip('"') for x in par.split(",")] if par else []
    if name in _PLAIN:
        return (_PLAIN[name],)
    if name in ("Desc", "SimDesc", "SimDescCur"):
        if post and "ds" in post:          # BLE: (c#, s#)
            return ("desc", post["pdesc"], post["ds"])
        return ("desc", *(int(x) for x in par)) if not post else ("desc", post["pdesc"])
    if name in ("Reply", "SimReply", "SimReplyOk"):
        return ("reply", ("ok" if post["q"][0]["r"] > 0 else "garbage") if post else par[0])
    if name in ("UserPop", "SimPop"):
        if not post:
            return ("pop", par[0] == "TRUE")
        # force_update = True iff a call was started although the pairing holds accessories
        if "ops" in post:                  # BLE: forced iff the (unchanged) entry was rewritten or ... nothing tells: either
            return ("pop", any(o[0] == "saved" for o in post["out"]))
        started = len(post["w"]) + len(post["q"]) > len(pre["w"]) + len(pre["q"])
        return ("pop", bool(started and pre["pacc"] != 0))
    if name in ("UserRestore", "SimRestore"):
        return ("restore", post["pcfg"] if post else int(par[0]))
    if name in ("Register", "Unregister", "SimReg"):
        if not post:
            return ("reg" if name == "Register" else "unreg", par[0], int(par[1]))
        for r in sorted(post["lst"]):
            if post["lst"][r] != pre["lst"][r]:
                add, rem = post["lst"][r] - pre["lst"][r], pre["lst"][r] - post["lst"][r]
                return ("reg", r, min(add)) if add else ("unreg", r, min(rem))
    raise MachineryError(f"unknown action {name}({par}) in a TLC behaviour")


def _params_of(st0):
    cache = st0["cache"]
    return {"accv0": st0["accv"], "cache0": 0 if not cache else 10 * cache[0]["c"] + cache[0]["a"]}


def _parse_behaviour(path):
    txt = open(path).read()
    hdr = [(m.group(1), m.group(2) or "") for m in _HDR.finditer(txt)]
    sts = T.parse_sim_file(path)
    if len(hdr) != len(sts) or not sts:
        raise MachineryError(f"cannot parse behaviour {path}")
    return _params_of(sts[0][1]), [_step_of(n, p, sts[i][1], sts[i + 1][1]) for i, (n, p) in enumerate(hdr[1:])]


def _parse_counterexample(res, cfg):
    txt = res.violation["trace"]
    hdr = [(m.group(1), m.group(2) or "") for m in _CE.finditer(txt)]
    blocks = re.split(r"^State \d+: <.*$", txt, flags=re.M)[1:]
    try:
        st0 = T.parse_state(blocks[0])
    except (ValueError, IndexError, TypeError) as ex:
        raise MachineryError(f"cannot parse the counterexample of {cfg}: {ex}")
    if len(hdr) + 1 != len(blocks) or len(blocks) < 2:          # the initial state has no action header
        raise MachineryError(f"cannot parse the counterexample of {cfg}")
    return _params_of(st0), [_step_of(n, p) for n, p in hdr]


def _world_params(params, rid, k, flavour="ip"):
    from harness import cfgcache_driver as D
    p = dict(params)
    p["tag"] = rid
    p["cache_kind"] = "file" if k % 3 == 2 else "mem"
    p["cbase"] = (D.BLE_CBASES if flavour == "ble" else CBASES)[k % 4]
    p["flavour"] = flavour
    return p


def _run(params, steps, rid, src, tmpdir=None, drain=True):
    from harness import cfgcache_driver as D
    fn = {"ble": D.run_ble_steps, "coap": D.run_coap_steps}.get(params.get("flavour"), D.run_steps)
    r = fn(params, steps, rid=rid, src=src, tmpdir=tmpdir, drain=drain)
    r["flavour"] = params.get("flavour", "ip")
    return r


def _run_behaviour(args):
    rid, params, steps = args
    tmp = tempfile.mkdtemp(prefix="extcfg_w_") if params["cache_kind"] == "file" else None
    try:
        return _run(params, steps, rid, "behaviour", tmp)
    finally:
        if tmp:
            shutil.rmtree(tmp, ignore_errors=True)


# ------------------------------------------------------------------ seeded random schedules
def _random_schedule(args):
    seed, rid, k, fl = args
    from harness import cfgcache_driver as D
    rng = random.Random(seed)
    accv0 = rng.choice([1, 1, 2, 3])
    a0 = rng.choice([0, 0] + list(range(1, accv0 + 1)))
    c0 = rng.choice([0] + list(range(1, a0 + 1))) if a0 else 0          # 0: legacy entry without config_num
    params = _world_params({"accv0": accv0, "cache0": 10 * c0 + a0}, rid, k, fl)
    tmp = tempfile.mkdtemp(prefix="extcfg_w_") if params["cache_kind"] == "file" else None
    w = (D.CoapWorld if fl == "coap" else D.World)(cache0=params["cache0"], accv0=accv0, tag=rid, cache_kind=params["cache_kind"], tmpdir=tmp, cbase=params["cbase"])
    try:
        style = rng.choice(["mixed", "mixed", "cfg", "flaky", "listeners", "restart"])
        ids = D.LISTENERS if k % 2 else tuple(i for i in D.LISTENERS if i not in D.ONESHOT)      # half without one-shot listeners
        weights = {"db": 3, "desc": 7, "linkup": 3, "linkdown": 1, "tick": 1, "reply": 7, "deliver": 7, "list": 1.5, "pop": 1.5,
                   "restore": 0.7, "reg": 3, "unreg": 1.2, "restart": 0.5}
        if style == "cfg":
            weights.update(db=5, desc=10, reg=2, linkdown=0.4)
        elif style == "flaky":
            weights.update(linkdown=3, linkup=4, tick=3, list=2.5)
        elif style == "listeners":
            weights.update(reg=7, unreg=3, linkdown=2, linkup=3, list=2.5)
        elif style == "restart":
            weights.update(restart=2, restore=1.5)
        for _ in range(rng.randrange(12, 40)):
            c = w.conn
            o = w.events[-1]["obs"] if w.events else w.obs()
            inflight = c.waiting + len(c.pending)
            lo = max(o["pdesc"], o["pcfg"], o["pacc"], 1)
            can = {"db": w.accv < D.MAXV, "desc": inflight < 10, "linkdown": c.up, "tick": True,
                   "linkup": not c.up and (fl != "coap" or c.connecting is not None),
                   "reply": bool(c.pending) and not c.pending[0].replied, "deliver": bool(c.pending) and c.pending[0].replied,
                   "list": inflight < 6, "pop": inflight < 6, "restore": inflight == 0 and lo <= w.accv and o["pacc"] >= 0 and o["pcfg"] >= -1,
                   "reg": True, "unreg": any(w.handles[r] for r in D.REGS), "restart": w.gen < 3}
            ops = [(op, wt) for op, wt in weights.items() if can[op]]
            r = rng.random() * sum(x[1] for x in ops)
            for op, wt in ops:
                r -= wt
                if r <= 0:
                    break
            if op == "desc":
                w.apply(("desc", w.accv if rng.random() < 0.65 else rng.randrange(1, w.accv + 1)))
            elif op == "reply":
                w.apply(("reply", "ok" if rng.random() < 0.85 else "garbage"))
            elif op == "pop":
                w.apply(("pop", rng.random() < 0.5))
            elif op == "restore":
                w.apply(("restore", rng.randrange(lo, w.accv + 1)))
            elif op == "reg":
                w.apply(("reg", rng.choice(D.REGS if rng.random() < 0.5 else ("cfg", "avail")), rng.choice(ids)))
            elif op == "unreg":
                reg = rng.choice([r for r in D.REGS if w.handles[r]])
                w.apply(("unreg", reg, rng.choice(sorted(w.handles[reg]))))
            else:
                w.apply((op,))
        w.drain()
        r = w.record(rid, "random")
        r["flavour"] = fl
        return r
    finally:
        w.close()
        if tmp:
            shutil.rmtree(tmp, ignore_errors=True)


def _random_ble_schedule(args):
    seed, rid, k = args
    from harness import cfgcache_driver as D
    rng = random.Random(seed)
    accv0 = rng.choice([1, 1, 2, 3])
    a0 = rng.choice([0] + list(range(1, accv0 + 1)))
    c0 = rng.randrange(1, a0 + 1) if a0 else 0
    params = _world_params({"accv0": accv0, "cache0": 10 * c0 + a0}, rid, k, "ble")
    tmp = tempfile.mkdtemp(prefix="extcfg_w_") if params["cache_kind"] == "file" else None
    w = D.BleWorld(cache0=params["cache0"], accv0=accv0, tag=rid, cache_kind=params["cache_kind"], tmpdir=tmp, cbase=params["cbase"])
    try:
        weights = {"db": 3, "desc": 6, "freply": 5, "fdone": 5, "list": 2, "pop": 2, "restart": 0.5}
        if k % 3 == 0:
            weights.update(db=5, desc=9)
        calm = k % 2 == 0          # half of the schedules: no advertisement while a fetch is under way
        s = 1
        for _ in range(rng.randrange(10, 32)):
            p = w.pairing
            f = p._w_fetch
            busy = (w.events[-1]["obs"] if w.events else w.obs())["nops"]
            can = {"db": w.accv < D.MAXV, "desc": busy < 9 and not (calm and f is not None), "freply": f is not None and not f.replied, "fdone": f is not None and f.replied,
                   "list": busy < 6 and p.description is not None, "pop": busy < 6 and p.description is not None, "restart": w.gen < 3}
            ops = [(op, wt) for op, wt in weights.items() if can[op]]
            r = rng.random() * sum(x[1] for x in ops)
            for op, wt in ops:
                r -= wt
                if r <= 0:
                    break
            if op == "desc":
                if rng.random() < 0.3:
                    s = rng.choice([1, 2, 3])
                w.apply(("desc", w.accv if rng.random() < 0.7 else rng.randrange(1, w.accv + 1), s))
            elif op == "pop":
                w.apply(("pop", rng.random() < 0.5))
            else:
                w.apply((op,))
        w.drain()
        r = w.record(rid, "random")
        r["flavour"] = "ble"
        return r
    finally:
        w.close()
        if tmp:
            shutil.rmtree(tmp, ignore_errors=True)


# ------------------------------------------------------------------ trace validation
def _trim(r):
    return {"cache0": r["cache0"], "accv0": r["accv0"], "events": [{k: v for k, v in e.items() if k in KEEP} for e in r["events"]]}


def _expected(st):
    """what the specification computes for the step (state after the step)"""
    if not st:
        return None
    if "ops" in st:          # BLE
        ops = st["ops"]
        return {"out": sorted([list(o) for o in st.get("out", ())]),
                "obs": {"gen": st["gen"], "pdesc": st["pdesc"], "ds": st["ds"], "pcfg": st["pcfg"], "pacc": st["pacc"], "psn": st["psn"],
                        "cache": [dict(x) for x in st["cache"]], "nops": len(ops), "fetching": 1 if ops else 0,
                        "replied": 1 if ops and ops[0]["r"] != 0 else 0}}
    q = st.get("q", ())
    return {"out": sorted([list(o) for o in st.get("out", ())]),
            "obs": {"gen": st["gen"], "up": st["up"], "pdesc": st["pdesc"], "pcfg": st["pcfg"], "pacc": st["pacc"],
                    "cache": [dict(x) for x in st["cache"]], "nw": len(st.get("w", ())), "nq": len(q),
                    "replied": 1 if q and q[0]["r"] != 0 else 0, "lst": {r: sorted(st["lst"][r]) for r in sorted(st["lst"])}}}


def _head(full):
    return (f"execution {full['id']} ({full['flavour'].upper()} pairing; {full['src']}; cache {full['cache_kind']}, initial cache {full['cache0']}, "
            f"database v{full['accv0']}, c# base {full['cbase']}): ")


def _explain(full, rej):
    pos, ev = rej["maxl"], rej["event"]
    head = _head(full)
    if rej.get("invariant"):
        return head + f"the recorded execution drives the specification into a state violating {rej['invariant']} at event #{pos}"
    if ev is None:
        return head + "the trace could not be consumed"
    exp = _expected(rej.get("settled_state"))
    what = {k: ev[k] for k in WHAT if k in ev}
    if exp is None:
        st = rej.get("last_state") or {}
        return head + (f"event #{pos} {json.dumps(what)} is not a step the specification can take in its state "
                       + ", ".join(f"{k} {st.get(k)}" for k in ("up", "w", "q", "ops", "pdesc", "pcfg", "pacc", "lst") if k in st))
    diffs = []
    strip = (lambda o: [x for x in o if x[0] != "saved"]) if full["flavour"] == "ble" else (lambda o: o)      # BLE: rewrites not counted
    if sorted(tuple(o) for o in strip(ev["out"])) != sorted(tuple(o) for o in strip(exp["out"])):
        diffs.append(f"visible effects {ev['out']} but the specification has {exp['out']}")
    for k, v in exp["obs"].items():
        if ev["obs"].get(k) != v:
            diffs.append(f"{k} = {json.dumps(ev['obs'].get(k))} but the specification has {json.dumps(v)}")
    if not diffs:
        diffs.append(f"cache writes of the step {json.dumps(ev.get('saves'))} are not coherent with the state the specification has "
                     f"(config_num {exp['obs']['pcfg']}, database {exp['obs']['pacc']}, cache {json.dumps(exp['obs']['cache'])})")
    if ev.get("errs"):
        diffs.append(f"exceptions seen: {ev['errs']}")
    return head + f"after event #{pos} {json.dumps(what)}: " + "; ".join(diffs)


def _replay_obj(full, rej):
    return {"kind": "trace", "params": {k: full[k] for k in ("cache0", "accv0", "tag", "cache_kind", "cbase", "flavour")}, "steps": full["steps"],
            "position": rej["maxl"], "event": rej["event"], "id": full["id"], "src": full["src"]}


def _batch(ctx, fl, recs, cfg, label, tmp):
    """validate recs against the flavour's trace module with cfg; returns [(index, furthest event, violated invariant or None)]"""
    out = []
    chunk = 4000
    todo = [(off, recs[off:off + chunk]) for off in range(0, len(recs), chunk)]
    while todo:
        off, part = todo.pop(0)
        tf = os.path.join(tmp, f"trace_{off}_{len(part)}.ndjson")
        with open(tf, "w") as f:
            for r in part:
                f.write(json.dumps(_trim(r)) + "\n")
        res = ctx.tlc(FL[fl]["tmod"], cfg, env={"TRACE_FILE": tf, "DBG_L": "0"}, workers=1, dfs_queue=True, expect_violation=True, timeout=1500,
                      label=f"{label} ({len(part)} executions)", **INV_ONLY)
        os.unlink(tf)
        if not res.ok and res.violation["kind"] in ("invariant", "action_property"):
            ce = T.parse_counterexample(res.violation["trace"])
            tid = ce[-1][1].get("tid") if ce else None
            if not isinstance(tid, int):
                raise MachineryError(f"trace validation: {res.violation['name']} violated, trace not identified\n{res.stdout[-2000:]}")
            out.append((off + tid - 1, int(ce[-1][1].get("l", 0)), res.violation["name"]))
            # the run stopped there: the other executions of the chunk once more, in two parts around it
            if tid > 1:
                todo.append((off, part[:tid - 1]))
            if tid < len(part):
                todo.append((off + tid, part[tid:]))
            continue
        if not res.ok and res.violation["kind"] != "postcondition":
            raise MachineryError(f"trace validation failed: {res.violation['kind']} {res.violation['name']}\n{res.stdout[-3000:]}")
        out += [(off + int(a) - 1, int(b), None) for a, b in re.findall(r'<<"REJECTED", (\d+), (\d+)>>', res.stdout)]
    return sorted(out)


def _rejection(full, maxl, inv=None):
    ev = full["events"][maxl - 1] if 0 < maxl <= len(full["events"]) else None
    return {"maxl": maxl, "event": ev, "last_state": None, "settled_state": None, "invariant": inv}


def _detail(fl, full, rej, cfg):
    path, cfgp = os.path.join(SPEC, FL[fl]["tmod"] + ".tla"), os.path.join(AREA, cfg)
    rej["detail"] = True
    if rej.get("invariant"):
        return
    rej["settled_state"] = tracecheck._last_state(path, cfgp, _trim(full), rej["maxl"], "DebugExpected")
    if rej["settled_state"] is None:
        rej["last_state"] = tracecheck._last_state(path, cfgp, _trim(full), rej["maxl"])


def _validate(ctx, fl, recs, label, tmp):
    """Batch validation, decided by the specification in two passes: first against the intended behaviour
    (Deviations = {}); the executions rejected there once more with the recorded deviation enabled (the flavour's known
    finding).  Returns (known, bad): executions explained only by the deviation, and executions no behaviour of the
    module explains even then - both as [(record, rejection)]."""
    rej1 = _batch(ctx, fl, recs, FL[fl]["intended"], label, tmp)
    known, bad = [], []
    if rej1:
        sub = [recs[i] for i, _, _ in rej1]
        rej2 = {j: (m, inv) for j, m, inv in _batch(ctx, fl, sub, FL[fl]["dev"], label + ": executions rejected by the intended behaviour, with the recorded deviation", tmp)}
        for j, (i, maxl, inv) in enumerate(rej1):
            if j in rej2:
                bad.append((recs[i], _rejection(recs[i], *rej2[j])))
            else:
                known.append((recs[i], _rejection(recs[i], maxl, inv)))
    ctx.trace_ok(len(recs) - len(bad))
    per_kind = {}
    for full, rej in bad:
        ev = rej["event"] or {}
        k = (ev.get("ev"), ev.get("kind"))
        if per_kind.setdefault(k, 0) < 2 and sum(per_kind.values()) < 12:
            per_kind[k] += 1
            _detail(fl, full, rej, FL[fl]["dev"])
    if known:
        first = sorted(known, key=lambda it: it[0]["src"] != "tlc-counterexample")[0]          # the TLC counterexample, if it is among them
        known.remove(first)
        known.insert(0, first)
        _detail(fl, *first, FL[fl]["intended"])
    return known, bad


def _report_known(ctx, fl, known, where):
    if not known:
        return
    full, rej = known[0]
    key = f"executions_explained_only_by_known_finding_{fl}"
    ctx.notes[key] = ctx.notes.get(key, 0) + len(known)
    ctx.violation(f"{len(known)} {where} are accepted only with {FL[fl]['devtext']}; first: " + _explain(full, rej), _replay_obj(full, rej),
                  signature=FL[fl]["sig"])


def _report(ctx, bad):
    bad = sorted(bad, key=lambda it: not it[1].get("detail"))
    for full, rej in bad:
        if rej.get("detail"):
            msg = _explain(full, rej)
        else:
            ev = rej["event"] or {}
            what = {k: ev[k] for k in WHAT if k in ev}
            msg = (_head(full) + f"event #{rej['maxl']} {json.dumps(what)} is rejected by the trace specification (out {ev.get('out')}, saves {ev.get('saves')}); "
                   "./check EXTCFG --replay <this file> explains it")
        ctx.violation(msg, _replay_obj(full, rej))


def _counterexample(ctx, fl, cfg, props, tag):
    """with the deviation TLC must refute one of `props`; its counterexample is run on the real code"""
    res = ctx.tlc(FL[fl]["mod"], cfg, expect_violation=True, workers=1, timeout=600, **INV_ONLY,
                  label=f"deviation ({cfg}): TLC must find the counterexample")
    if res.ok or res.violation["name"] not in props:
        raise MachineryError(f"vacuity: with the deviation TLC reported {None if res.ok else res.violation['name']} in {cfg}, expected one of {props}")
    params, steps = _parse_counterexample(res, cfg)
    params.update(tag=f"ce-{tag}-{ctx.seed}", cache_kind="mem", cbase=0, flavour=fl)
    rec = _run(params, steps, f"counterexample-{tag}", "tlc-counterexample")
    ctx.case(json.dumps(_trim(rec)["events"], sort_keys=True))
    return rec, res.violation["name"], tag, steps


def _confirm_findings(ctx, fl, ces, known, bad):
    """the finding is real iff the replayed counterexamples (validated with the other executions) are rejected by the
    intended behaviour and accepted with the deviation"""
    sig = FL[fl]["sig"]
    kn = {r["id"]: (r, rej) for r, rej in known}
    bd = {r["id"] for r, _ in bad}
    for rec, prop, tag, steps in ces:
        acts = [st[0] if len(st) == 1 else list(st) for st in steps]
        if rec["id"] in kn:
            rej = kn[rec["id"]][1]
            if not rej.get("detail"):
                _detail(fl, rec, rej, FL[fl]["intended"])
            ctx.notes[f"{sig}_real_{tag}"] = f"TLC counterexample {acts} of {prop} reproduces on the real {fl.upper()} pairing"
            ctx.violation(f"TLC counterexample {acts} of {prop} under the deviation reproduces on the real code: " + _explain(rec, rej),
                          _replay_obj(rec, rej), signature=sig)
        elif rec["id"] not in bd:
            ctx.notes[f"{sig}_real_{tag}"] = "the counterexample does not reproduce on the real code any more (proposed fix applied?)"
        # else: explained neither by the intended behaviour nor by the deviation - reported with the other rejected executions


def _confirm_documented(ctx, tmp):
    """documented, not claimed: k descriptions above the held number during one re-read start k re-reads.  TLC's
    witness is run on the real code and must be a behaviour of the module (no verdict depends on it)."""
    res = ctx.tlc(MOD, "CfgCache_dup.cfg", expect_violation=True, workers=1, timeout=600, **INV_ONLY,
                  label="documented behaviour: two re-reads in flight for the same configuration number (witness)")
    if res.ok or res.violation["name"] != "DupFetchPossible":
        raise MachineryError("CfgCache_dup.cfg: TLC did not produce the witness of a duplicate re-read")
    params, steps = _parse_counterexample(res, "CfgCache_dup.cfg")
    params.update(tag=f"dup-{ctx.seed}", cache_kind="mem", cbase=0, flavour="ip")
    steps = [("reg", "cfg", 1)] + steps
    rec = _run(params, steps, "witness-duplicate-re-read", "tlc-witness")
    ctx.case(json.dumps(_trim(rec)["events"], sort_keys=True))
    n = sum(o[3] for e in rec["events"] for o in e["out"] if o[0] == "notify")
    ctx.notes["documented_duplicate_re_read"] = (f"witness {[list(s) for s in steps]}: the real pairing started "
                                                 f"{sum(o[3] for e in rec['events'] for o in e['out'] if o[0] == 'cfgtask')} re-reads for one change "
                                                 f"({n} listener notifications)")
    return rec


def _replay(ctx):
    data = json.load(open(ctx.replay))["replay"]
    fl = data["params"].get("flavour", "ip")
    tmp = tempfile.mkdtemp(prefix="extcfg_w_")
    try:
        rec = _run(dict(data["params"], flavour=fl), data["steps"], data.get("id", "replay"), "replay", tmp, drain=False)
    finally:
        shutil.rmtree(tmp, ignore_errors=True)
    for e in rec["events"]:
        print("replay:", json.dumps(e)[:500])
    ctx.case(json.dumps(_trim(rec)["events"], sort_keys=True))
    tmp2 = tempfile.mkdtemp(prefix="extcfg_")
    try:
        known, bad = _validate(ctx, fl, [rec], "replayed execution", tmp2)
        _report_known(ctx, fl, known, "replayed execution(s)")
        _report(ctx, bad)
    finally:
        shutil.rmtree(tmp2, ignore_errors=True)


def _behaviours(ctx, fl, cfg, tmp, num, depth):
    d = os.path.join(tmp, "sim_" + fl)
    os.makedirs(d)
    ctx.tlc(FL[fl]["mod"], cfg, simulate=f"file={d}/b,num={num}", depth=depth, seed=ctx.seed % 1000003, workers=1,
            label=f"simulate: behaviours for replay ({fl.upper()})", timeout=900, **INV_ONLY)
    jobs = []
    for i, f in enumerate(sorted(glob.glob(d + "/b_*"))):
        params, steps = _parse_behaviour(f)
        jobs.append((f"{fl}-beh{i}", _world_params(params, f"{fl}-beh{i}-{ctx.seed}", i, fl), steps))
    shutil.rmtree(d, ignore_errors=True)
    if not jobs:
        raise MachineryError("no behaviours produced by tlc -simulate")
    return jobs


def run(ctx):
    ctx.rule = ("schedules over {database change, description shown (current / repeated / late lower c#), connection up / down, 10 s passing, "
                "accessory answering (database / garbage), reply arriving, list / populate(force) / restore_accessories_state, listener "
                "(un)registration in the config-changed / availability / event registries incl. self-unregistering listeners, restart} (IP) and "
                "{database change, advertisement (c#, s#), GATT database shown / fetch returning, list / populate(force), restart} (BLE) from TLC "
                "-simulate behaviours of CfgCache / BleCfg and seeded generators, each followed by a fair ending; an execution is distinct by its "
                "recorded event sequence, non-trivial if a config-change task ran or the cache was written")
    ctx.assume("the accessory is honest: its c# is its database version, bumped with every change and never decreasing; descriptions shown to "
               "the pairing carry a c# the accessory has had (possibly repeated or late)",
               "IP: the transport is a stand-in with the real connection's contract (FIFO requests, every request on a lost connection fails with "
               "AccessoryDisconnectedError, ensure_connection returns after owner.connection_made); the real connection is the subject of "
               "C08/C10/C11 and, with the same pairing code, of EXTZC",
               "BLE: the Bluetooth side below the configuration logic (connection, pair-verify, the requests of the GATT database fetch, value "
               "reads, re-subscription) is replaced by a subclass; the fetch is one suspension and nothing fails (C07 / EXTBLE cover that side)",
               "observations are taken when the loop has nothing left to run (no stimulus is injected between two callbacks)",
               "listeners do not raise; restore_accessories_state is not called with something older than the pairing holds / has been shown, "
               "nor while a re-read is in flight",
               "documented, not claimed: every description above the HELD number starts its own re-read (duplicates while one is in flight); a "
               "failed re-read is retried only with the next description; a late lower description can re-label newer data with the lower number")
    if ctx.replay:
        return _replay(ctx)
    tmp = tempfile.mkdtemp(prefix="extcfg_")
    try:
        # ---------------- (A) the design (the exhaustive runs go on in the background while the real code is exercised)
        def design():
            ctx.tlc(MOD, "CfgCache_cov.cfg", label="vacuity guard: every action fires (2 versions, one-shot listener, restart)", timeout=600)
            ctx.tlc(MOD, "CfgCache_MC.cfg", label="coherence: 3 versions, 3 calls in flight, descriptions in any order, restart, restore, garbage", timeout=900, **INV_ONLY)
            ctx.tlc(MOD, "CfgCache_MCm.cfg", label="descriptions in order: caught-up / no label rollback, populate forced and not", timeout=900, **INV_ONLY)
            ctx.tlc(MOD, "CfgCache_MCl.cfg", label="listeners: 3 registries x {plain, one-shot}, calls waiting for the connection", timeout=900, **INV_ONLY)
            ctx.tlc(MOD, "CfgCache_MCc.cfg", label="CoAP flavour of _ensure_connected: listeners, calls waiting for the connect", timeout=900, **INV_ONLY)
            ctx.tlc("cfgcache/BleCfg", "BleCfg_MC.cfg", label="BLE: 3 versions, 3 operations, advertisements in any order, 2 state numbers, restart (vacuity guard on)", timeout=900)
            ctx.tlc("cfgcache/BleCfg", "BleCfg_MCm.cfg", label="BLE: advertisements in order: caught-up", timeout=900, **INV_ONLY)
            if ctx.thorough:
                ctx.tlc(MOD, "CfgCache_MCt.cfg", label="thorough: 3 versions, 3 calls, 2 registries x {plain, one-shot}, restart", timeout=3000, **INV_ONLY)
                ctx.tlc(MOD, "CfgCache_MCt2.cfg", label="thorough: 4 versions, 4 calls in flight, 2 pairing objects", timeout=3000, **INV_ONLY)
                ctx.tlc("cfgcache/BleCfg", "BleCfg_MCt.cfg", label="thorough BLE: 4 versions, 4 operations, 3 pairing objects", timeout=3000, **INV_ONLY)
        pool_a = ThreadPoolExecutor(1)
        fut_a = pool_a.submit(design)
        ces = [_counterexample(ctx, "ip", "CfgCache_neg.cfg", ("WriteThrough", "NotifyExactlyRegistered", "FailsCleanly"), "cfg"),
               _counterexample(ctx, "ip", "CfgCache_neg2.cfg", ("ConnectedCallProceeds",), "avail")]
        ces_b = [_counterexample(ctx, "ble", "BleCfg_neg.cfg", ("LabelNeverNewerThanData", "SeenFinalHoldsFinal"), "label")]
        wit = _confirm_documented(ctx, tmp)
        # ---------------- (B) behaviours
        jobs_b = _behaviours(ctx, "ip", "CfgCache_sim.cfg", tmp, ctx.pick(500, 5000), ctx.pick(32, 48))
        jobs_bb = _behaviours(ctx, "ble", "BleCfg_sim.cfg", tmp, ctx.pick(200, 2000), ctx.pick(26, 40))
        jobs_bc = _behaviours(ctx, "coap", "CfgCache_simc.cfg", tmp, ctx.pick(150, 1500), ctx.pick(32, 48))
        nrand, nble, ncoap = ctx.pick(2500, 40000), ctx.pick(800, 12000), ctx.pick(600, 8000)
        jobs_r = [(ctx.seed * 1000003 + i, f"rnd{i}-{ctx.seed}", i, "ip") for i in range(nrand)]
        jobs_rc = [(ctx.seed * 1000211 + 3 * i + 2, f"coap-rnd{i}-{ctx.seed}", i, "coap") for i in range(ncoap)]
        jobs_rb = [(ctx.seed * 1000033 + 7 * i + 1, f"ble-rnd{i}-{ctx.seed}", i) for i in range(nble)]
        with mp.get_context("fork").Pool(min(16, os.cpu_count() or 4)) as pool:
            recs = pool.map(_run_behaviour, jobs_b, chunksize=8)
            recs += pool.map(_random_schedule, jobs_r, chunksize=8)
            brecs = pool.map(_run_behaviour, jobs_bb, chunksize=8)
            brecs += pool.map(_random_ble_schedule, jobs_rb, chunksize=8)
            crecs = pool.map(_run_behaviour, jobs_bc, chunksize=8)
            crecs += pool.map(_random_schedule, jobs_rc, chunksize=8)
        recs += [wit] + [c[0] for c in ces]
        brecs += [c[0] for c in ces_b]
        evs = [e for r in recs + brecs + crecs for e in r["events"]]
        cnt = lambda k, ok=None: sum(o[3] for e in evs for o in e["out"] if o[0] == k and (ok is None or o[2] == ok))  # noqa: E731
        ctx.notes["behaviours_replayed"] = {"ip": len(jobs_b), "ble": len(jobs_bb), "coap": len(jobs_bc)}
        ctx.notes["random_schedules"] = {"ip": nrand, "ble": nble, "coap": ncoap}
        ctx.notes["events"] = len(evs)
        ctx.notes["config_change_tasks"] = {"started": cnt("cfgtask"), "completed": cnt("cfgend", 1), "failed": cnt("cfgend", 0)}
        ctx.notes["listener_calls"] = {k: cnt(k) for k in ("notify", "avail", "event")}
        ctx.notes["ble_database_fetches"] = cnt("fetch")
        ctx.notes["cache_writes"] = sum(len(e["saves"]) for e in evs)
        ctx.notes["restarts"] = sum(1 for e in evs if e["ev"] == "restart")
        ctx.notes["file_cache_executions"] = sum(1 for r in recs + brecs + crecs if r["cache_kind"] == "file")
        ctx.notes["stimuli"] = {k: sum(1 for e in evs if e["ev"] == k) for k in sorted({e["ev"] for e in evs})}
        ctx.notes["misplaced_calls"] = sum(1 for e in evs for o in e["out"] if o[0] in ("ghost", "raised", "badreq"))
        for r in recs + brecs + crecs:
            nontrivial = any(o[0] in ("cfgtask", "saved") for e in r["events"] for o in e["out"])
            ctx.case(json.dumps([r["flavour"], _trim(r)["events"]], sort_keys=True) if nontrivial else None)
        # ---------------- (C) verdict
        known, bad = _validate(ctx, "ip", recs, "trace validation CfgCache_Trace", tmp)
        _confirm_findings(ctx, "ip", ces, known, bad)
        _report_known(ctx, "ip", known, f"of {len(recs)} IP executions")
        kb, bb = _validate(ctx, "ble", brecs, "trace validation BleCfg_Trace", tmp)
        _confirm_findings(ctx, "ble", ces_b, kb, bb)
        _report_known(ctx, "ble", kb, f"of {len(brecs)} BLE executions")
        kc, bc = _validate(ctx, "coap", crecs, "trace validation CfgCache_Trace (CoAP flavour)", tmp)
        _report_known(ctx, "coap", kc, f"of {len(crecs)} CoAP executions")
        _report(ctx, bad + bb + bc)
        fut_a.result()          # the exhaustive runs (a violation there has been reported by ctx.tlc; a machinery failure is raised here)
        pool_a.shutdown()
        bad_ids = {b[0]["id"] for b in bad + bb + bc}
        for fl, rs in (("ip", recs), ("ble", brecs), ("coap", crecs)):
            for src in ("behaviour", "random"):
                for r in rs:
                    if r["src"] == src and r["id"] not in bad_ids and any(o[0] == "notify" for e in r["events"] for o in e["out"]):
                        ctx.sample({fl + " " + src: {k: r[k] for k in ("cache0", "accv0", "cache_kind", "cbase")},
                                    "events": [{k: v for k, v in e.items() if k in WHAT + ("out", "saves")} for e in r["events"][:14]]})
                        break
        ctx.exhaustive = False
    finally:
        if "pool_a" in locals():
            pool_a.shutdown(wait=True)
        shutil.rmtree(tmp, ignore_errors=True)
