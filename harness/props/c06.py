"""C06 - no nonce reuse; no encrypted message accepted twice or out of order (spec/session/SessionCounters.tla).

(A) TLC: SessionCounters for IP, BLE and COAP (with only the harmless "forward" resynchronisation) -
    NoNonceReuse, AcceptOnceInOrder, AcceptPrefix, ClosedEpochUnused.
(A') the CoAP resynchronisation heuristics "rewind" and "reset" are modelled as deviation actions: TLC must
    still find the documented counterexamples and they must still replay on the real EncryptionContext
    (KNOWN-FINDING; a finding that no longer reproduces is reported as stale).
(B) TLC -simulate behaviours per transport are driven on the real session layers (IP: SecureHomeKitProtocol,
    BLE: EncryptionKey/DecryptionKey, CoAP: EncryptionContext.post_bytes + EventResource.render_put).
(C) those executions and seeded random histories (requests, genuine / replayed / future / corrupted messages,
    cancellation, time-out, re-key) are recorded at the AEAD boundary and validated against
    SessionCounters_Trace; CoAP traces that are only explained by a listed deviation are KNOWN-FINDINGs.
"""
from __future__ import annotations

import asyncio
import glob
import json
import os
import random
import re
import shutil
import tempfile

from harness import tlc as T
from harness import tracecheck
from harness.common import SPEC

SIG_REWIND = "coap-resync-rewind"
SIG_RESET = "coap-resync-reset"
_ACT = re.compile(r"^(\w+)(?:\((\d+)\))?")


def _parse_actions(names):
    out = []
    for n in names:
        m = _ACT.match(n)
        if m and m.group(1) not in ("Initial", "Init"):
            out.append((m.group(1), int(m.group(2)) if m.group(2) is not None else None))
    return out


def _behaviours(ctx, tmp, transport, cfg, num, seed):
    d = os.path.join(tmp, f"sim_{transport}")
    os.makedirs(d, exist_ok=True)
    c = os.path.join(tmp, f"sim_{transport}.cfg")
    src = re.sub(r"^(INVARIANT|PROPERTY|CONSTRAINT).*\n", "", open(os.path.join(SPEC, "session", cfg)).read(), flags=re.M)
    src = src.replace("MaxCtr = 4", "MaxCtr = 12").replace("MaxFrames = 2", "MaxFrames = 3")
    open(c, "w").write(src)
    ctx.tlc("session/SessionCounters", c, simulate=f"file={d}/b,num={num}", depth=25, seed=seed, workers=1,
            coverage=False, require_cover=False, label=f"simulate {transport}: behaviours for replay")
    out = []
    hdr = re.compile(r"^\\\* <(\w+)(?:\((\d+)\))? line \d+", re.M)
    for f in sorted(glob.glob(d + "/b_*")):
        txt = open(f).read()
        out.append([(m.group(1), int(m.group(2)) if m.group(2) else None) for m in hdr.finditer(txt) if m.group(1) != "Init"])
    shutil.rmtree(d, ignore_errors=True)
    return out


def _replay(ctx):
    from harness import c06_driver as D
    whole = json.load(open(ctx.replay))
    rep = whole.get("replay") or {}
    rec = rep.get("record", rep)
    if rep.get("kind") == "ble-pairing-trace":
        return _replay_ble_pairing(ctx, whole, rec)
    ctx.rule = "replay of one stored action sequence on the tree under test"
    acts = rec.get("actions") or []
    parsed = [(a, b) for a, b in (_parse_actions([x])[0] if _parse_actions([x]) else (None, None) for x in acts) if a] if acts and isinstance(acts[0], str) \
        else [tuple(a) for a in acts]
    t = str(rec.get("id", "COAP")).split("-")[0]
    if t == "BLEREQ":
        return _replay_blereq(ctx, whole, rec)
    if str(rec.get("id", "")).endswith("rekey-freshness"):
        ctx.rule = "replay: the re-key freshness observation is made again on the tree under test"
        return _rekey_freshness(ctx)
    t = t if t in ("IP", "BLE", "COAP") else "COAP"
    loop = asyncio.new_event_loop()
    asyncio.set_event_loop(loop)
    try:
        r = loop.run_until_complete(D.drive(t, random.Random(ctx.seed), parsed))
        fresh = {"id": rec.get("id", "replay"), "events": r.events}
        ctx.case(json.dumps(r.events))
        ctx.sample({"replayed_events": r.events[:30]})
        for pr in r.problems:
            ctx.violation(f"{t}: {pr}", fresh)
        cfg = {"IP": "SessionCounters_Trace_IP.cfg", "BLE": "SessionCounters_Trace_BLE.cfg", "COAP": "SessionCounters_Trace_COAP_forward.cfg"}[t]
        rej = tracecheck.validate(ctx, "session/SessionCounters_Trace", cfg, [fresh], label="replay")
        if rej and t == "COAP":
            rej2 = tracecheck.validate(ctx, "session/SessionCounters_Trace", "SessionCounters_Trace_COAP_all.cfg", [fresh], label="replay with deviations")
            if not rej2:
                for s in (SIG_REWIND, SIG_RESET):
                    ctx.violation("replayed CoAP execution is only explained by a resynchronisation deviation", fresh, signature=s)
                rej = []
        for j in rej:
            ctx.violation(f"replayed execution is not a behaviour of SessionCounters: event #{j['maxl']} {j['event']}", fresh)
    finally:
        loop.close()
        asyncio.set_event_loop(None)


def _rekey_freshness(ctx):
    """Re-keying: every pair-verify must contribute a new controller ephemeral key (else a replayed accessory flight
    reproduces an old session key and with it nonces that were already used); observed at the first flight of the real
    state machine, judged by the specification's Rekey step."""
    from aiohomekit.protocol import get_session_keys
    pks, evs = [], []
    for _ in range(6):
        flight, _expected = get_session_keys({"AccessoryPairingID": "00:00:00:00:00:00", "AccessoryLTPK": "00" * 32,
                                              "iOSPairingId": "x", "iOSDeviceLTSK": "00" * 32, "iOSDeviceLTPK": "00" * 32}).send(None)
        pk = next((bytes(v) for t, v in flight if int(t) == 3), None)
        evs += [{"ev": "rekey", "fresh": pk is not None and pk not in pks}, {"ev": "enc", "c0": 0, "n": 1}]
        pks.append(pk)
    ctx.case(("pair-verify ephemeral keys", len(set(pks))))
    for t in ("IP", "BLE"):
        for j in tracecheck.validate(ctx, "session/SessionCounters_Trace", f"SessionCounters_Trace_{t}.cfg",
                                     [{"id": f"{t}-rekey-freshness", "events": evs}], label=f"re-key freshness ({t})"):
            ctx.violation(f"{t}: pair-verify #{(j['maxl'] + 1) // 2} re-used the controller's ephemeral key of an earlier pair-verify: a replayed "
                          f"accessory flight then yields the same session key again and every nonce under it is used twice",
                          {"record": j.get("record"), "position": j.get("maxl")})


def _replay_blereq(ctx, whole, rec):
    """Re-execute the stored request-level BLE history (same seed => same transactions) and validate the fresh trace."""
    from harness import c06_driver as D
    i = int(str(rec["id"]).split("-")[1])
    loop = asyncio.new_event_loop()
    asyncio.set_event_loop(loop)
    try:
        r = loop.run_until_complete(D.drive_ble_requests(random.Random(int(whole.get("seed", ctx.seed)) * 15485863 + i), 12))
    finally:
        loop.close()
        asyncio.set_event_loop(None)
    fresh = {"id": rec["id"], "events": r.events}
    ctx.rule = "replay of one stored BLE request-level history on the tree under test"
    ctx.case(json.dumps(r.events))
    ctx.sample({"replayed_events": r.events[:30]})
    for pr in r.problems[:3]:
        ctx.violation(f"BLE request level: {pr}", fresh)
    for j in tracecheck.validate(ctx, "session/SessionCounters_Trace", "SessionCounters_Trace_BLE.cfg", [fresh], label="replay"):
        ctx.violation(f"replayed BLE request-level execution is not a behaviour of SessionCounters: "
                      + (f"invariant {j['invariant']} violated" if j.get("invariant") else f"event #{j['maxl']} {j['event']} cannot be explained"), fresh)


def _replay_ble_pairing(ctx, whole, rec):
    """Re-execute the stored pairing-level BLE execution (same seed => same schedule) and validate the fresh trace."""
    import re
    from harness.props import extble
    ctx.rule = "replay of one stored BLE pairing-level execution on the tree under test"
    m = re.match(r"rnd(\d+)$", str(rec.get("id", "")))
    use = rec
    if m:
        use = extble._random_run(extble._rnd_job(int(whole.get("seed", ctx.seed)), int(m.group(1)), whole.get("tier") == "thorough"))
    ctx.notes["replayed"] = "re-executed" if use is not rec else "recorded trace re-validated"
    ctx.case(json.dumps(use["events"]))
    ctx.sample({"replayed_events": use["events"][:30]})
    for j in extble.validate(ctx, [use], cfg="BleSession_Trace_c06.cfg", label="replay"):
        if j.get("invariant") or (j.get("event") or {}).get("ev") in ("enc", "dec", "keys"):
            ctx.violation(f"replayed BLE pairing-level execution: " + (f"invariant {j['invariant']} violated" if j.get("invariant")
                          else f"AEAD-boundary event #{j['maxl']} {j['event']} is not allowed by the BLE session model"), use)


def _apalache(ctx, tmp):
    """Unbounded-counter argument: Apalache discharges the inductive invariant IndInv of SessionCounters
    (initiation, consecution, IndInv => NoNonceReuse /\\ AcceptOnceInOrder) for IP, BLE and CoAP-with-forward, and
    must REFUTE consecution when the reset / rewind heuristics are enabled."""
    import shutil as _sh
    import subprocess
    import time
    from harness.common import MachineryError
    if not _sh.which("apalache-mc"):
        ctx.notes["apalache"] = "apalache-mc not found: inductive-invariant obligations skipped"
        return
    spec = os.path.join(SPEC, "session", "MC_SessionCountersInd.tla")
    jobs = [("initiation", "--cinit=ConstInit --init=Init --inv=IndInv --length=0", True),
            ("consecution", "--cinit=ConstInit --init=IndInit --inv=IndInv --next=Next --length=1", True),
            ("implies NoNonceReuse and AcceptOnceInOrder", "--cinit=ConstInit --init=IndInit --inv=Safety --length=0", True),
            ("sanity: not inductive with reset", "--cinit=ConstInitReset --init=IndInit --inv=IndInv --next=Next --length=1", False),
            ("sanity: not inductive with rewind", "--cinit=ConstInitRewind --init=IndInit --inv=IndInv --next=Next --length=1", False)]
    out = []
    for name, args, want_ok in jobs:
        t0 = time.time()
        # Apalache's SANY front end unpacks modules under the JVM temp directory: keep that inside our scratch dir
        env = dict(os.environ, TMPDIR=tmp, JVM_ARGS=(os.environ.get("JVM_ARGS", "") + f" -Djava.io.tmpdir={tmp}").strip())
        p = subprocess.run(["apalache-mc", "check", *args.split(), f"--out-dir={tmp}/apa", spec], capture_output=True, text=True,
                           timeout=900, cwd=os.path.dirname(spec), env=env)
        ok = "The outcome is: NoError" in p.stdout
        err = "The outcome is: Error" in p.stdout
        if not ok and not err:
            raise MachineryError(f"apalache obligation '{name}' gave no verdict:\n{p.stdout[-1500:]}")
        if ok != want_ok:
            raise MachineryError(f"apalache obligation '{name}': expected {'NoError' if want_ok else 'Error'}, got {'NoError' if ok else 'Error'}")
        out.append({"obligation": name, "outcome": "NoError" if ok else "Error (as required)", "wall_s": round(time.time() - t0, 1)})
    ctx.notes["apalache_inductive_invariant"] = out


def _ble_pairing_level(ctx):
    """BLE at pairing level: seeded random executions of the real BlePairing (calls, faults, link loss, cancellation,
    close) recorded at the Bluetooth / AEAD / API boundaries by the BLE session extension (spec/ble/BleSession.tla) and
    validated by TLC with this property's invariants only: no nonce twice under one key, fragments accepted once and in
    order, keys installed once per pair-verify, the keys of a failed or cancelled request never used again.  The
    session model is taken with its one recorded deviation enabled (EXTBLE: keys installed for a link that is already
    lost - no nonce is reused there), so that finding is not an alarm of this property.  Executions that the session
    model cannot follow for reasons outside the AEAD boundary are EXTBLE's business and only counted here."""
    from harness.props import extble
    recs = extble.pairing_level_records(ctx, ctx.pick(120, 1500))
    for r in recs:
        ctx.case(json.dumps(r["events"]) if any(e["ev"] == "enc" for e in r["events"]) else None)
    rej = extble.validate(ctx, recs, cfg="BleSession_Trace_c06.cfg", label="BLE pairing level, session model with C06 invariants")
    other = 0
    for j in rej:
        rid = j["record"].get("id", "?")
        if j.get("invariant"):
            ctx.violation(f"BLE pairing-level execution {rid} drives the BLE session model into a state violating {j['invariant']}",
                          {"kind": "ble-pairing-trace", "record": j["record"], "position": j.get("maxl"), "invariant": j["invariant"]})
        elif (j.get("event") or {}).get("ev") in ("enc", "dec", "keys"):
            ctx.violation(f"BLE pairing-level execution {rid}: AEAD-boundary event #{j['maxl']} {j['event']} is not allowed by the BLE "
                          f"session model (counter / key use the model cannot explain)",
                          {"kind": "ble-pairing-trace", "record": j["record"], "position": j.get("maxl"), "first_unexplained": j["event"]})
        else:
            other += 1
    ctx.notes["ble_pairing_level_executions"] = len(recs)
    ctx.notes["ble_pairing_level_rejected_outside_aead_boundary"] = other


def run(ctx):
    from harness import c06_driver as D
    if ctx.replay:
        return _replay(ctx)
    ctx.rule = ("action sequences over {request n, accessory produces, deliver genuine k (next / replay / future), corrupted, "
                "abandon, re-key, CoAP events}; TLC explores them to a depth bound per transport; executions of the real layers "
                "are TLC behaviours + seeded random histories; distinct by recorded event sequence; non-trivial if >= 1 delivery")
    ctx.assume("AEAD is ideal (a message verifies only under its own key and counter)",
               "the Apalache inductive-invariant obligations quantify over states with at most 4 history entries (Gen(4)); counters and epochs are unbounded",
               "IP is driven at the protocol object (stub transport), BLE at the key objects used by _write_pdu/_read_pdu, "
               "CoAP at EncryptionContext.post_bytes / EventResource.render_put with a stub aiocoap context",
               "CoAP 'forward' resynchronisation (skipping dropped responses) is not a violation: still once and in order")
    tmp = tempfile.mkdtemp(prefix="c06_")
    loop = asyncio.new_event_loop()
    asyncio.set_event_loop(loop)
    rng = ctx.rng
    try:
        # ---------------- (A)
        for t in ("IP", "BLE", "COAP"):
            ctx.tlc("session/SessionCounters_MC", f"SessionCounters_{t}.cfg", label=f"{t}: exhaustive to depth bound",
                    ignore_cover=("AccProduceEvent", "DeliverEvent") if t != "COAP" else ())
        _apalache(ctx, tmp)
        # ---------------- (A') the two recorded CoAP findings: still in the model, still on the real code
        for sig, cfg, prop in ((SIG_REWIND, "SessionCounters_COAP_rewind.cfg", "AcceptOnceInOrder"),
                               (SIG_RESET, "SessionCounters_COAP_resetnonce.cfg", "NoNonceReuse")):
            res = ctx.tlc("session/SessionCounters_MC", cfg, expect_violation=True, require_cover=False, coverage=False,
                          label=f"deviation {sig}: TLC must find the counterexample")
            if res.ok:
                ctx.notes[f"{sig}_model"] = "no counterexample found (deviation no longer violates the model)"
                continue
            ce = T.parse_counterexample(res.violation["trace"])
            acts = _parse_actions([a for a, _ in ce])
            r = loop.run_until_complete(D.drive("COAP", rng, acts))
            if sig == SIG_RESET and r.open:
                # a request is only observable together with its response on CoAP: finish the counterexample with one
                # more honest exchange so that the request after the counter reset is actually encrypted
                async def more():
                    while len(r.frames) <= r.ctx.recv_ctr:
                        await r.produce()
                    await r.deliver(r.ctx.recv_ctr)
                loop.run_until_complete(more())
            dl = [e for e in r.events if e["ev"] == "deliver" and e["ok"]]
            ks = [e["k"] for e in dl]
            send = getattr(r, "all_send", [])
            real = (len(ks) != len(set(ks))) if sig == SIG_REWIND else (len(send) != len(set(send)))
            ctx.case(("deviation", sig))
            if real:
                ctx.violation(f"CoAP {sig}: TLC counterexample {acts} reproduces on EncryptionContext "
                              f"(accepted counters {ks}, send nonces {send})",
                              {"actions": acts, "events": r.events}, signature=sig)
            else:
                ctx.notes[f"{sig}_real"] = "counterexample does not reproduce on the real code any more (stale finding?)"
        # ---------------- (B) + (C)
        recs = {"IP": [], "BLE": [], "COAP": []}
        nb = ctx.pick(150, 1500)
        nr = ctx.pick(300, 4000)
        for t in ("IP", "BLE", "COAP"):
            beh = _behaviours(ctx, tmp, t, f"SessionCounters_{t}.cfg", nb, ctx.seed % 100000)
            seqs = [("beh", b) for b in beh] + [("rnd", D.random_actions(rng, t, rng.choice([15, 30, 60]),
                                                                        attack=rng.choice([0.0, 0.1, 0.3]))) for _ in range(nr)]
            for i, (src, acts) in enumerate(seqs):
                r = loop.run_until_complete(D.drive(t, random.Random(ctx.seed * 7919 + i), acts))
                rec = {"id": f"{t}-{src}{i}", "events": r.events, "actions": [f"{a}({b})" if b is not None else a for a, b in acts]}
                recs[t].append(rec)
                ctx.case(json.dumps(r.events) if any(e["ev"] == "deliver" for e in r.events) else None)
                for pr in r.problems:
                    ctx.violation(f"{t}: {pr}", rec)
        for t in ("IP", "BLE"):
            rej = tracecheck.validate(ctx, "session/SessionCounters_Trace", f"SessionCounters_Trace_{t}.cfg", recs[t],
                                      label=f"trace validation {t} ({len(recs[t])} executions)")
            for j in rej:
                ctx.violation(f"{t} execution {j['record']['id'] if j.get('record') else '?'} is not a behaviour of SessionCounters: "
                              + (f"invariant {j['invariant']} violated" if j.get("invariant") else f"event #{j['maxl']} {j['event']} cannot be explained"),
                              {"record": j.get("record"), "position": j.get("maxl"), "last_matched_state": j.get("last_state")})
        _rekey_freshness(ctx)
        # BLE at request level: the real ble_request / _write_pdu / _read_pdu between real key objects and a conformant
        # accessory, with refused writes (at the first or a later fragment), lost, replayed and corrupted response fragments
        breq = []
        for i in range(ctx.pick(200, 2500)):
            r = loop.run_until_complete(D.drive_ble_requests(random.Random(ctx.seed * 15485863 + i), 12))
            rec = {"id": f"BLEREQ-{i}", "events": r.events}
            breq.append(rec)
            ctx.case(json.dumps(r.events) if any(e["ev"] == "deliver" for e in r.events) else None)
            for pr in r.problems[:3]:
                ctx.violation(f"BLE request level: {pr}", rec)
        rej = tracecheck.validate(ctx, "session/SessionCounters_Trace", "SessionCounters_Trace_BLE.cfg", breq,
                                  label=f"trace validation BLE request level ({len(breq)} executions)")
        for j in rej:
            ctx.violation(f"BLE request-level execution {j['record']['id'] if j.get('record') else '?'} is not a behaviour of SessionCounters: "
                          + (f"invariant {j['invariant']} violated" if j.get("invariant") else f"event #{j['maxl']} {j['event']} cannot be explained"),
                          {"record": j.get("record"), "position": j.get("maxl"), "last_matched_state": j.get("last_state")})
        ctx.notes["ble_request_level_executions"] = len(breq)
        _ble_pairing_level(ctx)
        # CoAP: first without the deviations; what is rejected must be explained by a listed deviation
        rej = tracecheck.validate(ctx, "session/SessionCounters_Trace", "SessionCounters_Trace_COAP_forward.cfg", recs["COAP"],
                                  label=f"trace validation COAP without deviations ({len(recs['COAP'])} executions)")
        pending = [j["record"] for j in rej if j.get("record")]
        ctx.notes["coap_traces_needing_a_deviation"] = len(pending)
        for sig, cfg in ((SIG_REWIND, "SessionCounters_Trace_COAP_rewind.cfg"), (SIG_RESET, "SessionCounters_Trace_COAP_reset.cfg"),
                         (SIG_REWIND + "+" + SIG_RESET, "SessionCounters_Trace_COAP_all.cfg")):
            if not pending:
                break
            rej2 = tracecheck.validate(ctx, "session/SessionCounters_Trace", cfg, pending, label=f"trace validation COAP with {sig}")
            still = [j["record"] for j in rej2 if j.get("record")]
            explained = [r for r in pending if r not in still]
            for r in explained:
                for s in sig.split("+"):
                    ctx.violation(f"CoAP execution {r['id']} is only explained by the resynchronisation deviation {s}", r, signature=s)
            pending = still
            last_rej = rej2
        for r in pending:
            j = next((x for x in last_rej if x.get("record") is r), {})
            ctx.violation(f"COAP execution {r['id']} is not a behaviour of SessionCounters even with the listed deviations: "
                          f"event #{j.get('maxl')} {j.get('event')} cannot be explained",
                          {"record": r, "position": j.get("maxl"), "last_matched_state": j.get("last_state")})
        ctx.sample({"ip_trace": recs["IP"][0]["events"][:20]})
        ctx.sample({"coap_trace": next((r["events"][:20] for r in recs["COAP"] if len(r["events"]) > 8), [])})
    finally:
        try:
            left = [t for t in asyncio.all_tasks(loop) if not t.done()]
            for t in left:
                t.cancel()
            if left:
                loop.run_until_complete(asyncio.gather(*left, return_exceptions=True))
        except Exception:  # noqa: BLE001
            pass
        loop.close()
        asyncio.set_event_loop(None)
        shutil.rmtree(tmp, ignore_errors=True)
