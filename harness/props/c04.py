"""C04 - an accessory error or an out-of-sequence reply never completes as success.

(A) TLC: spec/pairing/HapErrors - the reply-handling algorithm (transport type filter, step-number
    check, error check, required fields) over every (step, transport, reply) cell; invariants
    ErrorNeverSuccess / WrongStateNeverSuccess / OutcomeAllowed against the relation Allowed(step, reply).
(B) spec -> code: every cell TLC exports (10 steps - incl. the pair-resume answer PV_M2R - x transports x State values x Error values x
    subsets of the step's other fields x trailing RetryDelay) is concretised with the reference
    accessory and run on the real code: the protocol generators directly and through the IP, CoAP
    and BLE drivers that wrap them, IpPairing/BlePairing add_pairing/remove_pairing.  The observed
    outcome class must be in the cell's `allowed` set computed by the specification.
(C) code -> spec: the observations (plus, thorough tier, seeded random State/Error byte values
    outside the enumerated ones) are written as records and validated by TLC against
    HapErrors_Trace (Conforms, NeverSuccess).
"""
from __future__ import annotations

import json
import multiprocessing as mp
import os
import shutil
import tempfile

from harness.common import MachineryError

ABSENT, EMPTY = 256, 257
STATE_EMPTY, STATE_TRAILING = 258, 259        # State item of length 0 / expected step number + one trailing byte
_FIELD = {"pk": 3, "salt": 2, "proof": 4, "enc": 5, "method": 0, "sid": 14, "tag": 5}
_STEP_NO = {"PS_M2": 2, "PS_M4": 4, "PS_M6": 6, "PV_M2": 2, "PV_M2R": 2, "PV_M4": 4}


def concretise(cell, honest_items) -> bytes:
    """TLV bytes of the symbolic reply: State?, Error?, the step's fields (honest values), RetryDelay?"""
    from harness.refacc import tlv as T
    hd = honest_items if isinstance(honest_items, dict) else dict(honest_items)
    out = []
    for name in cell["wire"]:
        if name == "state":
            sv = cell["state"]
            out.append((T.STATE, b"" if sv == STATE_EMPTY else bytes([_STEP_NO.get(cell["step"], 2), 0xFF]) if sv == STATE_TRAILING
                        else bytes([sv])))
        elif name == "error":
            out.append((T.ERROR, b"" if cell["error"] == EMPTY else bytes([cell["error"]])))
        elif name == "retry":
            out.append((T.RETRY_DELAY, b"\x05"))
        else:
            v = hd.get(name, hd.get(_FIELD[name]))
            if v is None:                      # optional blob the honest accessory does not send (MFi at PS-M4)
                v = bytes(range(48))
            out.append((_FIELD[name], v))
    return T.enc(out)


_PD = None


def _pairing_data():
    """(identity, pairing data) for pair-verify / pairing management cells."""
    global _PD
    if _PD is None:
        from harness.refacc import accessory as A
        ident = A.Identity(seed=bytes(range(32)))
        ctrl = A.ControllerIdentity(seed=bytes(range(1, 33)))
        _PD = (ident, ident.pairing_data(ctrl, hosts=("10.0.0.1",)))
    return _PD


def run_cell(cell):
    """Run one cell on the real code -> (observed class, detail)."""
    from harness import pairing_driver as D
    step, tr = cell["step"], cell["tr"]
    fired = []
    sent = {}

    def hook(acc, st, items, honest):
        if st == step and not fired:
            fired.append(1)
            # the honest values are only computed when the reply carries one of the step's fields
            sent["reply"] = concretise(cell, honest() if cell["others"] else [])
            return sent["reply"]
        return None

    if step.startswith("PS_"):
        acc = D.ScriptedAccessory(hook=hook)
        pin = None if step == "PS_M2" else D.PIN
        o = {"gen": D.gen_pair_setup, "ip": D.ip_pair_setup, "coap": D.coap_pair_setup, "ble": D.ble_pair_setup}[tr](acc, pin)
    elif step == "PV_M2R":
        # a previous full exchange on the same transport gives the controller its resumable session (session id +
        # derive, produced by the real code); the reference accessory keeps that session's shared secret
        from harness.refacc import attacker as K
        from harness.refacc import crypto as C
        from harness.refacc import tlv as T
        ident, pd = _pairing_data()
        first = D.ScriptedAccessory(ident=ident)
        o1 = D.gen_pair_verify(first, pd) if tr == "gen" else D.ble_pair_verify(first, pd)
        if not o1.ok:
            return "machinery", f"the full pair-verify before the resume failed ({o1!r})"
        sid, derive = o1.value if tr == "gen" else (o1.extra["session_id"], o1.extra["derive"])
        s0 = first.pv.shared

        def rhook(acc, st, items, honest):
            if st == "PV_M2" and not fired:
                fired.append(1)
                d = dict(items)
                if K.resume_check_m1(s0, K.resume_session_id(s0), items) is not None:
                    sent["not_a_resume_request"] = True
                ios_pk = bytes(d[T.PUBLIC_KEY])
                new_sid = bytes(range(8, 16))
                tag = C.seal(K.resume_response_key(s0, ios_pk, new_sid), C.label_nonce(b"PR-Msg02"), b"")
                sent["reply"] = concretise(cell, {"method": K.METHOD_RESUME, "sid": new_sid, "tag": tag})
                return sent["reply"]
            return None
        acc = D.ScriptedAccessory(ident=ident, hook=rhook)
        o = D.gen_pair_verify(acc, pd, sid, derive) if tr == "gen" else D.ble_pair_verify(acc, pd, resume=(sid, derive))
        if sent.get("not_a_resume_request"):
            return "machinery", "the controller did not send a well-formed resume request although it holds a session"
    elif step.startswith("PV_"):
        ident, pd = _pairing_data()
        acc = D.ScriptedAccessory(ident=ident, hook=hook)
        o = {"gen": D.gen_pair_verify, "ip": D.ip_pair_verify, "coap": D.coap_pair_verify, "ble": D.ble_pair_verify}[tr](acc, pd)
    else:
        ident, pd = _pairing_data()
        from harness.refacc import tlv as T

        def reply_fn(items):
            fired.append(1)
            sent["reply"] = concretise(cell, [])
            return sent["reply"]
        op = "add" if step.endswith("Add") else "remove"
        if tr == "ip":
            o = D.ip_pairing_mgmt(D.ScriptedAccessory(ident=ident), pd, op, reply_fn)
        else:
            o = D.ble_pairing_mgmt(pd, op, reply_fn)
    if not fired:
        return "machinery", f"the driver never reached step {step} ({o!r})"
    detail = {"reply": sent.get("reply", b"").hex(), "exception": None if o.ok else repr(o.exc)}
    if o.ok and step.startswith("IP_") or o.ok and step.startswith("BLE_"):
        detail["returned"] = repr(o.value)
    return o.cls(), detail


def _spec_class(observed: str) -> str:
    if observed.startswith("OtherLib:"):
        return "OtherLib"
    if observed.startswith("NonLib:"):
        return "NonLib"
    return observed


def _work(cell):
    try:
        return run_cell(cell)
    except Exception as ex:  # noqa: BLE001
        import traceback
        return "machinery", traceback.format_exc()[-1500:]


def _cell_key(c):
    return (c["step"], c["tr"], c["state"], c["error"], tuple(c["others"]), c["retry"])


def _describe(c):
    st = {ABSENT: "absent", STATE_EMPTY: "zero-length", STATE_TRAILING: "expected+trailing byte"}.get(c["state"]) or f"0x{c['state']:02x}"
    er = "absent" if c["error"] == ABSENT else "empty" if c["error"] == EMPTY else f"0x{c['error']:02x}"
    rd = {"none": "", "last": " +RetryDelay(last)", "first": " +RetryDelay(before Error)"}[c["retry"]]
    return f"step {c['step']} via {c['tr']}: reply State={st} Error={er} fields={c['others']}{rd}"


def run(ctx):
    import aiohomekit  # noqa: F401
    ctx.rule = ("a cell = (protocol step, transport, State value or absent, Error value / empty / absent, subset of the "
                "step's other fields, RetryDelay item absent / last / before the Error) as enumerated by TLC from "
                "spec/pairing/HapErrors.tla; "
                "non-trivial = the reply carries an error or a wrong step number")
    ctx.assume("reply items are the ones HAP defines for the reply (State, Error, RetryDelay, the step's fields), sent in the order "
               "State, [RetryDelay], Error, step fields, [RetryDelay]; an item of any *other* type placed before the Error item "
               "is cut off by the IP/CoAP decoder's expected-types filter and is not part of the claim",
               "outcome classes are taken by isinstance against aiohomekit.exceptions; IP pair-verify is observed through "
               "IpPairing.connection.ensure_connection()/last_connector_error on the virtual-time loop",
               "BLE add/remove pairing: BlePairing._async_request and _populate_accessories_and_characteristics are "
               "replaced by the scripted accessory (the GATT connection life-cycle is not part of this property)")
    tmp = tempfile.mkdtemp(prefix="c04_")
    try:
        if ctx.replay:
            return _replay(ctx)
        # ---------------- (A) design level + (B) export
        out = os.path.join(tmp, "cases.ndjson")
        # quick: the wrong step numbers 1, 3, 5 are left to the thorough tier (0, 2, 4, 6, 255 and the three non-values stay)
        ctx.tlc("pairing/HapErrors_Cases", ctx.pick("HapErrors_Cases_quick.cfg", "HapErrors_Cases_real.cfg"), env={"CASES_OUT": out},
                label="reply handling over all cells + case export with Allowed(step, reply)")
        cells = [json.loads(line) for line in open(out)]
        if len(cells) < 1000:
            raise MachineryError(f"only {len(cells)} cells exported")
        cells.sort(key=_cell_key)
        # ---------------- run every cell on the real code
        with mp.get_context("fork").Pool(16) as pool:
            results = pool.map(_work, cells, chunksize=16)
        recs = []
        groups = {}
        honest_ok = {}
        divergences = 0
        for c, (obs, detail) in zip(cells, results):
            if obs == "machinery":
                raise MachineryError(f"{_describe(c)}: {detail}")
            nontrivial = c["error"] != ABSENT or c["state"] not in (ABSENT, _STEP_NO.get(c["step"], 2))
            ctx.case(_cell_key(c) if nontrivial else None)
            cls = _spec_class(obs)
            recs.append({"step": c["step"], "tr": c["tr"], "state": c["state"], "error": c["error"],
                         "others": c["others"], "retry": c["retry"], "observed": cls})
            if cls != c["model"]:
                divergences += 1
            if not nontrivial and set(c["others"]) >= _needed(c["step"]) and c["state"] != ABSENT:
                honest_ok[(c["step"], c["tr"])] = honest_ok.get((c["step"], c["tr"]), True) and obs == "ok"
            if cls not in c["allowed"]:
                kind = "reported as success" if obs == "ok" else f"ended as {obs}"
                g = groups.setdefault((c["step"], c["tr"], c["state"] == ABSENT, c["retry"] == "first", kind), [])
                g.append((c, obs, detail))
            else:
                ctx.trace_ok()
            if nontrivial and len(ctx.samples) < 4 and (c["step"], c["tr"], c["error"]) in (
                    ("PV_M4", "ip", 2), ("PS_M4", "ble", 6), ("PS_M6", "coap", 7), ("IP_Remove", "ip", 2)) \
                    and c["state"] == ABSENT and c["retry"] == "none":
                ctx.sample({"cell": {k: c[k] for k in ("step", "tr", "state", "error", "others", "retry", "allowed")},
                            "observed": obs, "reply": detail["reply"]})
        # vacuity guard: the driver really reaches every step with an exchange that completes
        for s, t in sorted({(c["step"], c["tr"]) for c in cells}):
            if not honest_ok.get((s, t)):
                raise MachineryError(f"baseline: the honest reply at {s} via {t} does not complete on this tree - "
                                     f"the cells of this step cannot be evaluated")
        for (s, t, noabs, rfirst, kind), items in sorted(groups.items(), key=lambda kv: (kv[0][0], kv[0][1], str(kv[0][2:]))):
            c, obs, detail = items[0]
            ctx.violation(
                f"{_describe(c)} {kind}; the specification allows {sorted(c['allowed'])} "
                f"[{len(items)} cells of this step/transport fail the same way"
                f"{', all without a State item' if noabs else ''}"
                f"{', all with a RetryDelay item before the Error item' if rfirst else ''}]  exception: {detail['exception']}",
                {"kind": "cell", "cell": c, "observed": obs, "detail": detail,
                 "more": [_describe(x[0]) + " -> " + x[1] for x in items[1:6]]})
        ctx.notes["cells"] = len(cells)
        ctx.notes["cells_where_code_and_model_differ_within_allowed"] = divergences
        # ---------------- (C) TLC validates what the code did
        _validate(ctx, tmp, "trace.ndjson", recs, "observed outcomes of all cells validated against Allowed",
                  already_reported=bool(groups))
        if ctx.thorough:
            _validate(ctx, tmp, "trace_rand.ndjson", _random_records(ctx, 3000),
                      "seeded random State/Error byte values validated against Allowed", already_reported=False)
        ctx.exhaustive = bool(ctx.thorough)
    finally:
        shutil.rmtree(tmp, ignore_errors=True)


def _validate(ctx, tmp, name, recs, label, already_reported):
    tf = os.path.join(tmp, name)
    with open(tf, "w") as f:
        for r in recs:
            f.write(json.dumps(r) + "\n")
    res = ctx.tlc("pairing/HapErrors_Trace", "HapErrors_Trace.cfg", env={"TRACE_FILE": tf}, expect_violation=True,
                  require_cover=False, label=label)
    if res.ok:
        if already_reported:
            raise MachineryError("cells outside Allowed were accepted by HapErrors_Trace")
        return
    if already_reported:
        return                      # the same failures, already reported cell by cell
    from harness import tlc as TL
    ce = TL.parse_counterexample(res.violation["trace"])
    tid = ce[-1][1].get("tid") if ce else None
    rec = recs[tid - 1] if isinstance(tid, int) and 0 < tid <= len(recs) else None
    what = _describe(rec) + f" ended as {rec['observed']}" if rec else "a recorded observation"
    ctx.violation(f"{what}: rejected by HapErrors_Trace ({res.violation['name']})",
                  {"kind": "record", "record": rec, "tlc": res.violation["name"]})


def _needed(step):
    return {"PS_M2": {"pk", "salt"}, "PS_M4": {"proof"}, "PS_M6": {"enc"}, "PV_M2": {"pk", "enc"},
            "PV_M2R": {"method", "sid", "tag"}}.get(step, set())


def _random_records(ctx, n):
    """Thorough tier: State / Error byte values outside the enumerated ones, all transports."""
    rng = ctx.rng
    steps = ["PS_M2", "PS_M4", "PS_M6", "PV_M2", "PV_M2R", "PV_M4", "IP_Add", "IP_Remove", "BLE_Add", "BLE_Remove"]
    fields = {"PS_M2": ["pk", "salt"], "PS_M4": ["proof", "enc"], "PS_M6": ["enc"], "PV_M2": ["pk", "enc"],
              "PV_M2R": ["method", "sid", "tag"]}
    order = ["method", "sid", "pk", "salt", "proof", "enc", "tag"]
    cells = []
    for _ in range(n):
        s = rng.choice(steps)
        tr = rng.choice(["gen", "ble"]) if s == "PV_M2R" else rng.choice(["gen", "ip", "coap", "ble"]) if s[0] == "P" \
            else ("ip" if s.startswith("IP") else "ble")
        st = rng.choice([ABSENT, _STEP_NO.get(s, 2), rng.randrange(256), rng.randrange(256), STATE_EMPTY, STATE_TRAILING])
        er = rng.choice([ABSENT, rng.randrange(256), rng.randrange(256), rng.randrange(256)])
        others = [f for f in order if f in fields.get(s, []) and rng.random() < 0.7]
        retry = rng.choice(["none", "none", "last", "first"]) if er != ABSENT else rng.choice(["none", "none", "last"])
        wire = (["state"] if st != ABSENT else []) + (["retry"] if retry == "first" else []) + (["error"] if er != ABSENT else []) \
            + others + (["retry"] if retry == "last" else [])
        cells.append({"step": s, "tr": tr, "state": st, "error": er, "others": others, "retry": retry, "wire": wire})
    with mp.get_context("fork").Pool(16) as pool:
        results = pool.map(_work, cells, chunksize=16)
    recs = []
    for c, (obs, detail) in zip(cells, results):
        if obs == "machinery":
            raise MachineryError(f"{_describe(c)}: {detail}")
        ctx.case(("rand",) + _cell_key(c))
        ctx.trace_ok()
        recs.append({"step": c["step"], "tr": c["tr"], "state": c["state"], "error": c["error"], "others": c["others"],
                     "retry": c["retry"], "observed": _spec_class(obs)})
    return recs


def _replay(ctx):
    data = json.load(open(ctx.replay))
    cell = data["replay"]["cell"]
    obs, detail = run_cell(cell)
    print(f"replay: {_describe(cell)} -> {obs}  {detail}")
    ctx.case(_cell_key(cell))
    if _spec_class(obs) not in cell["allowed"]:
        ctx.violation(f"{_describe(cell)} ended as {obs}; the specification allows {sorted(cell['allowed'])}",
                      {"kind": "cell", "cell": cell, "observed": obs, "detail": detail})
    else:
        ctx.trace_ok()
