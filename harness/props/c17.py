"""C17 - HAP PDUs on BLE (fragmentation, reassembly, AEAD per fragment) and CoAP (batch attribution).

(A) TLC: spec/codec/Pdu (request cutter + conformant accessory, response reader with faults, CoAP batch
    decoder) checked exhaustively on Pdu_Cases: BleFragmentSize, BleReassembly, NoEmptyContinuation,
    BleResponse, CoapAttribution.
(B) spec -> code: every case TLC exports is run on the real code
      * BLE request (p, enc, n): ble_request on a simulated GATT characteristic whose negotiated size makes
        determine_fragment_size return p; the writes are read by an independent reader and handed back to
        the specification's accessory (Pdu_Trace) which decides size bound and reassembly,
      * BLE response (m, fragmentation, fault): the simulated accessory answers as scripted; the outcome
        (returned status+body / rejected) is the one the specification prescribes,
      * CoAP batch (item outcomes): decode_all_pdus on an independently written response, and the whole path
        CoAPHomeKitConnection.read_characteristics / write_characteristics / subscribe_to / unsubscribe_from ->
        EncryptionContext.post_all -> encode_all_pdus -> (simulated endpoint) -> decode_all_pdus -> result mapping.
(C) code -> spec: seeded random requests / responses / batches (long bodies, realistic sizes, random splits and
    faults) are recorded and validated by TLC against Pdu_Trace.
"""
from __future__ import annotations

import asyncio
import json
import logging
import os
import random
import shutil
import tempfile

from harness.common import MachineryError
from harness import c17_driver as D

KEY_W = bytes(range(32))            # controller -> accessory
KEY_R = bytes(range(32, 64))        # accessory -> controller
JVM = {"JDK_JAVA_OPTIONS": "-Xss64m"}
SIG_ITER = "coap read_characteristics: one-shot iterable consumed before the request is built"


# ------------------------------------------------------------------ BLE
async def _ble_run(rng, p, enc, n, ctr0, script=None, resp_body=b"", via_mtu=None):
    """One ble_request on the simulated characteristic.  Returns (gatt, opcode, iid, body, outcome)."""
    from aiohomekit.controller.ble.client import ble_request
    from aiohomekit.controller.ble.key import DecryptionKey, EncryptionKey
    from aiohomekit.pdu import OpCode
    size = p + 16 * enc
    if via_mtu is None:
        via_mtu = rng.random() < 0.5
    script = script or {"m": 0, "st": 0, "short": 1, "split": [0], "fault": "none", "fpos": 0}
    gatt = D.Gatt(size, via_mtu, KEY_W if enc else None, KEY_R if enc else None, ctr0, script, resp_body)
    ek = dk = None
    if enc:
        ek, dk = EncryptionKey(KEY_W), DecryptionKey(KEY_R)
        ek.counter = dk.counter = ctr0
    opcode = rng.choice(list(OpCode))
    iid = rng.choice([1, 2, 0x10, 0xFF, 0x100, 0x1234, 0xFFFF, rng.randrange(1, 65536)])
    body = bytes(rng.randrange(256) for _ in range(n))
    try:
        status, data = await ble_request(gatt, ek, dk, opcode, gatt.handle, iid, body if n else rng.choice([None, b""]))
        outcome = ("done", int(status.value), bytes(data))
    except D.Blocked:
        outcome = ("blocked", 0, b"")
    except Exception as ex:  # noqa: BLE001
        outcome = ("rejected", 0, repr(ex).encode())
    return gatt, opcode, iid, body, outcome, (dk.counter if dk else ctr0)


def _req_record(gatt, opcode, iid, body, p, enc, n, ctr0):
    frags = gatt.observe_request(opcode.value, iid, body)
    return {"part": "req", "p": p, "enc": enc, "n": n, "ctr0": ctr0, "frags": frags}


def _resp_record(c, outcome, reads, kctr, body):
    out, status, data = outcome
    return {"part": "resp", "m": c["m"], "st": c["st"], "short": c["short"], "split": c["split"], "fault": c["fault"],
            "fpos": c["fpos"], "enc": c["enc"], "ctr0": c["ctr0"], "out": out, "status": status,
            "bodyok": int(out == "done" and data == body), "reads": reads, "kctr": kctr}


# ------------------------------------------------------------------ CoAP
def _coap_bodies(rng, items, tlv):
    """Concrete bodies for the abstract items [(oc, s, len)]: distinct random contents."""
    out = []
    for oc, s, n in items:
        if tlv:
            body, value = D.body_of_len(rng, n)
        else:
            body = bytes(rng.randrange(256) for _ in range(n))
            value = body
        out.append((oc, s, body, value))
    return out


def _coap_wire(bodies, bad_ctl, tids=None):
    """Independent writer of the response: (control, tid, status, LE16 length, body) per item."""
    import struct
    out = bytearray()
    for k, (oc, s, body, _) in enumerate(bodies):
        tid = k if tids is None else tids[k]
        if oc == "tid":
            tid = (tid + 1) % 256
        out += struct.pack("<BBBH", bad_ctl if oc == "ctl" else 0x02, tid, s if oc == "err" else 0, len(body)) + body
    return bytes(out)


def _classify(result, bodies, i):
    """Result item -> [kind, 0, item whose body it is, length] (kind 'fail' for every per-item error)."""
    from aiohomekit.controller.coap.pdu import PDUStatus
    if isinstance(result, PDUStatus):
        return ["ok", 0, 0, 0] if result == PDUStatus.SUCCESS else ["fail", 0, 0, 0]
    if isinstance(result, (bytes, bytearray)):
        result = bytes(result)
        if i < len(bodies) and result == bodies[i][2]:
            return ["ok", 0, i + 1, len(result)]
        for j, b in enumerate(bodies):
            if result == b[2]:
                return ["ok", 0, j + 1, len(result)]
        return ["ok", 0, 0, len(result)]
    return ["other", 0, 0, 0]


def _expected_vec(exp):
    return [[k, 0, item, n] if k == "ok" else ["fail", 0, 0, 0] for k, s, item, n in exp]


def _make_connection(acc):
    from cryptography.hazmat.primitives.ciphers.aead import ChaCha20Poly1305
    from aiohomekit.controller.coap.connection import CoAPHomeKitConnection, EncryptionContext
    from aiohomekit.controller.coap.structs import (Pdu09Accessory, Pdu09AccessoryContainer, Pdu09Characteristic,
                                                    Pdu09CharacteristicContainer, Pdu09Database, Pdu09Service,
                                                    Pdu09ServiceContainer)
    conn = CoAPHomeKitConnection(None, "::1", 5683)
    conn.enc_ctx = EncryptionContext(ChaCha20Poly1305(KEY_R), ChaCha20Poly1305(KEY_W), ChaCha20Poly1305(KEY_R),
                                     "coap://[::1]:5683/", acc)
    chars = [Pdu09CharacteristicContainer(characteristic=Pdu09Characteristic(type=0x25 + k, instance_id=101 + k, properties=0x30))
             for k in range(8)]
    svc = Pdu09Service(type=0x43, instance_id=100, _characteristics=chars, properties=0, linked_services=[])
    conn.info = Pdu09Database(_accessories=[Pdu09AccessoryContainer(accessory=Pdu09Accessory(
        instance_id=1, _services=[Pdu09ServiceContainer(service=svc)]))])
    return conn


async def _coap_api(rng, api, items, bad_ctl, form=None):
    """Run one batch through the public connection API.  Returns (problem or None, request tids)."""
    acc = D.CoapAccessory(KEY_W, KEY_R)
    acc.bad_ctl = bad_ctl
    conn = _make_connection(acc)
    # a few earlier exchanges so that the AEAD counters are not zero
    bodies = _coap_bodies(rng, items, tlv=(api == "read"))
    if api != "read":
        bodies = [(oc, s, b"" if oc == "ok" else body, b"") for oc, s, body, _ in bodies]
    acc.script = [(oc, s, body) for oc, s, body, _ in bodies]
    in_db = rng.random() < 0.5 or api == "write"
    ids = [(1, (101 if in_db else 201) + k) for k in range(len(items))]
    values = [bytes(rng.randrange(256) for _ in range(rng.choice([1, 4, 300]))) for _ in items]
    if api == "read":
        # the parameter is declared Iterable[tuple[int, int]]: list, tuple and a one-shot iterator are all legal
        form = form or rng.choice(["list", "tuple", "iterator"])
        _coap_api.last_form = form
        res = await conn.read_characteristics({"list": ids, "tuple": tuple(ids), "iterator": iter(ids)}[form])
    elif api == "write":
        res = await conn.write_characteristics([(a, i, v) for (a, i), v in zip(ids, values)])
    elif api == "subscribe":
        res = await conn.subscribe_to(ids)
    else:
        res = await conn.unsubscribe_from(ids)
    req = acc.requests[-1]
    prob = None
    # request: one item per characteristic, in order, with the right instance ids and data
    if [r[3] for r in req] != [i for _, i in ids]:
        prob = (f"request items carry iids {[r[3] for r in req]}, requested {[i for _, i in ids]}"
                + (f" (characteristics passed as {form})" if api == "read" else "")
                + (" - empty request from a one-shot iterable" if api == "read" and form == "iterator" and not req else ""))
    if api == "write" and prob is None:
        if [r[4] for r in req] != [D.value_tlv(v) for v in values]:
            prob = "write request data is not the value TLV of the i-th value"
    vec = []
    for k, (key, (oc, s, body, value)) in enumerate(zip(ids, bodies)):
        e = res.get(key)
        if api == "read":
            if e is None:
                vec.append(["missing", 0, 0, 0])
            elif "status" in e and e["status"] != 0:
                vec.append(["fail", 0, 0, 0])
            elif "value" in e:
                v = e["value"]
                if v is None:
                    v = b""
                owner = [j for j, b in enumerate(bodies) if b[0] == "ok" and b[3] == v]
                vec.append(["ok", 0, (k + 1) if k in owner else (owner[0] + 1 if owner else 0), len(bodies[k][2]) if k in owner else -1])
            else:
                vec.append(["other", 0, 0, 0])
        else:
            if e is None:
                vec.append(["ok", 0, k + 1, 0])
            elif e.get("status", 0) != 0:
                vec.append(["fail", 0, 0, 0])
            else:
                vec.append(["other", 0, 0, 0])
    extra = set(res) - set(ids)
    if extra and prob is None:
        prob = f"result has entries for characteristics that were not requested: {sorted(extra)}"
    return prob, vec, [r[2] for r in req], bodies


async def _coap_map_api(rng, api, items, labels, bad_ctl, form=None):
    """A batch whose list names characteristics more than once (labels: equality pattern of the ids) through the public
    connection API.  The accessory answers every request item it receives: the k-th item for an iid gets the outcome of the
    caller's k-th item for that characteristic.  Returns (problem or None, per distinct characteristic the dictionary
    entry as [] | ["ok", item whose body it is, length] | ["fail", 0, 0], the form used)."""
    acc = D.CoapAccessory(KEY_W, KEY_R)
    acc.bad_ctl = bad_ctl
    conn = _make_connection(acc)
    bodies = _coap_bodies(rng, items, tlv=(api == "read"))
    if api != "read":
        bodies = [(oc, s, b"" if oc == "ok" else body, b"") for oc, s, body, _ in bodies]
    in_db = rng.random() < 0.5 or api == "write"
    base = 100 if in_db else 200
    ids = [(1, base + lab) for lab in labels]
    acc.by_iid = {}
    for (oc, s, body, _), (_, iid) in zip(bodies, ids):
        acc.by_iid.setdefault(iid, []).append((oc, s, body))
    values = [bytes(rng.randrange(256) for _ in range(rng.choice([1, 4]))) for _ in items]
    if api == "read":
        form = form or rng.choice(["list", "tuple", "iterator"])
        res = await conn.read_characteristics({"list": ids, "tuple": tuple(ids), "iterator": iter(ids)}[form])
    elif api == "write":
        res = await conn.write_characteristics([(a, i, v) for (a, i), v in zip(ids, values)])
    elif api == "subscribe":
        res = await conn.subscribe_to(ids)
    else:
        res = await conn.unsubscribe_from(ids)
    prob = None
    extra = set(res) - set(ids)
    if extra:
        prob = f"result has entries for characteristics that were not requested: {sorted(extra)}"
    entries = []
    for lab in range(1, max(labels) + 1):
        e = res.get((1, base + lab))
        if e is None:
            entries.append([])
        elif e.get("status", 0) != 0:
            entries.append(["fail", 0, 0])
        elif api == "read" and "value" in e:
            v = e["value"] if e["value"] is not None else b""
            own = [j for j, b in enumerate(bodies) if b[0] == "ok" and b[3] == v and labels[j] == lab]
            other = [j for j, b in enumerate(bodies) if b[0] == "ok" and b[3] == v]
            j = own[-1] if own else (other[0] if other else None)
            entries.append(["ok", (j + 1) if j is not None else 0, len(bodies[j][2]) if j is not None else -1])
        else:
            entries.append(["other", 0, 0])
    return prob, entries, form


async def _run_case(ctx, rng, c, st):
    """Run one exported case on the real code; verdicts against the specification's expectation (and records for Pdu_Trace)."""
    from aiohomekit.controller.coap.pdu import decode_all_pdus
    recs, fail, layout_diff, ncoap, sampled = st["recs"], st["fail"], st["layout_diff"], st["ncoap"], st["sampled"]
    part = c["part"]
    if part == "req":
        p, enc, n, ctr0 = c["p"], c["enc"], c["n"], c["ctr0"]
        ctx.case(("req", p, enc, n, ctr0) if n else None)
        gatt, opcode, iid, body, outcome, _ = await _ble_run(rng, p, enc, n, ctr0)
        rec = {**_req_record(gatt, opcode, iid, body, p, enc, n, ctr0), "_src": {"case": c}}
        recs.append(rec)
        if [f[8] for f in rec["frags"]] != c["lens"]:
            layout_diff[0] += 1            # allowed by the property; the accessory model decides
        if outcome[:2] != ("done", 0) or outcome[2] != b"":
            fail(("req-result", enc), f"ble_request did not return the accessory's (success, empty) answer after a "
                 f"request with p={p} enc={enc} n={n}: {outcome[0]} {outcome[2][:80]!r}", {"case": c})
        if "req" not in sampled and n > 2 * p:
            sampled.add("req")
            ctx.sample({"ble_request_case": c, "observed_fragments": rec["frags"][:4]})
    elif part == "resp":
        ctx.case(("resp", c["m"], c["st"], c["short"], tuple(c["split"]), c["fault"], c["fpos"], c["enc"], c["ctr0"]))
        body = bytes(rng.randrange(256) for _ in range(c["m"]))
        gatt, _, _, _, outcome, kctr = await _ble_run(rng, rng.choice([20, 64, 155]), c["enc"], 0, c["ctr0"], c, body)
        if len(recs) % 4 == 0:
            recs.append({**_resp_record(c, outcome, gatt.reads, kctr, body), "_src": {"case": c}})
        exp = c["exp"]
        ok = outcome[0] == exp and (exp != "done" or (outcome[1] == c["st"] and outcome[2] == body))
        if not ok:
            fail(("resp", c["fault"], exp, outcome[0]),
                 f"response m={c['m']} status={c['st']} split={c['split'][:8]} fault={c['fault']}@{c['fpos']} enc={c['enc']}: "
                 f"specification says {exp}, the code {outcome[0]}"
                 + (f" (status {outcome[1]}, body {'equal' if outcome[2] == body else 'DIFFERENT'})" if outcome[0] == "done" else
                    f" ({outcome[2][:80]!r})"), {"case": c})
        else:
            ctx.trace_ok()
        if "resp" not in sampled and c["fault"] == "flag_cont":
            sampled.add("resp")
            ctx.sample({"ble_response_case": c, "observed": outcome[0]})
    elif part == "coapmap":
        items = [tuple(it) for it in c["items"]]
        labels = list(c["ids"])
        ncoap[0] += 1
        api = st.get("api") or ("read" if c["api"] == "read" else ("write", "subscribe", "unsubscribe")[ncoap[0] % 3])
        ctx.case(("coapmap", tuple(items), tuple(labels), api))
        bad_ctl = rng.choice([0x00, 0x04, 0x06, 0x08, 0x0C, 0x0E])
        try:
            prob, entries, form = await _coap_map_api(rng, api, items, labels, bad_ctl, st.get("form"))
        except Exception as ex:  # noqa: BLE001
            prob, entries, form = f"{type(ex).__name__}: {ex}", None, st.get("form")
        if prob is None:
            for lab, (e, allowed) in enumerate(zip(entries, c["allowed"]), start=1):
                ok = any((e == [] and a[0] == "none") or (e[:1] == ["ok"] and a[0] == "ok" and e[1:] == a[1:])
                         or (e[:1] == ["fail"] and a[0] not in ("ok", "none")) for a in allowed)
                if not ok:
                    mine = [j + 1 for j, x in enumerate(labels) if x == lab]
                    prob = (f"characteristic #{lab} (items {mine} of the list) got {e or 'no entry'}; the specification allows "
                            f"{['no entry' if a[0] == 'none' else a for a in allowed]}")
                    break
        src = {"case": c, "api": api, "form": form}
        if prob:
            fail(("coap-map", api), f"{api} of a batch with items {items} for characteristics {labels} (equal numbers = same id): {prob}",
                 {"case": c, "api": api, "bad_ctl": bad_ctl, "form": form},
                 signature=None)
        else:
            ctx.trace_ok()
            if ncoap[0] % 3 == 0:
                recs.append({"part": "coapmap", "items": [list(it) for it in items], "ids": labels, "api": c["api"], "map": entries,
                             "_src": src})
        if "coapmap" not in sampled and len(set(labels)) < len(labels) and len(items) == 3:
            sampled.add("coapmap")
            ctx.sample({"coap_repeated_ids_case": c, "api": api, "observed": entries})
    else:
        items = [tuple(it) for it in c["items"]]
        ctx.case(("coap", tuple(items)))
        want = _expected_vec(c["exp"])
        bad_ctl = rng.choice([0x00, 0x04, 0x06, 0x08, 0x0C, 0x0E])
        # (1) the batch decoder on an independently written response
        bodies = _coap_bodies(rng, items, tlv=False)
        wire = _coap_wire(bodies, bad_ctl)
        try:
            res = decode_all_pdus(0, wire)
            got = [_classify(r, bodies, i) for i, r in enumerate(res)]
        except Exception as ex:  # noqa: BLE001
            got = f"{type(ex).__name__}: {ex}"
        if got != want:
            fail(("coap-decode", _shape(items)), f"decode_all_pdus on items {items}: got {got}, specification {want}",
                 {"case": c, "bad_ctl": bad_ctl})
        else:
            ctx.trace_ok()
        ncoap[0] += 1
        # (2) the public API path
        api = st.get("api") or ("read", "read", "write", "subscribe", "unsubscribe")[ncoap[0] % 5]
        try:
            prob, vec, tids, _ = await _coap_api(rng, api, items, bad_ctl, st.get("form"))
        except Exception as ex:  # noqa: BLE001
            prob, vec, tids = f"{type(ex).__name__}: {ex}", None, None
        if prob is None:
            wantv = want if api == "read" else [[k, 0, i + 1, 0] if k == "ok" else [k, 0, 0, 0] for i, (k, _, _, _) in enumerate(want)]
            if vec != wantv:
                prob = f"result vector {vec}, specification {wantv}"
        if prob is None and api == "read":
            recs.append({"part": "coap", "items": [list(it) for it in items], "reqtids": tids, "res": vec,
                         "_src": {"case": c, "api": "read", "form": getattr(_coap_api, "last_form", None)}})
        if prob:
            fail(("coap-api", api, "request" if prob.startswith("request items") else _shape(items)),
                 f"{api} of a batch with items {items}: {prob}",
             {"case": c, "api": api, "bad_ctl": bad_ctl, "form": getattr(_coap_api, "last_form", None) if api == "read" else None},
                 signature=SIG_ITER if "empty request from a one-shot iterable" in prob else None)
        else:
            ctx.trace_ok()
        if "coap" not in sampled and len(items) == 3 and {"ok", "tid", "err"} <= {it[0] for it in items}:
            sampled.add("coap")
            ctx.sample({"coap_case": c, "api": api, "observed": vec})



async def _random_run(ctx, kind, n, seed, st):
    """One execution of the seeded driver.  Everything is drawn from a generator seeded with (seed, kind, n), so the
    execution can be repeated on another tree from these three values (stored as `src` in records / replay objects)."""
    import struct
    from aiohomekit.controller.coap.pdu import OpCode as CoapOp
    from aiohomekit.controller.coap.pdu import decode_all_pdus, encode_all_pdus
    recs, fail = st["recs"], st["fail"]
    src = {"random": kind, "n": n, "seed": seed}
    rng = random.Random(f"{seed}/{kind}/{n}")
    random.seed(f"{seed}/{kind}/{n}/tid")          # ble_request draws its transaction id from the global PRNG
    if kind == "req":
        enc = rng.randrange(2)
        p = rng.choice([rng.randrange(8, 65), rng.randrange(8, 600), 20, 155, 244, 496, 512])
        nb = rng.choice([rng.randrange(0, 3 * p), rng.randrange(0, min(5001, 60 * p)), rng.randrange(0, 300), 0, min(5000, 60 * p)])
        ctr0 = rng.choice([0, 1, 7, 1000, 10 ** 6]) if enc else 0
        ctx.case(("req", p, enc, nb, ctr0))
        gatt, opcode, iid, body, outcome, _ = await _ble_run(rng, p, enc, nb, ctr0)
        recs.append({**_req_record(gatt, opcode, iid, body, p, enc, nb, ctr0), "_src": src})
    elif kind == "resp":
        enc = rng.randrange(2)
        m = rng.choice([0, rng.randrange(1, 40), rng.randrange(1, 3000)])
        split = []
        rest = m
        first = True
        while rest > 0 or first:
            k = rng.choice([0, rest, min(rest, rng.randrange(0, 20)), min(rest, rng.randrange(0, 600))]) if first \
                else max(1, min(rest, rng.choice([1, 18, 153, 510, rng.randrange(1, 600)])))
            split.append(k)
            rest -= k
            first = False
            if len(split) > 60:
                split.append(rest)
                rest = 0
        split = [s for k, s in enumerate(split) if k == 0 or s > 0]
        faults = [("none", 0), ("none", 0), ("tid_first", 1)] + ([("tid_cont", rng.randrange(2, len(split) + 1)),
                                                                 ("flag_cont", rng.randrange(2, len(split) + 1))] if len(split) > 1 else [])
        fault, fpos = rng.choice(faults)
        c = {"m": m, "st": rng.randrange(7), "short": int(m == 0 and rng.random() < 0.5), "split": split if m else [0],
             "fault": fault, "fpos": fpos, "enc": enc, "ctr0": rng.choice([0, 3, 999]) if enc else 0}
        ctx.case(("resp", json.dumps(c)))
        body = bytes(rng.randrange(256) for _ in range(m))
        gatt, _, _, _, outcome, kctr = await _ble_run(rng, rng.choice([20, 155, 512]), enc, rng.choice([0, 0, 30]), c["ctr0"], c, body)
        recs.append({**_resp_record(c, outcome, gatt.reads, kctr, body), "_src": src})
    else:
        nitems = rng.randrange(1, 7)
        tlv = rng.random() < 0.5
        items = []
        for _ in range(nitems):
            oc = rng.choice(["ok", "ok", "ok", "err", "tid", "ctl"])
            ln = rng.choice([0, 3, 300, 5, 260, 700] if tlv else [0, 1, 2, 3, 4, 5, 6, 255, 256, 300, 1000])
            items.append((oc, rng.randrange(1, 7) if oc == "err" else 0, ln))
        ctx.case(("coap", tuple(items)))
        bad_ctl = rng.choice([0x00, 0x04, 0x06, 0x08, 0x0C, 0x0E])
        if tlv and rng.random() < 0.3:
            # the list names some characteristic more than once; any of the four calls
            labels = []
            for _ in items:
                labels.append(rng.randrange(1, max(labels, default=0) + 2))
            api = rng.choice(["read", "read", "write", "subscribe", "unsubscribe"])
            try:
                prob, entries, form = await _coap_map_api(rng, api, items, labels, bad_ctl)
            except Exception as ex:  # noqa: BLE001
                prob, entries = f"raised {type(ex).__name__}: {ex}", None
            if prob:
                fail(("coap-map", api, "driver"), f"{api} of {items} for characteristics {labels}: {prob}", {"items": items, "src": src})
                return
            recs.append({"part": "coapmap", "items": [list(it) for it in items], "ids": labels, "api": "read" if api == "read" else "other",
                         "map": entries, "_src": src})
        elif tlv:
            try:
                prob, vec, tids, _ = await _coap_api(rng, "read", items, bad_ctl)
            except Exception as ex:  # noqa: BLE001
                fail(("coap-api", "read", "raised"), f"read_characteristics of a batch with items {items} raised {type(ex).__name__}: {ex}",
                     {"items": items, "src": src})
                return
            if prob:
                fail(("coap-api", "read", "request"), f"read of {items}: {prob}", {"items": items, "src": src},
                     signature=SIG_ITER if "empty request from a one-shot iterable" in prob else None)
                return
            recs.append({"part": "coap", "items": [list(it) for it in items], "reqtids": tids, "res": vec, "_src": src})
        else:
            # request side: the real encode_all_pdus, parsed by the independent reader
            iids = [rng.randrange(1, 65536) for _ in items]
            data = [bytes(rng.randrange(256) for _ in range(rng.choice([0, 1, 300]))) for _ in items]
            req = encode_all_pdus(rng.choice(list(CoapOp)), iids, data)
            tids, pos = [], 0
            shape_ok = True
            while pos < len(req):
                _, _, t, i, ln = struct.unpack("<BBBHH", req[pos:pos + 7])
                shape_ok = shape_ok and len(tids) < len(iids) and i == iids[len(tids)] and req[pos + 7:pos + 7 + ln] == data[len(tids)]
                tids.append(t)
                pos += 7 + ln
            if not shape_ok:
                fail(("coap-encode",), f"encode_all_pdus({iids}, ...) does not carry the i-th iid/data in the i-th item", {"iids": iids, "src": src})
            bodies = _coap_bodies(rng, items, tlv=False)
            wire = _coap_wire(bodies, bad_ctl, tids if len(tids) == len(items) else None)
            try:
                res = decode_all_pdus(0, wire)
                vec = [_classify(r, bodies, i) for i, r in enumerate(res)]
            except Exception as ex:  # noqa: BLE001
                fail(("coap-decode", "raised"), f"decode_all_pdus raised {type(ex).__name__}: {ex} on items {items}", {"items": items, "src": src})
                return
            recs.append({"part": "coap", "items": [list(it) for it in items], "reqtids": tids, "res": vec, "_src": src})


# ------------------------------------------------------------------ the check
def run(ctx):
    if ctx.replay:
        return _replay_file(ctx)
    from aiohomekit.controller.coap.pdu import decode_all_pdus, encode_all_pdus
    from aiohomekit.controller.coap.pdu import OpCode as CoapOp

    ctx.rule = ("BLE request = (plaintext fragment size, encrypted?, body length); BLE response = (body length, status, "
                "fragmentation, fault, encrypted?); CoAP = vector of per-item outcomes (kind, status, body length); cases "
                "enumerated by TLC from spec/codec/Pdu_Cases or drawn by the seeded driver and validated by Pdu_Trace; "
                "non-trivial = body or batch not empty")
    ctx.assume("content-independent model: body bytes are seeded random data, compared by the harness's independent reader",
               "'rejected' = ble_request raises an exception (any Exception class); a per-item CoAP error = any PDUStatus other "
               "than SUCCESS / a result entry with a non-zero status (the numeric code is not prescribed by the property)",
               "a list that names the same characteristic twice: every distinct characteristic must get the result of one of its "
               "own items (which one is left open - the code lets the later result of a read win and keeps any failure of the "
               "other calls), none may get another characteristic's result or be missing; the request itself may be "
               "de-duplicated (the simulated accessory answers every item it receives, the k-th item for an iid with the k-th outcome)",
               "AEAD is the real ChaCha20-Poly1305 on both sides (cryptography on the accessory side); a conformant accessory "
               "opens the k-th write under its k-th counter",
               "CoAP bodies of successful reads are well-formed value TLVs (lengths 0, 3, 300 in the enumerated space)")
    random.seed(ctx.seed)            # ble_request draws its transaction id from the global PRNG
    logging.disable(logging.WARNING)  # the library logs every faulty item
    rng = ctx.rng
    tmp = tempfile.mkdtemp(prefix="c17_")
    try:
        out = os.path.join(tmp, "cases.ndjson")
        ctx.tlc("codec/Pdu_Cases", ctx.pick("Pdu_quick.cfg", "Pdu_thorough.cfg"), env={"CASES_OUT": out, **JVM},
                label="PDU machines, exhaustive + case export", timeout=1500)
        cases = [json.loads(line) for line in open(out)]
        if not cases:
            raise MachineryError("no case exported")
        recs = []          # records for Pdu_Trace
        groups = {}

        def fail(key, what, replay, signature=None):
            g = groups.setdefault(key, {"n": 0, "what": what, "replay": replay, "sig": signature})
            g["n"] += 1

        layout_diff = [0]
        ncoap = [0]

        st = {"recs": recs, "fail": fail, "layout_diff": layout_diff, "ncoap": ncoap, "sampled": set()}

        async def replay_all():
            for c in cases:
                await _run_case(ctx, rng, c, st)

        import time as _t
        t0 = _t.time()
        asyncio.run(replay_all())
        ctx.notes["replay_wall_s"] = round(_t.time() - t0, 1)
        ctx.notes["request_layouts_differing_from_spec_cutter"] = layout_diff[0]

        # ---------------- (C) seeded random runs
        async def random_runs():
            for kind, count in (("req", ctx.pick(300, 6000)), ("resp", ctx.pick(300, 6000)), ("coap", ctx.pick(400, 8000))):
                for n in range(count):
                    await _random_run(ctx, kind, n, ctx.seed, st)

        t0 = _t.time()
        asyncio.run(random_runs())
        ctx.notes["random_wall_s"] = round(_t.time() - t0, 1)

        # ---------------- trace validation (all recorded executions)
        _validate(ctx, tmp, recs, fail)
        for key, g in sorted(groups.items(), key=lambda kv: repr(kv[0])):
            ctx.violation(f"{g['what']} [{g['n']} case(s) of this kind]", {"kind": "pdu_case", "key": list(key), **g["replay"]},
                          signature=g["sig"])
        ctx.exhaustive = False
    finally:
        shutil.rmtree(tmp, ignore_errors=True)


def _shape(items):
    return tuple(sorted({it[0] for it in items}))


def _rec_class(r):
    if r["part"] == "req":
        return ("req", r["enc"], r["n"] == 0, len(r["frags"]) > 1)
    if r["part"] == "resp":
        return ("resp", r["fault"], r["enc"], r["short"], r["out"])
    if r["part"] == "coapmap":
        return ("coapmap", r["api"])
    return ("coap", "request-shape" if len(r["reqtids"]) != len(r["items"]) else "result-vector")


def _validate(ctx, tmp, recs, fail):
    """All recorded executions through Pdu_Trace in one TLC run; the module also exports the verdict of every
    rejected record (postcondition), so a failing tree is reported completely."""
    from harness import tlc as T
    if not recs:
        return
    tf = os.path.join(tmp, "trace.ndjson")
    vf = os.path.join(tmp, "verdicts.ndjson")
    with open(tf, "w") as f:
        for r in recs:
            f.write(json.dumps({k: v for k, v in r.items() if k != "_src"}) + "\n")
    if os.environ.get("VERIF_DEBUG_KEEP"):
        shutil.copy(tf, os.environ["VERIF_DEBUG_KEEP"])
    res = ctx.tlc("codec/Pdu_Trace", "Pdu_Trace.cfg", env={"TRACE_FILE": tf, "VERDICTS_OUT": vf, **JVM}, expect_violation=True,
                  require_cover=False, timeout=1500, label="trace validation of recorded runs")
    rejected = [json.loads(line)["tid"] for line in open(vf) if line.strip()] if os.path.exists(vf) else []
    if res.ok:
        if rejected:
            raise MachineryError("Pdu_Trace accepted every record but exported rejected ones")
        ctx.trace_ok(len(recs))
    else:
        first = None
        ce = T.parse_counterexample(res.violation["trace"])
        if ce and isinstance(ce[-1][1].get("tid"), int):
            first = ce[-1][1]["tid"]
        if first is not None and first not in rejected:
            rejected.append(first)
        if not rejected:
            raise MachineryError(f"trace validation failed without a record id: {res.violation['name']}")
        for t in rejected:
            bad = recs[t - 1]
            fail(("trace", _rec_class(bad)),
                 f"recorded execution rejected by Pdu_Trace"
                 + (f" ({res.violation['name']})" if t == first else "")
                 + f": {json.dumps({k: v for k, v in bad.items() if k != '_src'})[:600]}",
                 {"record": {k: v for k, v in bad.items() if k != "_src"}, "src": bad.get("_src")})
        ctx.trace_ok(len(recs) - len(rejected))
    ctx.sample({"trace_record": recs[len(recs) // 3]})


def _replay_file(ctx):
    """./check C17 --replay <file>: run the stored case / record again."""
    data = json.load(open(ctx.replay))["replay"]
    random.seed(ctx.seed)
    logging.disable(logging.WARNING)
    groups = {}

    def fail(key, what, replay, signature=None):
        groups.setdefault(key, {"what": what, "replay": replay, "sig": signature})
    recs = []
    st = {"recs": recs, "fail": fail, "layout_diff": [0], "ncoap": [0], "sampled": {"req", "resp", "coap", "coapmap"}}
    tmp = tempfile.mkdtemp(prefix="c17_")
    try:
        src = data.get("src") or ({"case": data["case"], "api": data.get("api"), "form": data.get("form")} if "case" in data else None)
        if src and "case" in src:                  # a case enumerated by TLC: run it again on this tree
            c = src["case"]
            if src.get("api"):
                st["api"], st["form"] = src["api"], src.get("form")
                asyncio.run(_run_case(ctx, ctx.rng, c, st))
            else:
                for k in range(5 if c["part"] == "coap" else 3 if c["part"] == "coapmap" and c["api"] != "read" else 1):   # one run per API path
                    st["ncoap"][0] = k
                    asyncio.run(_run_case(ctx, ctx.rng, c, st))
            print(f"replay: case {json.dumps(c)[:200]} executed again on this tree ({len(recs)} fresh record(s) for Pdu_Trace)")
        elif src and "random" in src:              # an execution of the seeded driver: same (seed, kind, n) -> same execution
            asyncio.run(_random_run(ctx, src["random"], src["n"], src["seed"], st))
            print(f"replay: seeded driver execution {src} repeated on this tree ({len(recs)} fresh record(s) for Pdu_Trace)")
        elif "record" in data:
            recs.append(data["record"])
            print("replay: this file does not say how the record was produced - re-validating the STORED record against "
                  "Pdu_Trace only (not re-executed on this tree)")
        else:
            print("replay: nothing to re-execute in this file; run ./check C17 --seed", ctx.seed)
            return
        _validate(ctx, tmp, recs, fail)
    finally:
        shutil.rmtree(tmp, ignore_errors=True)
    print(f"replay: -> {'VIOLATION' if groups else 'ok'}")
    for key, g in groups.items():
        ctx.violation(g["what"], {"kind": "pdu_case", "key": list(key), **g["replay"]}, signature=g["sig"])
