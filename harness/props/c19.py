"""C19 - device waiters are woken by advertisements; advertisement parsing is robust.

(A) TLC: spec/discovery/Discovery.tla - the per-id future lists of the mDNS and BLE finders and the
    aggregate finder, every interleaving of {start, advertisement (valid / malformed), cancel request,
    timer, task wake-up} for 3 waiters x 2 ids per flavour and for one aggregate call over three
    transports; NoLostWakeup / AlreadyKnownReturnsAtOnce / TimeoutGivesNotFound / CallbackNeverRaises /
    OtherWaitersUndisturbed / AggFirstSuccessWins / AggNoSubtaskLeft.  With the repair switches off TLC
    must refute the properties (non-vacuity).  spec/discovery/DiscoveryParse.tla: expected outcome of
    every abstract TXT-record / address-list / manufacturer-data class.
(B) spec -> code: every parse class exported by DiscoveryParse_Cases is concretised (real AsyncServiceInfo /
    AdvertisementData) and processed by the real controllers under every pairing situation (none; cached / uncached state x loaded
    before / after the first advertisement x shut down while loaded or not);
    `tlc -simulate` behaviours of Discovery are replayed as stimuli (cancel and timer steps placed between
    loop iterations) on the real IpController / CoAPController / BleController / Controller.
(C) code -> spec: every execution of (B) and seeded random schedules (with fuzzed TXT values, blobs and
    authentic encrypted notifications) are logged with virtual times and validated by TLC against
    Discovery_Trace: a call the specification completes must return at that very instant.
"""
from __future__ import annotations

import glob
import json
import multiprocessing as mp
import os
import random
import re
import shutil
import tempfile

from harness import tlc as T
from harness.common import SPEC, MachineryError

AREA = os.path.join(SPEC, "discovery")
TRS = ("ip", "coap", "ble")
# pairing situations of an id (Discovery.tla: PSituations)
SITUATIONS = ["none"] + [s + a + z for s in ("cached", "nocache") for a in ("", "-after") for z in ("", "-shut")]
ABSENT, BAD, ODD, NOVAL, EMPTY = -1, -2, -3, -4, -5


def _cfg(tmp, name, subst=(), out=None):
    src = open(os.path.join(AREA, name)).read()
    for a, b in subst:
        if a not in src:
            raise MachineryError(f"{name}: cannot find {a!r}")
        src = src.replace(a, b)
    p = os.path.join(tmp, out or name)
    open(p, "w").write(src)
    return p


# ------------------------------------------------------------------ class pools
class Pools:
    def __init__(self, cases):
        self.mv = [c["r"] for c in cases if c["r"]["kind"] == "mdns" and c["exp"] == "discovery"]
        self.mi = [c["r"] for c in cases if c["r"]["kind"] == "mdns" and c["exp"] == "ignored"]
        self.bv = [c["r"] for c in cases if c["r"]["kind"] == "ble" and c["exp"] == "discovery"]
        self.bi = [c["r"] for c in cases if c["r"]["kind"] == "ble" and c["exp"] == "ignored" and c["r"]["type"] != "enc"]
        if not (self.mv and self.mi and self.bv and self.bi):
            raise MachineryError("parse cases do not cover valid and ignored classes for both kinds")

    def pick(self, rng, tr, valid):
        if tr == "ble":
            return dict(rng.choice(self.bv if valid else self.bi))
        return dict(rng.choice(self.mv if valid else self.mi))


def _fuzz_class(rng, tr, world, idl):
    """seeded random field values / blobs; the class (hence the expected outcome) is fixed first, the raw
    bytes are then drawn inside that class"""
    from harness import c19_driver as D
    if tr != "ble":
        cls = {"kind": "mdns", "idc": rng.choice(["absent", "lower", "lower", "upper", "upper", "upper", "noval", "empty"]), "kc": rng.choice(["lower", "upper"]),
               "av": rng.randrange(10), "xk": rng.choice(["none", "none", "md-noval", "pv-noval", "uk-noval", "uk-empty", "md-empty"]),
               "addrs": [rng.choice(["v4", "v6", "ll4", "ll6", "un4", "un6"]) for _ in range(rng.randrange(0, 5))]}
        raw = {}
        for f in ("c", "s", "sf", "ff", "ci"):
            k = rng.choice(["n", "n", "n", "n", "absent", "bad", "odd", "noval", "empty"])
            if k == "n":
                cls[f] = rng.choice([0, 1, rng.randrange(256), rng.randrange(70000), 2 ** 31 - 1])
            elif k == "absent":
                cls[f] = ABSENT
            elif k == "noval":
                cls[f] = NOVAL
            elif k == "empty":
                cls[f] = EMPTY
            elif k == "bad":
                cls[f] = BAD
                raw[f] = rng.choice(["abc", "none", "#", "é", "c#"])
            else:
                cls[f] = ODD
                raw[f] = rng.choice([" 5", "5 ", "+7", "-3", "1_0", "٣", "1.5", "0x10", "99999999999999999999", "1e3", "-0"])
        if raw:
            cls["_raw"] = raw
        return cls
    kind = rng.choice(["fields", "fields", "blob", "encauth"])
    idb = bytes.fromhex(D.IDS[idl].replace(":", ""))
    if kind == "fields":
        return {"kind": "ble", "len": rng.randrange(0, 24), "company": rng.choice(["apple", "apple", "other"]),
                "type": rng.choice(["hap", "hap", "enc", "other"]), "sf": rng.randrange(256), "ci": rng.randrange(65536),
                "s": rng.randrange(65536), "c": rng.randrange(256)}
    if kind == "blob":
        n = rng.randrange(0, 31)
        blob = bytearray(rng.randrange(256) for _ in range(n))
        if n and rng.random() < 0.7:
            blob[0] = rng.choice([0x06, 0x06, 0x11])
        if n >= 9:
            blob[3:9] = idb
            if blob[0] == 0x11:
                blob[2:8] = idb
        ty = "other" if not n else {0x06: "hap", 0x11: "enc"}.get(blob[0], "other")
        cls = {"kind": "ble", "len": n, "company": "apple", "type": ty, "sf": 0, "ci": 0, "s": 0, "c": 0, "_rawblob": bytes(blob)}
        if ty == "hap" and n >= 15:
            import struct
            ci, s, c, _ = struct.unpack("<HHBB", bytes(blob[9:15]))
            cls.update(sf=blob[2], ci=ci, s=s, c=c)
        cls["_raw"] = bytes(blob).hex()
        return cls
    return _encauth_class(rng, world, idl)


def _encauth_class(rng, world, idl):
    """an authentic encrypted notification (sealed with the cached broadcast key, fresh state number) whose iid
    and value fields are arbitrary: known bool (iid 9), string (iid 2, bytes need not be UTF-8), or not in the
    cached database at all"""
    from harness import c19_driver as D
    from harness.c18_driver import seal_notification
    idb = bytes.fromhex(D.IDS[idl].replace(":", ""))
    p = world.ble.pairings.get(D.IDS[idl])
    cur = getattr(getattr(p, "description", None), "state_num", None) if p else None
    gsn = (cur if isinstance(cur, int) else 3) + rng.choice([1, 1, 2, 50])
    iid = rng.choice([9, 2, 2, rng.randrange(1, 65536), rng.randrange(1, 65536)])
    val = bytes(rng.randrange(256) for _ in range(8))
    blob = bytes([0x11, 0x36]) + idb + seal_notification(world.bkey, idb, gsn, gsn, iid, val)
    return {"kind": "ble", "len": len(blob), "company": "apple", "type": "enc", "sf": 0, "ci": 0, "s": 0, "c": 0,
            "_rawblob": blob, "_raw": f"authentic notification gsn={gsn} iid={iid} value={val.hex()}"}


# ------------------------------------------------------------------ workers (forked)
def _parse_bulk(args):
    """(B) parse cases: each class is processed by the real callback; one world per chunk"""
    rid, pm, items = args
    from harness import c19_driver as D
    w = D.World(pm, tag=rid)
    try:
        for k, (tr, idl, cls) in enumerate(items):
            odd_txt = cls.get("kind") == "mdns" and (cls.get("xk", "none") != "none" or cls["idc"] in ("noval", "empty")
                                                     or any(cls[f] in (NOVAL, EMPTY) for f in ("c", "s", "sf", "ff", "ci")))
            if odd_txt and cls["addrs"] and k % 2 == 0:
                # the path zeroconf takes: browser callback, resolve timer, record re-read from the DNS cache
                w.adv(tr, idl, dict(cls), via="browser")
                w.run_to(w.now_ms() + 750)
            else:
                w.adv(tr, idl, dict(cls))
        w.end_bulk()
        return w.record(rid, "parse")
    finally:
        w.close()


def _encauth_bulk(args):
    seed, rid = args
    from harness import c19_driver as D
    rng = random.Random(seed)
    w = D.World({"x": "cached", "y": "cached"}, tag=rid)
    try:
        for _ in range(40):
            idl = rng.choice(["x", "y"])
            w.adv("ble", idl, _encauth_class(rng, w, idl))
        w.end_bulk()
        return w.record(rid, "encauth")
    finally:
        w.close()


_HDR = re.compile(r"^\\\* <(\w+)(?:\((.*)\))? line \d+", re.M)


def _parse_behaviour(path):
    txt = open(path).read()
    acts = []
    for m in _HDR.finditer(txt):
        name, par = m.group(1), m.group(2) or ""
        strs = re.findall(r'"([^"]*)"', par)
        nums = [int(x) for x in re.findall(r"(?<![\w\"])(\d+)(?![\w\"])", par)]
        acts.append((name, strs, nums, "TRUE" in par))
    sts = T.parse_sim_file(path)
    pm = dict(sts[0][1]["pm"]) if sts else {"x": "none", "y": "none"}
    return pm, [a for a in acts if a[0] != "Init"]


def _replay_behaviour(args):
    rid, pm, acts, seed, cases = args
    from harness import c19_driver as D
    rng = random.Random(seed)
    pools = Pools(cases)
    w = D.World(pm, tag=rid)
    try:
        for name, strs, nums, flag in acts:
            if name == "Start":
                w.start(strs[0], strs[2], strs[3], nums[-1], upper=rng.random() < 0.3)
            elif name == "AggStart":
                w.astart(strs[0], strs[1], nums[-1])
            elif name == "Cancel":
                w.cancel(strs[0], settle=False)
            elif name == "AggCancel":
                w.cancel(strs[0], settle=False)
            elif name == "Adv":
                w.adv(strs[0], strs[1], pools.pick(rng, strs[0], flag), settle=False)
            elif name == "TimerFire":
                key = strs[0]
                if key in w.tasks and not w.tasks[key].done() and w.deadline[key] >= w.now_ms():
                    w.run_to(w.deadline[key], one_iteration=True)
            else:   # Resume, AggStep, AggDrain: let the loop run what is ready
                w.settle()
        w.finish()
        return w.record(rid, "behaviour")
    finally:
        w.close()


def _random_schedule(args):
    seed, rid, cases, fuzz = args
    from harness import c19_driver as D
    rng = random.Random(seed)
    pools = Pools(cases)
    pm = {i: rng.choice(SITUATIONS) for i in ("x", "y")}
    w = D.World(pm, tag=rid)
    free_w = [f"w{i}" for i in range(1, 7)]
    free_g = ["g1", "g2"]
    info = {}
    try:
        for _ in range(rng.randrange(6, 18)):
            op = rng.choice(["start", "start", "start", "astart", "adv", "adv", "adv", "adv", "cancel", "cancel_race",
                             "timer_race", "timer_race", "wait", "wait", "fuzz" if fuzz else "adv"])
            wait = [k for k in w.waiting() if k in info]
            if op == "start" and free_w:
                k = free_w.pop(0)
                info[k] = (rng.choice(TRS), rng.choice(["x", "y"]))
                w.start(k, info[k][0], info[k][1], rng.choice([250, 1000, 2500, 10000]), upper=rng.random() < 0.3)
            elif op == "astart" and free_g:
                k = free_g.pop(0)
                info[k] = (None, rng.choice(["x", "y"]))
                w.astart(k, info[k][1], rng.choice([1000, 2500, 30000]))
            elif op == "adv":
                tr = rng.choice(TRS)
                valid = rng.random() < 0.6
                via = "browser" if tr != "ble" and valid and rng.random() < 0.25 else "direct"
                w.adv(tr, rng.choice(["x", "y"]), pools.pick(rng, tr, valid), via=via)
            elif op == "fuzz":
                tr = rng.choice(TRS)
                idl = rng.choice(["x", "y"])
                w.adv(tr, idl, _fuzz_class(rng, tr, w, idl))
            elif op == "cancel" and wait:
                w.cancel(rng.choice(wait))
            elif op == "cancel_race" and wait:
                k = rng.choice(wait)
                tr = info[k][0] or rng.choice(TRS)
                w.cancel(k, settle=False)
                w.adv(tr, info[k][1], pools.pick(rng, tr, True))
            elif op == "timer_race" and wait:
                k = min(wait, key=lambda x: (w.deadline[x], x))
                tr = info[k][0] or rng.choice(TRS)
                w.run_to(w.deadline[k], one_iteration=True)
                w.adv(tr, info[k][1], pools.pick(rng, tr, True))
            elif op == "wait":
                w.run_to(w.now_ms() + rng.choice([100, 250, 500, 1000, 3000]))
        w.finish()
        return w.record(rid, "random")
    finally:
        w.close()


# ------------------------------------------------------------------ trace validation
_KEEP = ("ev", "t", "w", "g", "tr", "id", "tmo", "res", "desc", "cls", "obs", "raised")


def _dump(path, recs):
    with open(path, "w") as f:
        for r in recs:
            f.write(json.dumps({"pm": r["pm"], "events": [{k: v for k, v in e.items() if k in _KEEP} for e in r["events"]]}) + "\n")


def _validate(ctx, tmp, recs, label):
    bad = []
    # the batches are independent: validate them in a few TLC processes side by side (each single-threaded, as the
    # TLCSet registers of the trace module require); results are collected in batch order
    nproc = 4
    chunk = max(1, min(4000, -(-len(recs) // nproc)))
    offs = list(range(0, len(recs), chunk))

    def one(off):
        part = recs[off:off + chunk]
        tf = os.path.join(tmp, f"trace_{label[:8].replace(' ', '_')}_{off}.ndjson")
        _dump(tf, part)
        try:
            res = ctx.tlc("discovery/Discovery_Trace", "Discovery_Trace.cfg", env={"TRACE_FILE": tf, "DBG_L": "0"}, workers=1,
                          dfs_queue=True, coverage=False, require_cover=False, expect_violation=True, timeout=1500,
                          label=f"{label} ({len(part)} executions)")
        finally:
            os.unlink(tf)
        if not res.ok:
            raise MachineryError(f"trace validation failed: {res.violation['kind']}\n{res.stdout[-3000:]}")
        return part, [(int(a), int(b)) for a, b in re.findall(r'<<"REJECTED", (\d+), (\d+)>>', res.stdout)]
    from concurrent.futures import ThreadPoolExecutor
    with ThreadPoolExecutor(max_workers=nproc) as ex:
        results = list(ex.map(one, offs))
    for part, rej in results:
        for tid, maxl in rej:
            bad.append([part[tid - 1], maxl, None])
        ctx.trace_ok(len(part) - len(rej))
    # report one execution of every kind of rejection first (ordering only; the verdict is TLC's)
    def kind(item):
        r, pos = item[0], item[1]
        ev = r["events"][pos - 1] if 0 < pos <= len(r["events"]) else {}
        return (ev.get("ev"), (ev.get("exc") or "")[:70], ev.get("res"), r["src"] == "parse")
    seen, first, rest = set(), [], []
    for item in bad:
        k = kind(item)
        (rest if k in seen else first).append(item)
        seen.add(k)
    bad[:] = first + rest
    for item in bad[:max(4, min(len(first), 8))]:
        one = os.path.join(tmp, "one.ndjson")
        _dump(one, [item[0]])
        for dbg in ("99999", str(item[1])):
            # first: which named property does the recorded execution break; if none (the trace is merely
            # stuck): the specification's state at the first unexplained event
            try:
                res = T.run(os.path.join(AREA, "Discovery_Trace.tla"), os.path.join(AREA, "Discovery_Trace_one.cfg"), workers=1,
                            dfs_queue=True, coverage=False, env={"TRACE_FILE": one, "DBG_L": dbg}, timeout=300, allow_error=True)
            except MachineryError:
                break
            if res.ok or not res.violation:
                continue
            if res.violation["name"] != "DebugNotReached":
                item[2] = res.violation["name"]
                break
            try:
                ce = T.parse_counterexample(res.violation["trace"])
                st = ce[-1][1]
                owed = [f"{'/'.join(k)} ({v['tr']}, id {v['id']}) is owed '{v['prom']}'" for k, v in st["wt"].items()
                        if v["pc"] == "ready" or (v["pc"] == "await" and v["fut"] == "pending" and v["dl"] <= st["now"])]
                owed += [f"aggregate {g} must report '{v['res']}'" for g, v in st["ag"].items() if v["pc"] == "done" and g not in st.get("rep", ())]
                item.append(f"at t={st['now']} ms the specification has: " + ("; ".join(owed) if owed else "nothing pending"))
            except Exception:  # noqa: BLE001
                pass
    return bad


def _explain(r, pos, prop):
    ev = r["events"][pos - 1] if 0 < pos <= len(r["events"]) else None
    prev = [e for e in r["events"][:pos - 1] if e["ev"] == "adv"][-1:] if ev else []
    if prop:
        why = f"property {prop} is violated"
    elif ev and ev["ev"] == "adv" and ev.get("raised"):
        why = "the callback raised"
    elif ev and ev["ev"] == "adv":
        why = "the parse result does not match DiscoveryParse.Expect/ObsOK, or time passed while a call was owed its result"
    else:
        why = "no behaviour of Discovery explains it at that time (a call owed a result had not returned, or returned something else)"
    s = f"execution {r['id']} ({r['src']}, pairings {r['pm']}): event #{pos} {json.dumps(ev)[:400]} is rejected: {why}"
    if prev and ev and ev["ev"] != "adv":
        s += f"; last advertisement before it: {json.dumps(prev[0])[:300]}"
    return s


def _replay(ctx, tmp):
    """./check C19 --replay file: re-execute the recorded driver calls on the tree under test and validate"""
    from harness import c19_driver as D
    data = json.load(open(ctx.replay))["replay"]
    rec0 = data["record"]
    rec = D.run_script(rec0["pm"], rec0["script"], tag=rec0["id"])
    rec["id"], rec["src"] = rec0["id"], rec0["src"]
    for e in rec["events"]:
        print("replay:", json.dumps({k: v for k, v in e.items() if k != "cls"})[:300])
    ctx.case(json.dumps(rec["events"], sort_keys=True))
    for r, pos, prop, *extra in _validate(ctx, tmp, [rec], "replayed execution"):
        ctx.violation(_explain(r, pos, prop) + (" - " + extra[0] if extra else ""),
                      {"kind": "trace", "record": r, "position": pos, "property": prop})


def run(ctx):
    ctx.rule = ("schedules of {start, aggregate start, advertisement of an abstract class, cancel, time passing, timer/cancel "
                "races} from TLC -simulate behaviours of Discovery and a seeded generator; parse classes enumerated by TLC "
                "from DiscoveryParse_Cases; an execution is distinct by its recorded event sequence, non-trivial if it has "
                ">= 1 advertisement or call")
    ctx.assume("network back-ends are stubbed in-process (zeroconf browser / cache as in the repository's tests, TCP connect "
               "refused, no CoAP context); advertisements enter at _handle_service / _async_handle_loaded_service_info / "
               "BleController._device_detected",
               "direct callers on the BLE and aggregate controllers use the normalised (lower-case) id; mDNS callers also "
               "use upper case",
               "fields the advertisement does not carry (absent TXT keys) and number-like values that are not plain decimal "
               "digits are not compared / may be ignored or accepted",
               "asyncio semantics of Task.cancel()/timeouts are those of CPython 3.12 (modelled in Discovery.tla)")
    tmp = tempfile.mkdtemp(prefix="c19_")
    try:
        if ctx.replay:
            return _replay(ctx, tmp)
        # ---------------- (A)
        ctx.tlc("discovery/Discovery", "Discovery_MCb.cfg", ignore_cover=("AggStart", "AggStep", "AggDrain", "AggCancel"),
                label="BLE flavour: 3 waiters x 2 ids, all interleavings", timeout=900)
        ctx.tlc("discovery/Discovery", "Discovery_MCm.cfg", ignore_cover=("AggStart", "AggStep", "AggDrain", "AggCancel"),
                label="mDNS flavour: 3 waiters x 2 ids, all interleavings", timeout=900)
        ctx.tlc("discovery/Discovery", "Discovery_MCagg.cfg", label="aggregate over 3 transports + 1 direct waiter", timeout=900)
        if ctx.thorough:
            ctx.tlc("discovery/Discovery", "Discovery_MC.cfg", ignore_cover=("AggStart", "AggStep", "AggDrain", "AggCancel"),
                    label="both flavours together: 3 waiters x 2 ids x 2 transports", timeout=2400)
        # non-vacuity: the tree before the fixes, as a model, is refuted
        for sw, pmodes, expect in (("Register", None, {"NoLostWakeup", "AlreadyKnownReturnsAtOnce", "OtherWaitersUndisturbed"}),
                                   ("DoneGuard", None, {"CallbackNeverRaises"}),
                                   ("CacheGuard", '{"nocache-shut", "nocache-after", "none"}', {"CallbackNeverRaises"})):
            sub = [(f"{sw} = TRUE", f"{sw} = FALSE"), ('Waiters = {"w1", "w2", "w3"}', 'Waiters = {"w1", "w2"}')]
            if pmodes:
                sub.append(('PModes = {"cached"}', f"PModes = {pmodes}"))
            res = ctx.tlc("discovery/Discovery", _cfg(tmp, "Discovery_MCb.cfg", sub, out=f"neg_{sw}.cfg"), expect_violation=True,
                          require_cover=False, label=f"non-vacuity: {sw} = FALSE must be refuted", timeout=600)
            if res.ok or res.violation["name"] not in expect:
                raise MachineryError(f"vacuity: with {sw}=FALSE TLC reported {None if res.ok else res.violation['name']}, "
                                     f"expected one of {sorted(expect)}")
        # ---------------- parse classes from the specification
        cases_out = os.path.join(tmp, "pcases.ndjson")
        ccfg = _cfg(tmp, "DiscoveryParse_Cases.cfg", (("MaxAddrs = 2", "MaxAddrs = 3"),) if ctx.thorough else ())
        ctx.tlc("discovery/DiscoveryParse_Cases", ccfg, env={"CASES_OUT": cases_out}, require_cover=False, coverage=False,
                label="parse classes + expected outcome", timeout=1500)
        cases = [json.loads(x) for x in open(cases_out)]
        if len(cases) < 1000:
            raise MachineryError("too few parse cases exported")
        pools_cases = [c for i, c in enumerate(cases) if c["exp"] != "either"]
        # a compact pool for the schedule drivers (shipping all cases to every worker is wasteful)
        rng = ctx.rng
        small = []
        for kind in ("mdns", "ble"):
            for exp in ("discovery", "ignored"):
                grp = [c for c in pools_cases if c["r"]["kind"] == kind and c["exp"] == exp]
                small += rng.sample(grp, min(len(grp), 150))
        Pools(small)
        # (B) bulk: every class, under the three pairing situations
        modes = SITUATIONS
        jobs_p = []
        per = 400
        mdns = [c["r"] for c in cases if c["r"]["kind"] == "mdns"]
        ble = [c["r"] for c in cases if c["r"]["kind"] == "ble"]
        k = 0
        for off in range(0, len(mdns), per):
            items = [(("ip", "coap")[(off + j) % 2], ("x", "y")[j % 2], r) for j, r in enumerate(mdns[off:off + per])]
            jobs_p.append((f"parse{k}", {"x": modes[k % len(modes)], "y": modes[(k + 4) % len(modes)]}, items))
            k += 1
        for mode in SITUATIONS:       # every BLE class under every pairing situation (state x load order x shut down)
            for off in range(0, len(ble), per):
                items = [("ble", ("x", "y")[j % 2], r) for j, r in enumerate(ble[off:off + per])]
                jobs_p.append((f"parse{k}", {"x": mode, "y": mode}, items))
                k += 1
        # (B) behaviours
        d = os.path.join(tmp, "sim")
        os.makedirs(d, exist_ok=True)
        ctx.tlc("discovery/Discovery", "Discovery_sim.cfg", simulate=f"file={d}/b,num={ctx.pick(300, 3000)}", depth=ctx.pick(30, 40),
                seed=ctx.seed % 1000003, workers=1, coverage=False, require_cover=False,
                label="simulate: behaviours for replay (3 transports, aggregate)", timeout=900)
        jobs_b = []
        for i, f in enumerate(sorted(glob.glob(d + "/b_*"))):
            pm, acts = _parse_behaviour(f)
            jobs_b.append((f"beh{i}", pm, acts, ctx.seed * 31 + i, small))
        shutil.rmtree(d, ignore_errors=True)
        if not jobs_b:
            raise MachineryError("no behaviours produced by tlc -simulate")
        nrand = ctx.pick(600, 6000)
        jobs_r = [(ctx.seed * 1000003 + i, f"rnd{i}", small, i % 2 == 1) for i in range(nrand)]
        with mp.get_context("fork").Pool(min(16, os.cpu_count() or 4)) as pool:
            recs = pool.map(_parse_bulk, jobs_p, chunksize=1)
            recs += pool.map(_replay_behaviour, jobs_b, chunksize=8)
            recs += pool.map(_random_schedule, jobs_r, chunksize=8)
            recs += pool.map(_encauth_bulk, [(ctx.seed * 977 + i, f"encauth{i}") for i in range(ctx.pick(4, 40))], chunksize=1)
        nadv = sum(1 for r in recs for e in r["events"] if e["ev"] == "adv")
        ctx.notes["parse_classes"] = len(cases)
        ctx.notes["behaviours_replayed"] = len(jobs_b)
        ctx.notes["random_schedules"] = nrand
        ctx.notes["advertisements_processed"] = nadv
        ctx.notes["calls"] = sum(1 for r in recs for e in r["events"] if e["ev"] in ("start", "astart"))
        ctx.notes["calls_found"] = sum(1 for r in recs for e in r["events"] if e["ev"] in ("ret", "aret") and e["res"] == "found")
        ctx.notes["calls_notfound"] = sum(1 for r in recs for e in r["events"] if e["ev"] in ("ret", "aret") and e["res"] == "notfound")
        ctx.notes["calls_cancelled"] = sum(1 for r in recs for e in r["events"] if e["ev"] in ("ret", "aret") and e["res"] == "cancelled")
        ctx.notes["callback_raised"] = sum(1 for r in recs for e in r["events"] if e["ev"] == "adv" and e.get("raised"))
        for r in recs:
            nontrivial = any(e["ev"] in ("adv", "start", "astart") for e in r["events"])
            ctx.case(json.dumps(r["events"], sort_keys=True) if nontrivial else None)
        # ---------------- (C) verdict
        bad = _validate(ctx, tmp, recs, "trace validation Discovery_Trace")
        for r, pos, prop, *extra in bad:
            ctx.violation(_explain(r, pos, prop) + (" - " + extra[0] if extra else ""), {"kind": "trace", "record": r, "position": pos, "property": prop})
        # ---------------- a fourth pairing situation: a pairing that was shut down but is still loaded (mDNS transports).
        # Records for its id keep arriving; the callback must not raise and waiters must be woken (scenario shared with
        # the zeroconf life-cycle extension, harness/props/extzc.py).
        try:
            from harness.props import extzc as _X
            jobs_s = [(f"sd-{tr}-{int(sb)}-{via}", tr, sb, via) for tr in ("ip", "coap") for sb in (False, True)
                      for via in ("direct", "browser")]
            with mp.get_context("fork").Pool(min(8, os.cpu_count() or 4)) as pool:
                srecs = pool.map(_X._shutdown_scenario, jobs_s, chunksize=1)
        except ImportError:
            srecs = []
        ctx.notes["shutdown_pairing_scenarios"] = len(srecs)
        for r in srecs:
            ctx.case(json.dumps(r["events"], sort_keys=True))
        for r, pos, prop, *extra in _validate(ctx, tmp, srecs, "records for shut-down pairings (Discovery_Trace)") if srecs else []:
            ev = r["events"][pos - 1] if 0 < pos <= len(r["events"]) else {}
            ctx.violation(f"shut-down pairing, {r['id']}: " + _explain(r, pos, prop) + (f" [{ev.get('exc')}]" if ev.get("exc") else ""),
                          {"kind": "trace", "record": r, "position": pos, "property": prop})
        bad_ids = {b[0]["id"] for b in bad}
        for src in ("behaviour", "random", "parse", "encauth"):
            for r in recs:
                if r["src"] == src and r["id"] not in bad_ids and any(e["ev"] in ("ret", "adv") for e in r["events"]):
                    ctx.sample({src: {"pm": r["pm"], "events": r["events"][:10]}})
                    break
        ctx.exhaustive = False
    finally:
        shutil.rmtree(tmp, ignore_errors=True)
