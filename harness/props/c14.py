"""C14 - values prepared for writing respect format, range and step.

(A) TLC: spec/chars/ValuePrep (pipeline Convert -> ClampMin -> ClampMax -> StepRound -> Finalise in integer
    fixed point): OnGrid, Nearest, TiesUp, InRangeIfBoundsOnGrid, IntegerFormatsInteger, BoolIs01,
    ErrorIffUnconvertible on every tuple of a tiny domain and on the real-magnitude domain; plus the
    translation / scaling lemmas that justify reaching 2^64-1 and -2^31 from TLC's 32 bit integers.
(B) spec -> code: every case TLC exports (shape x input, with the allowed outcomes and the tolerance computed
    by the specification) is concretised as int / float / decimal string / garbage, with the declared minimum,
    maximum and step as a JSON document would carry them, and run through check_convert_value and
    Service.build_update of an accessory built by Accessory.create_from_dict.
(C) code -> spec: every observation (case, returned value or exception) - from (B) and from seeded random cases -
    is validated by TLC against ValuePrep_Trace (relation Accept); the verdict is TLC's.
"""
from __future__ import annotations

import json
import multiprocessing as mp
import os
import random
import shutil
import tempfile

from harness import c14_driver as D
from harness.common import MachineryError

LIM = 500_000_000
INT_FORMATS = ("uint8", "uint16", "uint32", "uint64", "int")


# ------------------------------------------------------------------ running cases on the real code
def _case_of(shape, v):
    c = dict(shape)
    c["v"] = v
    return c


def _okey(o):
    return (o["kind"], o["lo"], o["hi"], o["lo3"], o["hi3"], o["typ"])


def _run_numeric(shape, inputs, thorough, rng, acc):
    """inputs: list of dicts {v, exact, tol, allowed}.  Appends to acc: key -> [rec, n_exec, call, detail]."""
    S = shape["S"]
    fmt = shape["fmt"]
    chars = {}

    def char_for(U, B, how):
        k = (U, B, how)
        if k not in chars:
            ps = D.params_for(shape, S, U, B, how)
            chars[k] = None if ps is None else (ps, D.make_char(fmt, *ps))
        return chars[k]

    for inp in inputs:
        v = inp["v"]
        c = _case_of(shape, v)
        for (U, B) in D.transforms(shape, v, inp["exact"], thorough, rng):
            hows = ["native", "float"] if (U, B) == (1, 0) else ["native"]
            seen_params = set()
            for how in hows:
                pc = char_for(U, B, how)
                if pc is None:
                    continue
                ps, (svc, char) = pc
                if ps in seen_params:
                    continue
                seen_params.add(ps)
                for ev in D.values_for(shape, v, S, U, B):
                    for api in ("ccv", "bu"):
                        kind, payload = D.call(api, svc, char, D.dec(ev))
                        o = D.observe(kind, payload, S, U, B)
                        _note(acc, c, o, inp, {"fmt": fmt, "min": ps[0], "max": ps[1], "step": ps[2], "value": ev,
                                               "api": api, "S": S, "U": U, "B": B}, kind, payload)


def _run_tokens(shape, inp, acc):
    fmt = shape["fmt"]
    kind = shape["kind"]
    if fmt == "bool":
        toks = {"true": D.TRUE_TOKENS, "false": D.FALSE_TOKENS, "othernum": D.BOOL_OTHERNUM}.get(kind, D.BOOL_GARBAGE)
    else:
        toks = D.GARBAGE if kind == "garbage" else D.NONFINITE
    S = shape["S"]
    ps = D.params_for(shape, S, 1, 0, "native")
    svc, char = D.make_char(fmt, *ps)
    c = _case_of(shape, 0)
    for ev in toks:
        for api in ("ccv", "bu"):
            k, payload = D.call(api, svc, char, D.dec(ev))
            o = D.observe(k, payload, S, 1, 0)
            _note(acc, c, o, inp, {"fmt": fmt, "min": ps[0], "max": ps[1], "step": ps[2], "value": ev, "api": api,
                                   "S": S, "U": 1, "B": 0}, k, payload)


def _note(acc, c, o, inp, call, kind, payload):
    key = (tuple(sorted(c.items())), _okey(o))
    e = acc.get(key)
    if e is None:
        acc[key] = [{"c": c, "o": o}, 1, call, repr(payload)[:200] if kind != "value" else repr(payload),
                    inp]
    else:
        e[1] += 1


def _work_lines(args):
    lines, thorough, seed = args
    acc = {}
    for idx, line in lines:
        rng = random.Random(seed * 1000003 + idx)
        d = json.loads(line)
        shape = d["shape"]
        if shape["kind"] == "num" and shape["fmt"] != "bool":
            _run_numeric(shape, d["inputs"], thorough, rng, acc)
        else:
            _run_tokens(shape, d["inputs"][0], acc)
    return list(acc.values())


# ------------------------------------------------------------------ seeded random cases (code -> spec only)
def _rand_mag(rng, S):
    e = rng.choice([1, 2, 2, 3, 3, 4, 5, 6, 7, 8])
    return rng.randrange(0, min(10 ** e, LIM // 2))


def _random_shapes(rng, n):
    out = []
    for _ in range(n):
        fmt = rng.choice(INT_FORMATS + ("float", "float", "float", "float"))
        S = rng.choice([1, 10] if fmt != "float" else [1, 10, 100])
        q = S if fmt != "float" else 1                       # integer formats: integer min/max/step
        has_lo, has_hi, has_st = rng.random() < 0.7, rng.random() < 0.7, rng.random() < 0.8
        lo = (rng.choice([-1, 1, 1]) * _rand_mag(rng, S) // q) * q if has_lo else 0
        hi = (_rand_mag(rng, S) // q) * q if has_hi else 0
        if has_lo and has_hi and lo > hi:
            lo, hi = hi, lo
        st = 0
        if has_st:
            st = rng.choice([1, 1, 2, 5, 10, 25, 3, 7, rng.randrange(1, 1000), rng.randrange(1, 100000)]) * q
        shape = {"fmt": fmt, "S": S, "hasLo": has_lo, "lo": lo, "hasHi": has_hi, "hi": hi, "hasSt": has_st, "st": st,
                 "kind": "num", "v": 0}
        off = lo if has_lo else 0
        inputs = set()
        for _ in range(12):
            stp = st or S
            k = rng.choice([0, 1, 2, rng.randrange(0, 50), rng.randrange(0, 10 ** 6)])
            base = off + k * stp
            d = rng.choice([0, 1, -1, stp // 2, stp // 2 + 1, stp // 2 - 1, rng.randrange(0, stp), -(stp // 2)])
            inputs.add(base + d)
            inputs.add(rng.choice([-1, 1]) * _rand_mag(rng, S))
            if has_hi:
                inputs.add(hi + rng.randrange(-3, 4))
        ins = [{"v": v, "exact": (fmt != "float" and v % S == 0), "tol": None, "tolm": None, "allowed": None}
               for v in sorted(inputs) if abs(v) <= LIM]
        out.append((shape, ins))
    return out


def _work_random(args):
    shapes, thorough, seed = args
    acc = {}
    for idx, (shape, ins) in shapes:
        rng = random.Random(seed * 7919 + idx)
        _run_numeric(shape, ins, thorough, rng, acc)
    return list(acc.values())


# ------------------------------------------------------------------ reporting
def _describe(entry):
    rec, n, call, detail, inp = entry
    pv = lambda ev: "absent" if ev is None else repr(D.dec(tuple(ev)))  # noqa: E731
    fn = "check_convert_value" if call["api"] == "ccv" else "Service.build_update"
    exp = ""
    if inp and inp.get("allowed") is not None:
        al = [a["kind"] if a["kind"] != "value" else _real(a["v"], call) for a in inp["allowed"]]
        exp = f"; the specification allows {al}" + (f" within +-{inp['tol']}/{call['S']}" if inp.get("tol") else "") + \
            (f" within +-{inp['tolm']}/{call['S'] * 1000}" if inp.get("tolm") else "")
    return (f"{fn}({pv(call['value'])}) on a {call['fmt']} characteristic (minValue {pv(call['min'])}, maxValue "
            f"{pv(call['max'])}, minStep {pv(call['step'])}) -> {rec['o']['kind']} {detail}{exp}")


def _real(units, call):
    from fractions import Fraction
    return D.frac_str(Fraction(units, call["S"]) * call["U"] + call["B"])


def _class_of(entry):
    rec, n, call, detail, inp = entry
    c, o = rec["c"], rec["o"]
    return (("integer" if c["fmt"] in INT_FORMATS else c["fmt"]), c["kind"], o["kind"],
            detail.strip("'\"").split(":")[0] if o["kind"] == "other" else "")


def _simplicity(entry):
    rec, n, call, detail, inp = entry
    c = rec["c"]
    return (call["U"] != 1 or call["B"] != 0, not (inp and inp.get("allowed")), c["v"] < 0, c["hasLo"] + c["hasHi"], abs(c["v"]), call["api"] != "ccv",
            json.dumps(call, sort_keys=True))


def _validate(ctx, tmp, entries, label):
    """TLC validates every observation record; returns indices of rejected records."""
    tf = os.path.join(tmp, "obs.ndjson")
    with open(tf, "w") as f:
        for e in entries:
            f.write(json.dumps(e[0]) + "\n")
    res = ctx.tlc("chars/ValuePrep_Trace", "ValuePrep_Trace.cfg", env={"TRACE_FILE": tf}, expect_violation=True,
                  require_cover=False, label=label)
    if res.ok:
        return []
    if res.violation["name"] != "Conforms":
        ctx.violation(f"TLC: {res.violation['kind']} {res.violation['name']} violated in ValuePrep_Trace",
                      {"kind": "tlc", "violation": {**res.violation, "trace": res.violation["trace"][:100000]}})
        return []
    rj = os.path.join(tmp, "rejected.ndjson")
    ctx.tlc("chars/ValuePrep_Trace", "ValuePrep_Trace_rejected.cfg", env={"TRACE_FILE": tf, "REJECT_OUT": rj},
            require_cover=False, label=label + " (list of rejected records)")
    bad = [int(line) - 1 for line in open(rj) if line.strip()]
    if not bad:
        raise MachineryError("TLC reported Conforms violated but listed no rejected record")
    return bad


def _report(ctx, entries, bad):
    seen = {}
    for i in bad:
        e = entries[i]
        seen.setdefault(_class_of(e), []).append(e)
    for cls, es in sorted(seen.items(), key=lambda kv: repr(kv[0])):
        e = min(es, key=_simplicity)
        ctx.violation(_describe(e) + f"  [rejected by ValuePrep!Accept; {len(es)} rejected observation(s) of this kind]",
                      {"kind": "observation", "record": e[0], "call": e[2], "observed": e[3], "spec": e[4]})


# ------------------------------------------------------------------ entry points
def _replay(ctx, tmp):
    data = json.load(open(ctx.replay))["replay"]
    call, rec = data["call"], data["record"]
    conv = lambda ev: None if ev is None else tuple(ev)  # noqa: E731
    svc, char = D.make_char(call["fmt"], conv(call["min"]), conv(call["max"]), conv(call["step"]))
    kind, payload = D.call(call["api"], svc, char, D.dec(tuple(call["value"])))
    o = D.observe(kind, payload, call["S"], call["U"], call["B"])
    entry = [{"c": rec["c"], "o": o}, 1, call, repr(payload), data.get("spec")]
    print("replay:", _describe(entry))
    ctx.case(("replay", json.dumps(rec["c"], sort_keys=True)))
    bad = _validate(ctx, tmp, [entry], "replayed observation")
    if bad:
        _report(ctx, [entry], bad)
    else:
        ctx.trace_ok()


def run(ctx):
    ctx.rule = ("cases = (format, scale, minValue, maxValue, minStep, input) tuples enumerated by TLC from "
                "spec/chars/ValuePrep.tla plus seeded random tuples; distinct by the tuple in fixed-point units and "
                "the observed outcome; non-trivial = every numeric case and every token case")
    ctx.assume("floats are read by their shortest decimal rendering (repr), the 'decimal reading' of the statement",
               "six-significant-digit allowance: |result - grid point| and the slack on 'nearest' are at most "
               "floor(M/25000) units, M = |min| + |clamped - min| + step (ValuePrep!Tol); zero for integer formats with "
               "integer-valued input and wherever no step is declared",
               "magnitudes beyond 5*10^8 units (2^64-1, -2^31, multiples of 2^33 and 10^10) are reached for the exact "
               "class by translating / scaling TLC-enumerated cases (ValuePrep!ShiftLemma, ScaleLemma)",
               "ties below the grid origin (no declared minimum, negative input) and integer formats without a step "
               "may round either way; nan / inf may be rejected or carried through, but no other exception may escape")
    tmp = tempfile.mkdtemp(prefix="c14_")
    try:
        if ctx.replay:
            return _replay(ctx, tmp)
        # ---------------- (A) design level: every small tuple
        ctx.tlc("chars/ValuePrep", "ValuePrep_tiny.cfg", label="all tuples of the tiny domain (two scales)")
        # ---------------- (A)+(B) real magnitudes, export
        cfg = ctx.pick("ValuePrep_Cases_quick.cfg", "ValuePrep_Cases_real.cfg")
        out = os.path.join(tmp, "cases.ndjson")
        ctx.tlc("chars/ValuePrep_Cases", cfg, env={"CASES_OUT": out}, label="real-magnitude domain + case export")
        lines = list(enumerate(open(out)))
        if len(lines) < 50:
            raise MachineryError("too few shapes exported")
        nproc = min(16, os.cpu_count() or 4)
        chunks = [lines[i::nproc * 4] for i in range(nproc * 4)]
        mpctx = mp.get_context("fork")
        with mpctx.Pool(nproc) as pool:
            parts = pool.map(_work_lines, [(ch, ctx.thorough, ctx.seed) for ch in chunks if ch])
            entries = [e for p in parts for e in p]
            # ---------------- seeded random tuples
            nrand = ctx.pick(1500, 40000)
            shapes = list(enumerate(_random_shapes(ctx.rng, nrand)))
            rchunks = [shapes[i::nproc * 4] for i in range(nproc * 4)]
            rparts = pool.map(_work_random, [(ch, ctx.thorough, ctx.seed) for ch in rchunks if ch])
            rentries = [e for p in rparts for e in p]
        entries.sort(key=lambda e: json.dumps(e[0], sort_keys=True))
        rentries.sort(key=lambda e: json.dumps(e[0], sort_keys=True))
        n_exec = sum(e[1] for e in entries) + sum(e[1] for e in rentries)
        ncases = 0
        for e in entries + rentries:
            c = e[0]["c"]
            ctx.case((tuple(sorted(c.items())), _okey(e[0]["o"])), n=e[1])
            ncases += 1
        ctx.notes["observation_records"] = ncases
        ctx.notes["executions_of_real_code"] = n_exec
        # quick, tolerance-free cross-check against the exported outcome sets (names the case; not the verdict)
        pre_bad = set()
        for i, e in enumerate(entries):
            inp = e[4]
            if inp and inp.get("allowed") is not None and inp["tol"] == 0 and inp["tolm"] == 0 \
                    and e[0]["c"]["kind"] != "nonfinite":
                o = e[0]["o"]
                al = {(a["kind"], a["v"]) for a in inp["allowed"]}
                got = (o["kind"], o["lo"] if o["kind"] == "value" else 0)
                if got not in al or o["lo"] != o["hi"]:
                    pre_bad.add(i)
        # ---------------- (C) TLC validates every observation
        allent = entries + rentries
        bad = []
        B = 150000
        for off in range(0, len(allent), B):
            part = allent[off:off + B]
            bad += [off + i for i in _validate(ctx, tmp, part, f"observations {off + 1}..{off + len(part)} of the real code")]
        missed = pre_bad - set(bad)
        if missed:
            raise MachineryError(f"exported outcome set and Accept disagree on record {allent[min(missed)][0]}")
        if bad:
            _report(ctx, allent, bad)
        badset = set(bad)
        ctx.trace_ok(sum(e[1] for i, e in enumerate(allent) if i not in badset))
        for e in allent:
            if e[0]["c"]["kind"] == "num" and e[0]["c"]["hasSt"] and e[2]["value"][0] == "float" and len(ctx.samples) < 2:
                ctx.sample({"case_units": e[0]["c"], "observation": e[0]["o"], "call": e[2], "returned": e[3]})
        for e in allent:
            if e[2]["B"] != 0 and len(ctx.samples) < 3:
                ctx.sample({"case_units": e[0]["c"], "observation": e[0]["o"], "call": e[2], "returned": e[3]})
        for e in allent:
            if e[0]["c"]["kind"] == "garbage" and len(ctx.samples) < 4:
                ctx.sample({"case_units": e[0]["c"], "observation": e[0]["o"], "call": e[2], "returned": e[3]})
        ctx.exhaustive = False
        ctx.notes["exhaustive_part"] = ("TLC: every tuple of the tiny domain and of the real-magnitude domain; replay: "
                                        "every exported case in every presentation")
    finally:
        shutil.rmtree(tmp, ignore_errors=True)
