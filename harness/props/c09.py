"""C09 - requests are written byte-for-byte in the canonical iOS form, one transport call each.

(A) TLC: spec/http/HttpRequestFormat (request() as a state machine - build lines, join with CR LF,
    one transport call - against the declarative canonical form; invariants CanonicalForm,
    HeaderDiscipline, SingleCall, CompactNoWhitespace) over a request universe of methods x
    targets x hosts (IPv4, IPv6, scoped IPv6) x bodies (none, empty, text, opaque lengths around the
    1024-byte frame boundaries, ~1.6e3 nested JSON values), and with tiny framing constants.
(B) spec -> code: every request of that universe is exported with the byte string(s) the
    specification permits and the buffer lengths of the one transport call, issued through the REAL
    HomeKitConnection.get/request/put/post/put_json/post_json on insecure and secure SimNet
    sessions, and compared with what the accessory end received (after decryption) and with the
    transport.write/writelines calls observed; read-target sets exported by TLC are compared with
    IpPairing.get_characteristics.
(C) code -> spec: every request of every session - including the library's own pair-verify and
    the pairing API (get/put_characteristics, subscribe, unsubscribe, identify, list/add/remove
    pairing, image, accessories) and seeded random JSON values with floats / escapes / unicode -
    is validated by TLC against HttpRequestFormat_Trace (format, single call, payload content
    modulo object key order).
"""
from __future__ import annotations

import json
import multiprocessing as mp
import os
import random
import shutil
import tempfile

from harness import c09_driver as D
from harness.common import MachineryError

API_HOSTS = ["10.0.0.1", "fe80::aede:48ff:fe00:1122%eth0", "2001:db8::7"]
WRITABLE = [(1, 2), (1, 9), (1, 10), (2, 2), (2, 9)]
IDENTIFY = [[1, 2], [2, 2]]


def _hostrec(h):
    return {"text": h, "v6": ":" in h}


def _ct(ctype):
    from aiohomekit.http import HttpContentTypes
    return {D.JSONT: HttpContentTypes.JSON, D.TLVT: HttpContentTypes.TLV}[ctype]


# ----------------------------------------------------------------------------------------------
# (B) exported connection-level cases on one session
# ----------------------------------------------------------------------------------------------
def _open(host, secure):
    """Open a session; a session that cannot be set up because the accessory received bytes that never
    form a complete request (strict reader: CR LF line ends, Content-Length) is a finding, not a crash."""
    try:
        return D.Session(host, secure), None
    except D.SetupFailed as ex:
        if ex.stray:
            return None, (f"session setup on {host} (secure={secure}) failed ({ex.cause}): the accessory received "
                          f"{len(ex.stray)} byte(s) that do not form a complete request: {ex.stray[:200]!r}",
                          {"kind": "setup", "host": host, "secure": secure, "received": ex.stray}, None)
        raise MachineryError(f"session setup on {host} (secure={secure}) failed: {ex.cause}") from ex


def _conn_job(args):
    host, secure, cases, seed = args
    rng = random.Random(f"{seed}/{host}/{secure}/{len(cases)}/{cases[0][0] if cases else 0}")
    sess, v = _open(host, secure)
    if sess is None:
        return [], [v], 0
    records, viols = [], []
    try:
        conn = sess.conn
        if secure:
            reqs, probs = D.observe(sess, False, False)
            records.append({"call": {"api": "pair_verify"}, "secure": False, "host": _hostrec(host), "reqs": reqs,
                            "_case": None})
        for ci, case in cases:
            r = case["req"]
            via, target = r["via"], r["target"]
            body = None
            pyval = None
            if r["bkind"] == "text":
                body = (r.get("text") or "").encode("latin-1")
            elif r["bkind"] == "opaque":
                body = bytes(rng.randrange(256) for _ in range(r["len"]))
            elif r["bkind"] == "json":
                pyval = D.from_tree(r["json"])

            async def go():
                if via == "get":
                    await conn.get(target)
                elif via == "request":
                    await conn.request(method=r["method"] if rng.random() < 0.5 else r["method"].lower(), target=target)
                elif via in ("put", "post"):
                    await getattr(conn, via)(target, body, content_type=_ct(r["ctype"]))
                elif via == "put_json":
                    await conn.put_json(target, pyval)
                elif via == "post_json":
                    await conn.post_json(target, pyval)
                else:
                    raise MachineryError(f"unknown via {via}")
            err = None
            try:
                sess.run(go())
            except MachineryError:
                raise
            except Exception as ex:  # noqa: BLE001
                err = f"{type(ex).__name__}: {ex}"
            reqs, probs = D.observe(sess, r["bkind"] == "json", False)
            replay = {"kind": "conn_case", "host": host, "secure": secure, "req": r, "forms": case["forms"]}
            if len(reqs) != 1:
                viols.append((f"{via} {target} on {host} (secure={secure}): "
                              f"{err or ''} accessory saw {len(reqs)} complete request(s); unparsed bytes at the "
                              f"accessory: {sess.stray()[:200]!r}", replay, None))
                if not reqs:
                    if sess.stray() or not sess.conn.is_connected:
                        break       # the connection is out of sync / gone: the remaining cases cannot be run on it
                    continue
            for p in probs:
                viols.append((p, replay, None))
            o = reqs[0]
            if r["bkind"] == "opaque":
                want_body = body.decode("latin-1")
            else:
                want_body = case["body"] or ""
            ok = any(o["raw"] == f["head"] + want_body and o["tcalls"] == [f["sec" if secure else "plain"] or []]
                     for f in case["forms"])
            rec = {"call": {"api": "conn", "method": r["method"], "target": target, "ctype": r["ctype"],
                            "bkind": "json" if r["bkind"] == "json" else "none" if r["bkind"] == "none" else "text",
                            "json": r["json"], "cmp": r["bkind"] == "json"},
                   "secure": secure, "host": _hostrec(host), "reqs": reqs, "_case": ci}
            if not ok:
                same_content = False
                if r["bkind"] == "json" and not probs:
                    try:
                        same_content = json.loads(o["text"]) == pyval and \
                            o["raw"].endswith(o["text"]) and o["tcalls"] and len(o["tcalls"]) == 1
                    except ValueError:
                        same_content = False
                if same_content:
                    rec["_deferred"] = True      # bytes differ, content equal: TLC decides (key order is free)
                else:
                    exp = case["forms"][0]
                    viols.append((f"{via} {target} on {host} (secure={secure}): accessory received "
                                  f"{o['raw'][:300]!r} in transport calls {o['tcalls']}; specification: "
                                  f"{(exp['head'] + want_body)[:300]!r} in one call {exp['sec' if secure else 'plain']}",
                                  {**replay, "observed_raw": o["raw"], "observed_tcalls": o["tcalls"]}, ci))
            records.append(rec)
        stray = sess.stray_bytes()
        if stray:
            viols.append((f"{stray} byte(s) received by the accessory that belong to no complete request "
                          f"(host {host}, secure={secure})", {"kind": "stray", "host": host, "secure": secure}, None))
    finally:
        sess.close()
    return records, viols, len(cases)


# ----------------------------------------------------------------------------------------------
# pairing API on one secure session
# ----------------------------------------------------------------------------------------------
def _api_job(args):
    host, api_cases, seed, nrand = args
    rng = random.Random(f"{seed}/api/{host}")
    sess, v = _open(host, True)
    if sess is None:
        return [], [v], 0
    records, viols = [], []
    hostrec = _hostrec(host)

    def record(call, want_json, want_order, coro, expect_targets=None):
        err = None
        try:
            sess.run(coro)
        except Exception as ex:  # noqa: BLE001
            err = f"{type(ex).__name__}: {ex}"
        reqs, probs = D.observe(sess, want_json, want_order)
        replay = {"kind": "api_call", "host": host, "call": call}
        if err and not reqs:
            viols.append((f"{call['api']} raised {err} without sending a request", replay, None))
        for p in probs:
            viols.append((p, replay, None))
        if not reqs:
            if not err:
                raise MachineryError(f"{call['api']} produced no request on the simulated accessory")
            return
        if expect_targets is not None and reqs[0]["_target"] not in expect_targets:
            viols.append((f"get_characteristics({call['ids']}) requested {reqs[0]['_target']!r}; the specification "
                          f"permits {sorted(expect_targets)[:4]}...", {**replay, "observed_target": reqs[0]["_target"]},
                          None))
        records.append({"call": call, "secure": True, "host": hostrec, "reqs": reqs, "_case": None})

    try:
        p = sess.pairing
        reqs, _ = D.observe(sess, False, False)
        records.append({"call": {"api": "pair_verify"}, "secure": False, "host": hostrec, "reqs": reqs, "_case": None})
        record({"api": "list_accessories"}, False, False, p.list_accessories_and_characteristics())
        # reads: every id set TLC exported (argument order / container varied)
        for c in api_cases:
            ids = [tuple(x) for x in c["ids"]]
            rng.shuffle(ids)
            arg = rng.choice([list(ids), set(ids), tuple(ids), list(ids) + [ids[0]]])
            record({"api": "get_characteristics", "ids": [list(x) for x in ids]}, False, True,
                   p.get_characteristics(arg), expect_targets=set(c["targets"]))
        for _ in range(nrand):
            ids = list({(rng.choice([1, 2, 7, 33, 1000]), rng.choice([1, 2, 9, 10, 11, 127, 128, 65535, 2000000000]))
                        for _ in range(rng.randrange(1, 9))})
            record({"api": "get_characteristics", "ids": [list(x) for x in ids]}, False, True, p.get_characteristics(ids))
        # writes
        values = [True, False, 0, 1, 55, -3, 100, "s p", "", "on"]
        wsets = [[(1, 9, True)], [(1, 10, 55)], [(1, 9, False), (1, 10, 100)], [(2, 9, True), (1, 9, True)],
                 [(1, 2, True)], [(1, 10, "s p"), (2, 9, 0), (1, 9, -3)]]
        for _ in range(nrand):
            wsets.append([(*rng.choice(WRITABLE), rng.choice(values)) for _ in range(rng.randrange(1, 5))])
        for ws in wsets:
            record({"api": "put_characteristics", "writes": [[a, i, D.lit_of(v)] for a, i, v in ws]}, True, False,
                   p.put_characteristics(ws))
        # subscriptions (argument order matters to the grouping; every order must give canonical requests)
        subs = [[(1, 9)], [(1, 9), (1, 10)], [(1, 9), (2, 9)], [(1, 9), (2, 9), (1, 10)], [(2, 9), (1, 10), (1, 9), (2, 2)]]
        for _ in range(nrand // 2):
            pool = [(a, i) for a in (1, 2, 3) for i in (2, 9, 10, 11)]
            subs.append(rng.sample(pool, rng.randrange(1, 7)))
        for ids in subs:
            arg = rng.choice([list(ids), set(ids)])
            record({"api": "subscribe", "ids": [list(x) for x in ids], "on": True}, True, False, p.subscribe(arg))
            arg = rng.choice([list(ids), set(ids), sorted(ids)])
            record({"api": "unsubscribe", "ids": [list(x) for x in ids], "on": False}, True, False, p.unsubscribe(arg))
        record({"api": "identify", "ids": IDENTIFY}, True, False, p.identify())
        record({"api": "list_pairings"}, False, False, p.list_pairings())
        record({"api": "add_pairing"}, False, False, p.add_pairing("second-controller", "ab" * 32, "User"))
        record({"api": "add_pairing"}, False, False, p.add_pairing("third-controller", "cd" * 32, "Admin"))
        record({"api": "remove_pairing"}, False, False, p.remove_pairing("second-controller"))
        for aid, w, h in [(1, 640, 480), (2, 1, 1), (1, 1920, 1080)]:
            record({"api": "image", "aid": aid, "w": w, "h": h}, True, False, p.image(aid, w, h))
        stray = sess.stray_bytes()
        if stray:
            viols.append((f"{stray} stray byte(s) at the accessory (host {host})", {"kind": "stray", "host": host}, None))
    finally:
        sess.close()
    return records, viols, len(records)


# ----------------------------------------------------------------------------------------------
# seeded random JSON values (floats, escapes, unicode, deep nesting, non-str keys) through put_json
# ----------------------------------------------------------------------------------------------
def _rand_json(rng, depth=0):
    r = rng.random()
    if depth >= 4 or r < 0.45:
        return rng.choice([None, True, False, 0, -1, 7, 2 ** 31, 2 ** 53, -2 ** 40, 0.5, -1.25, 1e-7, 1e21, 21.5, 3.0,
                           "", "a b", " lead", "tab\there", "nl\nx", "q\"uote", "back\\slash", "éü", "€",
                           "\U0001f600", "{\"a\": 1}", "a, b: c", "\r\n", "\x00\x1f"])
    if r < 0.7:
        return [_rand_json(rng, depth + 1) for _ in range(rng.randrange(0, 4))]
    keys = rng.sample(["aid", "iid", "value", "ev", "a b", "", "k\"q", "ü", "characteristics", "x:y", "z,w"],
                      rng.randrange(0, 4))
    return {k: _rand_json(rng, depth + 1) for k in keys}


def _norm(v):
    if isinstance(v, dict):
        return {str(k): _norm(x) for k, x in v.items()}
    if isinstance(v, list):
        return [_norm(x) for x in v]
    return v


def _randjson_job(args):
    host, secure, seed, n = args
    rng = random.Random(f"{seed}/randjson/{host}/{secure}")
    sess, v = _open(host, secure)
    if sess is None:
        return [], [v], 0
    records, viols = [], []
    try:
        if secure:
            D.observe(sess, False, False)
        for i in range(n):
            val = _rand_json(rng)
            if rng.random() < 0.15 and isinstance(val, dict):
                val = {**val, 7: "int key"}          # orjson OPT_NON_STR_KEYS
            via = rng.choice(["put_json", "post_json"])
            err = None
            try:
                sess.run(getattr(sess.conn, via)("/characteristics", val))
            except Exception as ex:  # noqa: BLE001
                err = f"{type(ex).__name__}: {ex}"
            reqs, probs = D.observe(sess, True, False)
            replay = {"kind": "random_json", "host": host, "secure": secure, "via": via, "value": repr(val)}
            if len(reqs) != 1:
                viols.append((f"{via}({val!r}) {err or ''}: accessory saw {len(reqs)} request(s)", replay, None))
                continue
            for p in probs:
                viols.append((p, replay, None))
            # content (outside the model): the body must decode to the value that was passed
            try:
                back = json.loads(reqs[0]["text"].encode("latin-1").decode("utf-8"))
                if back != _norm(val):
                    viols.append((f"{via}: body {reqs[0]['text'][:200]!r} does not decode to the value passed {val!r}",
                                  replay, None))
            except ValueError as ex:
                viols.append((f"{via}: body is not valid UTF-8 JSON ({ex})", replay, None))
            records.append({"call": {"api": "conn", "method": "PUT" if via == "put_json" else "POST",
                                     "target": "/characteristics", "ctype": D.JSONT, "bkind": "json",
                                     "json": D.NULL_TREE, "cmp": False},
                            "secure": secure, "host": _hostrec(host), "reqs": reqs, "_case": None})
    finally:
        sess.close()
    return records, viols, len(records)


def _dispatch(job):
    kind, args = job
    return {"conn": _conn_job, "api": _api_job, "rand": _randjson_job}[kind](args)


def _strip(rec):
    out = {k: v for k, v in rec.items() if not k.startswith("_")}
    out["reqs"] = [{k: v for k, v in r.items() if not k.startswith("_")} for r in rec["reqs"]]
    return out


def run(ctx):
    ctx.rule = ("one evaluation = one request observed at the accessory end and compared with the specification; "
                "distinct = distinct (call, host, session kind) descriptions")
    ctx.assume("the socket peer name reported to the library is the host text configured in the scenario "
               "(SimNet PeerSock); 'IPv6' means the host text contains ':'",
               "an explicitly EMPTY body given to put()/post() may be sent with or without "
               "Content-Length: 0 / Content-Type (the statement says 'only when there is a body'); "
               "object key order and the order of ids in a read target are free",
               "JSON bodies are split into tokens by an independent tokenizer in harness/c09_driver.py; numbers with "
               "fractions/exponents and string escapes are taken verbatim from orjson (checked only for absence of "
               "white space between tokens and for decoding back to the value passed)",
               "one transport call = one call of write()/writelines() on the asyncio socket transport; how the kernel "
               "segments it is outside the library")
    tmp = tempfile.mkdtemp(prefix="c09_")
    pool = mp.get_context("fork").Pool(12)
    try:
        # ---------------- (A)
        ctx.tlc("http/HttpRequestFormat_Cases", "HttpRequestFormat_tiny.cfg", label="request() machine, tiny framing constants")
        out, api_out = os.path.join(tmp, "cases.ndjson"), os.path.join(tmp, "api.ndjson")
        ctx.tlc("http/HttpRequestFormat_Cases", "HttpRequestFormat_real.cfg", env={"CASES_OUT": out, "API_OUT": api_out},
                label="request() machine on the request universe + case export")
        cases = [json.loads(line) for line in open(out)]
        api_cases = [json.loads(line) for line in open(api_out)]
        if not cases or not api_cases:
            raise MachineryError("no cases exported")
        for c in cases:
            r = c["req"]
            if not isinstance(r.get("text"), str):
                r["text"] = ""
            c["body"] = c["body"] if isinstance(c["body"], str) else ""
        # ---------------- (B) + recording for (C)
        by_host = {}
        for ci, c in enumerate(cases):
            by_host.setdefault(c["req"]["host"]["text"], []).append((ci, c))
        jobs = []
        for host, cs in sorted(by_host.items()):
            for secure in (False, True):
                for off in range(0, len(cs), 260):
                    jobs.append(("conn", (host, secure, cs[off:off + 260], ctx.seed)))
        nrand = ctx.pick(12, 150)
        for host in API_HOSTS:
            jobs.append(("api", (host, api_cases, ctx.seed, nrand)))
        nj = ctx.pick(150, 2500)
        for host, secure in (("10.0.0.1", False), ("fe80::1", True)) + ctx.pick((), (("2001:db8::7", False), ("192.168.178.214", True))):
            jobs.append(("rand", (host, secure, ctx.seed, nj)))
        records = []
        reported = set()
        nviol = 0
        for recs, viols, n in pool.imap(_dispatch, jobs):
            records += recs
            for what, replay, ci in viols:
                nviol += 1
                if ci is not None:
                    reported.add(ci)
                if nviol <= 15:
                    ctx.violation(what, replay)
        if nviol > 15:
            ctx.violation(f"... and {nviol - 15} more requests that differ from the specification", {"count": nviol})
        for rec in records:
            c = rec["call"]
            ctx.case((c["api"], rec["host"]["text"], rec["secure"],
                      json.dumps({k: v for k, v in c.items() if k != "api"}, sort_keys=True)[:400]),
                     n=max(1, len(rec["reqs"])))
        ctx.notes["requests_observed"] = sum(len(r["reqs"]) for r in records)
        ctx.notes["calls"] = len(records)
        # ---------------- (C) trace validation of everything that was observed
        _validate(ctx, tmp, records, reported)
        smp = [r for r in records if r["call"]["api"] == "subscribe" and len(r["reqs"]) > 1][:1] + \
              [r for r in records if r["call"]["api"] == "conn" and r["secure"] and r["call"]["bkind"] == "json"][5:6]
        for r in smp:
            ctx.sample({"trace_record": _strip(r)})
        ctx.sample({"exported_case": cases[len(cases) // 2]})
        ctx.exhaustive = False
    finally:
        pool.terminate()
        pool.join()
        shutil.rmtree(tmp, ignore_errors=True)


def _validate(ctx, tmp, records, reported):
    from harness import tlc as T
    empty = [r for r in records if not r["reqs"]]
    if empty:
        raise MachineryError(f"record without requests: {empty[0]['call']}")
    batch = 2500
    reruns = 0
    for off in range(0, len(records), batch):
        part = records[off:off + batch]
        while part:
            tf = os.path.join(tmp, f"trace{off}.ndjson")
            with open(tf, "w") as f:
                for r in part:
                    f.write(json.dumps(_strip(r)) + "\n")
            res = ctx.tlc("http/HttpRequestFormat_Trace", "HttpRequestFormat_Trace.cfg", env={"TRACE_FILE": tf},
                          expect_violation=True, require_cover=False, coverage=False, timeout=1500,
                          label="trace validation of observed requests")
            if res.ok:
                ctx.trace_ok(sum(len(r["reqs"]) for r in part))
                break
            ce = T.parse_counterexample(res.violation["trace"])
            last = ce[-1][1] if ce else None
            if last is None:
                import re
                m = re.search(r"violated by the initial state:\s*\n(.*?)\n\s*\n", res.stdout, re.S)
                if m:
                    try:
                        last = T.parse_state(m.group(1))
                    except (ValueError, IndexError):
                        last = None
            tid = last.get("tid") if last else None
            k = last.get("k") if last else None
            if not isinstance(tid, int):
                raise MachineryError(f"cannot locate the rejected record: {res.stdout[-3000:]}")
            rec = part[tid - 1]
            o = rec["reqs"][k - 1] if isinstance(k, int) and k <= len(rec["reqs"]) else rec["reqs"][0]
            if rec.get("_case") is None or rec["_case"] not in reported:
                ctx.violation(f"request rejected by HttpRequestFormat_Trace ({res.violation['name']}): call "
                              f"{json.dumps(rec['call'])[:300]} on {rec['host']['text']} secure={rec['secure']}: "
                              f"request #{k} {o['raw'][:300]!r} transport calls {o['tcalls']}",
                              {"kind": "trace", "record": _strip(rec), "invariant": res.violation["name"], "k": k})
            part = part[:tid - 1] + part[tid:]
            reruns += 1
            if reruns >= 6:
                ctx.notes["trace_validation_cut_short"] = "more than 6 rejected records; remaining records of the batch not validated"
                break
