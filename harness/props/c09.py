"""C09 - requests are written byte-for-byte in the canonical iOS form, one transport call each.

(A) TLC: spec/http/HttpRequestFormat (request() as a state machine - build lines, join with CR LF,
    one transport call - against the declarative canonical form; invariants CanonicalForm,
    HeaderDiscipline, SingleCall, CompactNoWhitespace) over a request universe of methods x
    targets x hosts (IPv4, IPv6, scoped IPv6) x bodies (none, empty, text, opaque lengths around the
    1024-byte frame boundaries, ~1.6e3 nested JSON values), and with tiny framing constants.
(B) spec -> code: every request of that universe is exported with the byte string(s) the
    specification permits and the buffer lengths of the one transport call, issued through the REAL
    HomeKitConnection.get/request/put/post/put_json/post_json on insecure and secure SimNet
    sessions, and compared with what the accessory end received (after decryption) and with the
    transport.write/writelines calls observed; read-target sets exported by TLC are compared with
    IpPairing.get_characteristics.
(B') histories of ONE connection object (spec/http/HttpHostHistory: connect, request, loss, automatic
    reconnect landing on ANOTHER advertised address - IPv4 / IPv6 / scoped IPv6 in every order of 2..3
    (thorough: ..4) connections, first request on the first or only on the second connection): TLC checks
    HostIsCurrent on the model and exports every route with the request head the specification prescribes per
    connection; each is replayed on insecure and secure sessions (SimNet tcp_script steers where the reconnect
    lands) and compared byte for byte.
(C) code -> spec: every request of every session - including the library's own pair-verify and
    the pairing API (get/put_characteristics, subscribe, unsubscribe, identify, list/add/remove
    pairing, image, accessories) and seeded random JSON values with floats / escapes / unicode -
    is validated by TLC against HttpRequestFormat_Trace (format, single call, payload content
    modulo object key order), always against the host of the connection the request ARRIVED on.
    Values the fast JSON encoder may refuse (integers outside [-2^63, 2^64-1], nesting deeper than
    254 levels, unpaired surrogates - inside nested containers, through put_json/post_json,
    put_characteristics, subscribe/unsubscribe ids, image) are included: "the call raises and nothing
    is written" and "a canonical compact request is written" are both accepted, anything else is not.
"""
from __future__ import annotations

import json
import multiprocessing as mp
import os
import random
import shutil
import tempfile

from harness import c09_driver as D
from harness.common import MachineryError

ALL_HOSTS = ["10.0.0.1", "192.168.178.214", "2001:db8::7", "fe80::aede:48ff:fe00:1122%eth0"]
API_HOSTS = ["10.0.0.1", "fe80::aede:48ff:fe00:1122%eth0", "2001:db8::7"]
WRITABLE = [(1, 2), (1, 9), (1, 10), (2, 2), (2, 9)]
IDENTIFY = [[1, 2], [2, 2]]


def _hostrec(h):
    return {"text": h, "v6": ":" in h}


def _ct(ctype):
    from aiohomekit.http import HttpContentTypes
    return {D.JSONT: HttpContentTypes.JSON, D.TLVT: HttpContentTypes.TLV}[ctype]


# ----------------------------------------------------------------------------------------------
# (B) exported connection-level cases on one session
# ----------------------------------------------------------------------------------------------
def _open(host, secure, hosts=None):
    """Open a session; a session that cannot be set up because the accessory received bytes that never
    form a complete request (strict reader: CR LF line ends, Content-Length) is a finding, not a crash."""
    try:
        return D.Session(host, secure, hosts), None
    except D.SetupFailed as ex:
        if ex.stray:
            return None, (f"session setup on {host} (secure={secure}) failed ({ex.cause}): the accessory received "
                          f"{len(ex.stray)} byte(s) that do not form a complete request: {ex.stray[:200]!r}",
                          {"kind": "setup", "host": host, "secure": secure, "received": ex.stray}, None)
        raise MachineryError(f"session setup on {host} (secure={secure}) failed: {ex.cause}") from ex


def _conn_job(args):
    host, secure, cases, seed = args
    rng = random.Random(f"{seed}/{host}/{secure}/{len(cases)}/{cases[0][0] if cases else 0}")
    sess, v = _open(host, secure)
    if sess is None:
        return [], [v], 0
    records, viols = [], []
    try:
        conn = sess.conn
        if secure:
            reqs, probs = D.observe(sess, False, False)
            records.append({"call": {"api": "pair_verify"}, "secure": False, "host": _hostrec(host), "reqs": reqs,
                            "_case": None})
        for ci, case in cases:
            r = case["req"]
            via, target = r["via"], r["target"]
            body = None
            pyval = None
            if r["bkind"] == "text":
                body = (r.get("text") or "").encode("latin-1")
            elif r["bkind"] == "opaque":
                body = bytes(rng.randrange(256) for _ in range(r["len"]))
            elif r["bkind"] == "json":
                pyval = D.from_tree(r["json"])

            async def go():
                if via == "get":
                    await conn.get(target)
                elif via == "request":
                    await conn.request(method=r["method"] if rng.random() < 0.5 else r["method"].lower(), target=target)
                elif via in ("put", "post"):
                    await getattr(conn, via)(target, body, content_type=_ct(r["ctype"]))
                elif via == "put_json":
                    await conn.put_json(target, pyval)
                elif via == "post_json":
                    await conn.post_json(target, pyval)
                else:
                    raise MachineryError(f"unknown via {via}")
            err = None
            try:
                sess.run(go())
            except MachineryError:
                raise
            except Exception as ex:  # noqa: BLE001
                err = f"{type(ex).__name__}: {ex}"
            reqs, probs = D.observe(sess, r["bkind"] == "json", False)
            replay = {"kind": "conn_case", "host": host, "secure": secure, "req": r, "forms": case["forms"]}
            if len(reqs) != 1:
                viols.append((f"{via} {target} on {host} (secure={secure}): "
                              f"{err or ''} accessory saw {len(reqs)} complete request(s); unparsed bytes at the "
                              f"accessory: {sess.stray()[:200]!r}", replay, None))
                if not reqs:
                    if sess.stray() or not sess.conn.is_connected:
                        break       # the connection is out of sync / gone: the remaining cases cannot be run on it
                    continue
            for p in probs:
                viols.append((p, replay, None))
            o = reqs[0]
            if r["bkind"] == "opaque":
                want_body = body.decode("latin-1")
            else:
                want_body = case["body"] or ""
            ok = any(o["raw"] == f["head"] + want_body and o["tcalls"] == [f["sec" if secure else "plain"] or []]
                     for f in case["forms"])
            rec = {"call": {"api": "conn", "method": r["method"], "target": target, "ctype": r["ctype"],
                            "bkind": "json" if r["bkind"] == "json" else "none" if r["bkind"] == "none" else "text",
                            "json": r["json"], "cmp": r["bkind"] == "json"},
                   "secure": secure, "host": _hostrec(host), "reqs": reqs, "_case": ci}
            if not ok:
                same_content = False
                if r["bkind"] == "json" and not probs:
                    try:
                        same_content = json.loads(o["text"]) == pyval and \
                            o["raw"].endswith(o["text"]) and o["tcalls"] and len(o["tcalls"]) == 1
                    except ValueError:
                        same_content = False
                if same_content:
                    rec["_deferred"] = True      # bytes differ, content equal: TLC decides (key order is free)
                else:
                    exp = case["forms"][0]
                    viols.append((f"{via} {target} on {host} (secure={secure}): accessory received "
                                  f"{o['raw'][:300]!r} in transport calls {o['tcalls']}; specification: "
                                  f"{(exp['head'] + want_body)[:300]!r} in one call {exp['sec' if secure else 'plain']}",
                                  {**replay, "observed_raw": o["raw"], "observed_tcalls": o["tcalls"]}, ci))
            records.append(rec)
        stray = sess.stray_bytes()
        if stray:
            viols.append((f"{stray} byte(s) received by the accessory that belong to no complete request "
                          f"(host {host}, secure={secure})", {"kind": "stray", "host": host, "secure": secure}, None))
    finally:
        sess.close()
    return records, viols, len(cases)


# ----------------------------------------------------------------------------------------------
# pairing API on one secure session
# ----------------------------------------------------------------------------------------------
def _api_job(args):
    host, api_cases, seed, nrand = args
    rng = random.Random(f"{seed}/api/{host}")
    sess, v = _open(host, True)
    if sess is None:
        return [], [v], 0
    records, viols = [], []
    hostrec = _hostrec(host)

    def record(call, want_json, want_order, coro, expect_targets=None):
        err = None
        try:
            sess.run(coro)
        except Exception as ex:  # noqa: BLE001
            err = f"{type(ex).__name__}: {ex}"
        reqs, probs = D.observe(sess, want_json, want_order)
        replay = {"kind": "api_call", "host": host, "call": call}
        if err and not reqs:
            viols.append((f"{call['api']} raised {err} without sending a request", replay, None))
        for p in probs:
            viols.append((p, replay, None))
        if not reqs:
            if not err:
                raise MachineryError(f"{call['api']} produced no request on the simulated accessory")
            return
        if expect_targets is not None and reqs[0]["_target"] not in expect_targets:
            viols.append((f"get_characteristics({call['ids']}) requested {reqs[0]['_target']!r}; the specification "
                          f"permits {sorted(expect_targets)[:4]}...", {**replay, "observed_target": reqs[0]["_target"]},
                          None))
        records.append({"call": call, "secure": True, "host": hostrec, "reqs": reqs, "_case": None})

    try:
        p = sess.pairing
        reqs, _ = D.observe(sess, False, False)
        records.append({"call": {"api": "pair_verify"}, "secure": False, "host": hostrec, "reqs": reqs, "_case": None})
        record({"api": "list_accessories"}, False, False, p.list_accessories_and_characteristics())
        # reads: every id set TLC exported (argument order / container varied)
        for c in api_cases:
            ids = [tuple(x) for x in c["ids"]]
            rng.shuffle(ids)
            arg = rng.choice([list(ids), set(ids), tuple(ids), list(ids) + [ids[0]]])
            record({"api": "get_characteristics", "ids": [list(x) for x in ids]}, False, True,
                   p.get_characteristics(arg), expect_targets=set(c["targets"]))
        for _ in range(nrand):
            ids = list({(rng.choice([1, 2, 7, 33, 1000]), rng.choice([1, 2, 9, 10, 11, 127, 128, 65535, 2000000000]))
                        for _ in range(rng.randrange(1, 9))})
            record({"api": "get_characteristics", "ids": [list(x) for x in ids]}, False, True, p.get_characteristics(ids))
        # long reads (polling a bridge): 50..300 ids over 1..3 accessory ids, iids up to 5 digits; the library may
        # use one GET or several - every target must be a well-formed id list and the union must be the set asked
        for size in [50, 100, 150, 300] + ([120, 200, 500] if nrand > 20 else []):
            naid = rng.randrange(1, 4)
            aids = rng.sample([1, 2, 3, 10, 17, 100], naid)
            ids = set()
            while len(ids) < size:
                ids.add((rng.choice(aids), rng.choice([rng.randrange(1, 100), rng.randrange(100, 10000),
                                                       rng.randrange(10000, 100000)])))
            ids = list(ids)
            rng.shuffle(ids)
            record({"api": "get_characteristics", "ids": [list(x) for x in ids]}, False, True,
                   p.get_characteristics(rng.choice([ids, set(ids)])))
        # writes
        values = [True, False, 0, 1, 55, -3, 100, "s p", "", "on"]
        wsets = [[(1, 9, True)], [(1, 10, 55)], [(1, 9, False), (1, 10, 100)], [(2, 9, True), (1, 9, True)],
                 [(1, 2, True)], [(1, 10, "s p"), (2, 9, 0), (1, 9, -3)]]
        for _ in range(nrand):
            wsets.append([(*rng.choice(WRITABLE), rng.choice(values)) for _ in range(rng.randrange(1, 5))])
        for ws in wsets:
            record({"api": "put_characteristics", "writes": [[a, i, D.lit_of(v)] for a, i, v in ws]}, True, False,
                   p.put_characteristics(ws))
        # subscriptions (argument order matters to the grouping; every order must give canonical requests)
        subs = [[(1, 9)], [(1, 9), (1, 10)], [(1, 9), (2, 9)], [(1, 9), (2, 9), (1, 10)], [(2, 9), (1, 10), (1, 9), (2, 2)]]
        for _ in range(nrand // 2):
            pool = [(a, i) for a in (1, 2, 3) for i in (2, 9, 10, 11)]
            subs.append(rng.sample(pool, rng.randrange(1, 7)))
        for ids in subs:
            arg = rng.choice([list(ids), set(ids)])
            record({"api": "subscribe", "ids": [list(x) for x in ids], "on": True}, True, False, p.subscribe(arg))
            arg = rng.choice([list(ids), set(ids), sorted(ids)])
            record({"api": "unsubscribe", "ids": [list(x) for x in ids], "on": False}, True, False, p.unsubscribe(arg))
        record({"api": "identify", "ids": IDENTIFY}, True, False, p.identify())
        record({"api": "list_pairings"}, False, False, p.list_pairings())
        record({"api": "add_pairing"}, False, False, p.add_pairing("second-controller", "ab" * 32, "User"))
        record({"api": "add_pairing"}, False, False, p.add_pairing("third-controller", "cd" * 32, "Admin"))
        record({"api": "remove_pairing"}, False, False, p.remove_pairing("second-controller"))
        for aid, w, h in [(1, 640, 480), (2, 1, 1), (1, 1920, 1080)]:
            record({"api": "image", "aid": aid, "w": w, "h": h}, True, False, p.image(aid, w, h))
        # values / ids the fast JSON encoder may refuse: "raises, nothing written" or a canonical request
        def lenient(name, method, target, coro):
            err = None
            try:
                sess.run(coro)
            except Exception as ex:  # noqa: BLE001
                err = f"{type(ex).__name__}: {ex}"
            reqs, probs = D.observe(sess, True, False)
            replay = {"kind": "api_refusable", "host": host, "call": name}
            for pr in probs:
                viols.append((pr, replay, None))
            if not reqs:
                if not err:
                    viols.append((f"{name} returned normally but no request reached the accessory", replay, None))
                return
            for r in reqs:
                records.append({"call": {"api": "conn", "method": method, "target": target, "ctype": D.JSONT,
                                         "bkind": "json", "json": D.NULL_TREE, "cmp": False},
                                "secure": True, "host": hostrec, "reqs": [r], "_case": None})
        for _ in range(6 + nrand // 4):
            core = rng.choice(
                [2 ** 64, -2 ** 63 - 1, 2 ** 70, "abc\ud83d", _nested(300, {"a": [1, 2]}),
                 {"serial": 2 ** 70, "tags": ["a", "b"]}, [1, 2 ** 64]])
            aid, iid = rng.choice(WRITABLE)
            lenient(f"put_characteristics([({aid}, {iid}, {repr(core)[:60]})])", "PUT", "/characteristics",
                    p.put_characteristics([(aid, iid, core), (1, 9, True)]))
        lenient("subscribe([(2**64, 9), (1, 9)])", "PUT", "/characteristics", p.subscribe([(2 ** 64, 9), (1, 9)]))
        lenient("unsubscribe([(1, 9), (1, 2**70)])", "PUT", "/characteristics", p.unsubscribe([(1, 9), (1, 2 ** 70)]))
        lenient("image(2**64, 640, 480)", "POST", "/resource", p.image(2 ** 64, 640, 480))
        stray = sess.stray_bytes()
        if stray:
            viols.append((f"{stray} stray byte(s) at the accessory (host {host})", {"kind": "stray", "host": host}, None))
    finally:
        sess.close()
    return records, viols, len(records)


# ----------------------------------------------------------------------------------------------
# seeded random JSON values (floats, escapes, unicode, deep nesting, non-str keys) through put_json
# ----------------------------------------------------------------------------------------------
def _rand_json(rng, depth=0):
    r = rng.random()
    if depth >= 4 or r < 0.45:
        return rng.choice([None, True, False, 0, -1, 7, 2 ** 31, 2 ** 53, -2 ** 40, 0.5, -1.25, 1e-7, 1e21, 21.5, 3.0,
                           "", "a b", " lead", "tab\there", "nl\nx", "q\"uote", "back\\slash", "éü", "€",
                           "\U0001f600", "{\"a\": 1}", "a, b: c", "\r\n", "\x00\x1f"])
    if r < 0.7:
        return [_rand_json(rng, depth + 1) for _ in range(rng.randrange(0, 4))]
    keys = rng.sample(["aid", "iid", "value", "ev", "a b", "", "k\"q", "ü", "characteristics", "x:y", "z,w"],
                      rng.randrange(0, 4))
    return {k: _rand_json(rng, depth + 1) for k in keys}


def _nested(depth, core):
    v = core
    for _ in range(depth):
        v = [v]
    return v


def _refusable(rng):
    """Values the fast encoder may refuse (integer outside [-2^63, 2^64-1], nesting deeper than 254 levels,
    unpaired surrogate), placed inside containers so that a non-compact encoder would show its separators.
    Allowed outcomes: the call raises and nothing is written, or a canonical compact request is written."""
    core = rng.choice([2 ** 64, -2 ** 63 - 1, 2 ** 70, -2 ** 100, "abc\ud83d", "\udc00x",
                       _nested(rng.choice([256, 260, 300]), {"a": [1, 2]})])
    wrap = rng.randrange(5)
    if wrap == 0:
        return {"serial": core, "tags": ["a", "b"]}
    if wrap == 1:
        return [1, core, {"k": None}]
    if wrap == 2:
        return {"characteristics": [{"aid": 1, "iid": 9, "value": core}]}
    if wrap == 3:
        return {"a": {"b": [core, core]}, "c": 1.5}
    return _nested(rng.choice([3, 260]), {"v": core, "w": [True, False]})


def _norm(v):
    if isinstance(v, dict):
        return {str(k): _norm(x) for k, x in v.items()}
    if isinstance(v, list):
        return [_norm(x) for x in v]
    return v


def _randjson_job(args):
    host, secure, seed, n = args
    rng = random.Random(f"{seed}/randjson/{host}/{secure}")
    sess, v = _open(host, secure)
    if sess is None:
        return [], [v], 0
    records, viols = [], []
    nrefused = nrefused_ordinary = 0
    try:
        if secure:
            D.observe(sess, False, False)
        for i in range(n):
            refusable = i % 6 == 5
            val = _refusable(rng) if refusable else _rand_json(rng)
            if rng.random() < 0.15 and isinstance(val, dict):
                val = {**val, 7: "int key"}          # orjson OPT_NON_STR_KEYS
            via = rng.choice(["put_json", "post_json"])
            err = None
            try:
                sess.run(getattr(sess.conn, via)("/characteristics", val))
            except Exception as ex:  # noqa: BLE001
                err = f"{type(ex).__name__}: {ex}"
            reqs, probs = D.observe(sess, True, False)
            replay = {"kind": "random_json", "host": host, "secure": secure, "via": via, "value": repr(val)[:2000]}
            if not reqs and err and not sess.stray():
                # the call raised and nothing was written: fine for C09 (which is about requests that are sent)
                nrefused += 1
                if not refusable:
                    nrefused_ordinary += 1
                continue
            if len(reqs) != 1:
                viols.append((f"{via}({repr(val)[:300]}) {err or ''}: accessory saw {len(reqs)} request(s)", replay, None))
                continue
            for p in probs:
                viols.append((p, replay, None))
            # content (outside the model): the body must decode to the value that was passed
            try:
                back = json.loads(reqs[0]["text"].encode("latin-1").decode("utf-8"))
                if back != _norm(val):
                    viols.append((f"{via}: body {reqs[0]['text'][:200]!r} does not decode to the value passed "
                                  f"{repr(val)[:300]}", replay, None))
            except ValueError as ex:
                viols.append((f"{via}: body is not valid UTF-8 JSON ({ex})", replay, None))
            records.append({"call": {"api": "conn", "method": "PUT" if via == "put_json" else "POST",
                                     "target": "/characteristics", "ctype": D.JSONT, "bkind": "json",
                                     "json": D.NULL_TREE, "cmp": False},
                            "secure": secure, "host": _hostrec(host), "reqs": reqs, "_case": None})
        if nrefused_ordinary > n // 10:
            raise MachineryError(f"{nrefused_ordinary} of {n} ordinary JSON values were refused by put_json/post_json")
    finally:
        sess.close()
    return records, viols, len(records)


# ----------------------------------------------------------------------------------------------
# histories of ONE connection object: connect, request, loss, automatic reconnect to another address
# ----------------------------------------------------------------------------------------------
def _history_job(args):
    hists, secure, seed = args
    records, viols = [], []
    for hi, h in hists:
        rng = random.Random(f"{seed}/hist/{hi}/{secure}")
        route = [x["text"] for x in h["route"]]
        advertised = sorted({x for x in ALL_HOSTS} | set(route))
        replay = {"kind": "history", "secure": secure, "route": route, "mask": h["mask"]}
        sess, v = _open(route[0], secure, hosts=advertised)
        if sess is None:
            viols.append(v)
            continue
        try:
            for i, host in enumerate(route):
                if i > 0:
                    try:
                        sess.lose_and_reconnect(host, reset=rng.random() < 0.25)
                    except D.SetupFailed as ex:
                        if ex.stray:
                            viols.append((f"history {route} (secure={secure}): reconnect #{i} to {host} failed "
                                          f"({ex.cause}); the accessory received bytes that form no complete "
                                          f"request: {ex.stray[:200]!r}", {**replay, "received": ex.stray}, None))
                            break
                        raise MachineryError(f"history {route} (secure={secure}): {ex.cause}") from ex
                if secure:
                    reqs, _ = D.observe(sess, False, False)          # the library's own pair-verify on this socket
                    if len(reqs) != 2 or any(r["_host"] != host for r in reqs):
                        raise MachineryError(f"history {route}: expected pair-verify on {host}, saw "
                                             f"{[(r['_target'], r['_host']) for r in reqs]}")
                    records.append({"call": {"api": "pair_verify"}, "secure": False, "host": _hostrec(host),
                                    "reqs": reqs, "_case": None})
                if not h["mask"][i]:
                    continue
                # (B) the request the specification's history machine writes on this connection
                try:
                    sess.run(sess.conn.get("/accessories"))
                except Exception:  # noqa: BLE001
                    pass
                reqs, _ = D.observe(sess, False, False)
                if len(reqs) != 1 or reqs[0]["_host"] != host:
                    viols.append((f"history {route} (secure={secure}): GET on connection #{i + 1} ({host}): accessory "
                                  f"saw {[(r['_target'], r['_host']) for r in reqs]}; unparsed {sess.stray()[:100]!r}",
                                  replay, None))
                    break
                if reqs[0]["raw"] != h["heads"][i]:
                    viols.append((f"history {' -> '.join(route)} (secure={secure}): request on connection #{i + 1} to "
                                  f"{host} was {reqs[0]['raw']!r}; specification (HostHeader of the current "
                                  f"connection): {h['heads'][i]!r}", {**replay, "step": i, "observed": reqs[0]["raw"]},
                                  None))
                records.append({"call": {"api": "conn", "method": "GET", "target": "/accessories", "ctype": "",
                                         "bkind": "none", "json": D.NULL_TREE, "cmp": False},
                                "secure": secure, "host": _hostrec(host), "reqs": reqs, "_case": None})
                # and a request with a body, validated by the trace module only
                val = {"characteristics": [{"aid": 1, "iid": 9, "value": i}]}
                try:
                    sess.run(sess.conn.put_json("/characteristics", val))
                except Exception:  # noqa: BLE001
                    pass
                reqs, probs = D.observe(sess, True, False)
                for p in probs:
                    viols.append((p, replay, None))
                if len(reqs) == 1 and reqs[0]["_host"] == host:
                    records.append({"call": {"api": "conn", "method": "PUT", "target": "/characteristics",
                                             "ctype": D.JSONT, "bkind": "json", "json": D.NULL_TREE, "cmp": False},
                                    "secure": secure, "host": _hostrec(host), "reqs": reqs, "_case": None})
                else:
                    viols.append((f"history {route} (secure={secure}): put_json on connection #{i + 1}: accessory saw "
                                  f"{len(reqs)} request(s)", replay, None))
                    break
        finally:
            sess.close()
    return records, viols, len(records)


def _dispatch(job):
    kind, args = job
    return {"conn": _conn_job, "api": _api_job, "rand": _randjson_job, "hist": _history_job}[kind](args)


def _strip(rec):
    out = {k: v for k, v in rec.items() if not k.startswith("_")}
    out["reqs"] = [{k: v for k, v in r.items() if not k.startswith("_")} for r in rec["reqs"]]
    return out


def run(ctx):
    ctx.rule = ("one evaluation = one request observed at the accessory end and compared with the specification; "
                "distinct = distinct (call, host, session kind) descriptions")
    ctx.assume("the socket peer name reported to the library is the host text configured in the scenario "
               "(SimNet PeerSock); 'IPv6' means the host text contains ':'",
               "an explicitly EMPTY body given to put()/post() may be sent with or without "
               "Content-Length: 0 / Content-Type (the statement says 'only when there is a body'); "
               "object key order and the order of ids in a read target are free",
               "JSON bodies are split into tokens by an independent tokenizer in harness/c09_driver.py; numbers with "
               "fractions/exponents and string escapes are taken verbatim from orjson (checked only for absence of "
               "white space between tokens and for decoding back to the value passed)",
               "a call that raises without writing anything (e.g. a value the JSON encoder refuses) is outside C09; "
               "values nested deeper than 40 levels are shipped to TLC as the flat token sequence the tokenizer "
               "scanned instead of a tree (JSON reader nesting limit)",
               "one transport call = one call of write()/writelines() on the asyncio socket transport; how the kernel "
               "segments it is outside the library")
    tmp = tempfile.mkdtemp(prefix="c09_")
    pool = mp.get_context("fork").Pool(12)
    try:
        # ---------------- (A)
        ctx.tlc("http/HttpRequestFormat_Cases", "HttpRequestFormat_tiny.cfg", label="request() machine, tiny framing constants")
        out, api_out = os.path.join(tmp, "cases.ndjson"), os.path.join(tmp, "api.ndjson")
        ctx.tlc("http/HttpRequestFormat_Cases", "HttpRequestFormat_real.cfg", env={"CASES_OUT": out, "API_OUT": api_out},
                label="request() machine on the request universe + case export")
        cases = [json.loads(line) for line in open(out)]
        api_cases = [json.loads(line) for line in open(api_out)]
        if not cases or not api_cases:
            raise MachineryError("no cases exported")
        for c in cases:
            r = c["req"]
            if not isinstance(r.get("text"), str):
                r["text"] = ""
            c["body"] = c["body"] if isinstance(c["body"], str) else ""
        hist_out = os.path.join(tmp, "hist.ndjson")
        ctx.tlc("http/HttpHostHistory", ctx.pick("HttpHostHistory_3.cfg", "HttpHostHistory_4.cfg"),
                env={"HIST_OUT": hist_out}, label="Host header over connect / loss / reconnect histories + export")
        hists = list(enumerate(json.loads(line) for line in open(hist_out)))
        if not hists:
            raise MachineryError("no histories exported")
        # ---------------- (B) + recording for (C)
        by_host = {}
        for ci, c in enumerate(cases):
            by_host.setdefault(c["req"]["host"]["text"], []).append((ci, c))
        jobs = []
        for host, cs in sorted(by_host.items()):
            for secure in (False, True):
                for off in range(0, len(cs), 260):
                    jobs.append(("conn", (host, secure, cs[off:off + 260], ctx.seed)))
        nrand = ctx.pick(12, 150)
        for host in API_HOSTS:
            jobs.append(("api", (host, api_cases, ctx.seed, nrand)))
        nj = ctx.pick(150, 2500)
        for host, secure in (("10.0.0.1", False), ("fe80::1", True)) + ctx.pick((), (("2001:db8::7", False), ("192.168.178.214", True))):
            jobs.append(("rand", (host, secure, ctx.seed, nj)))
        for secure in (False, True):
            for off in range(0, len(hists), 28):
                jobs.append(("hist", (hists[off:off + 28], secure, ctx.seed)))
        ctx.notes["histories"] = 2 * len(hists)
        records = []
        reported = set()
        nviol = 0
        for recs, viols, n in pool.imap(_dispatch, jobs):
            records += recs
            for what, replay, ci in viols:
                nviol += 1
                if ci is not None:
                    reported.add(ci)
                if nviol <= 15:
                    ctx.violation(what, replay)
        if nviol > 15:
            ctx.violation(f"... and {nviol - 15} more requests that differ from the specification", {"count": nviol})
        for rec in records:
            c = rec["call"]
            ctx.case((c["api"], rec["host"]["text"], rec["secure"],
                      json.dumps({k: v for k, v in c.items() if k != "api"}, sort_keys=True)[:400]),
                     n=max(1, len(rec["reqs"])))
        ctx.notes["requests_observed"] = sum(len(r["reqs"]) for r in records)
        ctx.notes["calls"] = len(records)
        # ---------------- (C) trace validation of everything that was observed
        _validate(ctx, tmp, records, reported)
        smp = [r for r in records if r["call"]["api"] == "subscribe" and len(r["reqs"]) > 1][:1] + \
              [r for r in records if r["call"]["api"] == "conn" and r["secure"] and r["call"]["bkind"] == "json"][5:6]
        for r in smp:
            ctx.sample({"trace_record": _strip(r)})
        ctx.sample({"exported_case": cases[len(cases) // 2]})
        ctx.exhaustive = False
    finally:
        pool.terminate()
        pool.join()
        shutil.rmtree(tmp, ignore_errors=True)


def _validate(ctx, tmp, records, reported):
    from harness import tlc as T
    empty = [r for r in records if not r["reqs"]]
    if empty:
        raise MachineryError(f"record without requests: {empty[0]['call']}")
    batch = 2500
    reruns = 0
    for off in range(0, len(records), batch):
        part = records[off:off + batch]
        while part:
            tf = os.path.join(tmp, f"trace{off}.ndjson")
            with open(tf, "w") as f:
                for r in part:
                    f.write(json.dumps(_strip(r)) + "\n")
            res = ctx.tlc("http/HttpRequestFormat_Trace", "HttpRequestFormat_Trace.cfg", env={"TRACE_FILE": tf},
                          expect_violation=True, require_cover=False, coverage=False, timeout=1500,
                          label="trace validation of observed requests")
            if res.ok:
                ctx.trace_ok(sum(len(r["reqs"]) for r in part))
                break
            ce = T.parse_counterexample(res.violation["trace"])
            last = ce[-1][1] if ce else None
            if last is None:
                import re
                m = re.search(r"violated by the initial state:\s*\n(.*?)\n\s*\n", res.stdout, re.S)
                if m:
                    try:
                        last = T.parse_state(m.group(1))
                    except (ValueError, IndexError):
                        last = None
            tid = last.get("tid") if last else None
            k = last.get("k") if last else None
            if not isinstance(tid, int):
                raise MachineryError(f"cannot locate the rejected record: {res.stdout[-3000:]}")
            rec = part[tid - 1]
            o = rec["reqs"][k - 1] if isinstance(k, int) and k <= len(rec["reqs"]) else rec["reqs"][0]
            if rec.get("_case") is None or rec["_case"] not in reported:
                ctx.violation(f"request rejected by HttpRequestFormat_Trace ({res.violation['name']}): call "
                              f"{json.dumps(rec['call'])[:300]} on {rec['host']['text']} secure={rec['secure']}: "
                              f"request #{k} {o['raw'][:300]!r} transport calls {o['tcalls']}",
                              {"kind": "trace", "record": _strip(rec), "invariant": res.violation["name"], "k": k})
            part = part[:tid - 1] + part[tid:]
            reruns += 1
            if reruns >= 6:
                ctx.notes["trace_validation_cut_short"] = "more than 6 rejected records; remaining records of the batch not validated"
                break
