"""EXTZC - discoveries, pairings and the accessory cache as mDNS records come, change and go
(extension; strengthens C19 and C20).

(A) TLC: spec/discovery/ZcLifecycle.tla - one device id: the browser callbacks (Added / Updated / Removed, PTR
    known before the record is complete), the resolve-later timer, slow resolutions, the discovery, a pairing
    loaded before or after the first record (lower / upper case AccessoryPairingID), its description, the
    config-change tasks queued FIFO on its connection, an accessory that answers, answers with an error, with
    garbage, or closes the connection, list_accessories, remove_pairing and shutdown at any point, re-pairing
    after removal, restore_accessories_state; honest c# (= database version) and arbitrary c# (decrease /
    wrap).  Invariants P1..P10 of the module, exhaustive for small domains.  With NormalisedRemove = FALSE (remove_pairing popping the pairing
    under pairing.id) TLC must refute NoUpdatesWhileRemoving (non-vacuity; it is the defect found in the tree).
(B) spec -> code: `tlc -simulate` behaviours of the module are turned into stimulus schedules and run on the
    real IpController + Controller + IpPairing + SecureHomeKitConnection + characteristic cache (memory and
    file) over the in-process accessory (harness/extzc_driver.py), followed by a fair ending (the accessory
    answers everything) so that "eventually" obligations fall due.
(C) code -> spec: every execution of (B) and seeded random schedules are logged (stimulus, what became visible
    while the loop settled, what is visible afterwards) and validated by TLC against ZcLifecycle_Trace: an
    execution is accepted only if every observation is the one the specification computes.  Executions
    rejected by the intended behaviour are validated once more with the deviation enabled: accepted only then
    = KNOWN-FINDING (one signature), rejected even then = VIOLATION.
(D) records for pairings that were shut down (IP and CoAP flavour, with / without a description seen before,
    direct and through the browser callback + timer) are logged in the vocabulary of C19's Discovery_Trace and
    validated there (CallbackNeverRaises, NoLostWakeup).

./check EXTZC --replay replays/EXTZC-<tier>-<n>.json re-executes the recorded stimulus list and explains the
first rejected event (observed vs. what the specification computes).
"""
from __future__ import annotations

import glob
import json
import multiprocessing as mp
import os
import random
import re
import shutil
import tempfile

from harness import tlc as T
from harness import tracecheck
from harness.common import SPEC, MachineryError

AREA = os.path.join(SPEC, "discovery")
KEEP = ("ev", "r", "kind", "v", "c", "out", "obs")
CBASES = (0, 0, 100, 65000)

_HDR = re.compile(r"^\\\* <(\w+)(?:\((.*?)\))? line \d+", re.M)
_STEP = {"AnnouncePtr": "ptr", "Remove": "remove", "TimerFire": "tick", "ResolveDone": "resolved", "Load": "load",
         "UserList": "list", "UserRemove": "rmv", "UserShutdown": "shutdown"}


# ------------------------------------------------------------------ behaviours from TLC
def _parse_behaviour(path):
    txt = open(path).read()
    hdr = [(m.group(1), m.group(2) or "") for m in _HDR.finditer(txt)]
    sts = T.parse_sim_file(path)
    if len(hdr) != len(sts) or not sts:
        raise MachineryError(f"cannot parse behaviour {path}")
    st0 = sts[0][1]
    cache = st0["cache"]
    params = {"idcase": st0["idcase"], "honest": bool(st0["honest"]), "accv0": st0["accv"],
              "cache0": 0 if not cache else 10 * cache[0]["c"] + cache[0]["a"]}
    steps = []
    for (name, par), (_, st) in zip(hdr[1:], sts[1:]):
        if name in ("SimAnnounce", "Announce"):
            steps.append(("announce", dict(st["zc"][0])))
        elif name == "Answer":
            steps.append(("answer", par.strip().strip('"')))
        elif name in ("SimDb", "DbChange"):
            steps.append(("db", st["accv"]))
        elif name == "UserRestore":
            c, v = (int(x) for x in par.split(","))
            steps.append(("restore", c, v))
        elif name in _STEP:
            steps.append((_STEP[name],))
        else:
            raise MachineryError(f"unknown action {name} in {path}")
    return params, steps


def _job_world_params(params, rid, k):
    p = dict(params)
    p["tag"] = rid
    p["cache_kind"] = "file" if k % 4 == 3 else "mem"
    p["cbase"] = CBASES[k % len(CBASES)]
    return p


def _run_behaviour(args):
    rid, params, steps = args
    from harness import extzc_driver as D
    tmp = tempfile.mkdtemp(prefix="extzc_w_") if params["cache_kind"] == "file" else None
    try:
        return D.run_steps(params, steps, rid=rid, src="behaviour", tmpdir=tmp, drain=True)
    finally:
        if tmp:
            shutil.rmtree(tmp, ignore_errors=True)


# ------------------------------------------------------------------ seeded random schedules
def _random_schedule(args):
    seed, rid, k = args
    from harness import extzc_driver as D
    rng = random.Random(seed)
    honest = rng.random() < 0.5
    accv0 = rng.choice([1, 1, 2])
    a0 = rng.choice([0] + list(range(1, accv0 + 1)))
    c0 = a0 if honest else (rng.choice([1, 2, 3]) if a0 else 0)
    params = _job_world_params({"idcase": rng.choice(["lower", "upper"]), "honest": honest, "accv0": accv0,
                                "cache0": 10 * c0 + a0 if a0 else 0}, rid, k)
    tmp = tempfile.mkdtemp(prefix="extzc_w_") if params["cache_kind"] == "file" else None
    w = D.World(idcase=params["idcase"], honest=honest, cache0=params["cache0"], accv0=accv0, tag=rid,
                cache_kind=params["cache_kind"], tmpdir=tmp, cbase=params["cbase"])
    try:
        known = alias = shut = False
        loads, rm_state = 0, "no"
        cur = None
        style = rng.choice(["mixed", "mixed", "churn", "cfg", "removal"])
        weights = {"announce": 6, "ptr": 1, "remove": 2, "tick": 6, "resolved": 2, "load": 3, "list": 2, "rmv": 1,
                   "shutdown": 0.4, "answer": 6, "db": 2, "restore": 0.7, "other": 1.5}
        if style == "churn":
            weights.update(announce=9, remove=4, ptr=3, tick=9)
        elif style == "cfg":
            weights.update(db=5, answer=9, load=5)
        elif style == "removal":
            weights.update(rmv=4, load=5, shutdown=1)
        for _ in range(rng.randrange(10, 34)):
            ops = []
            for op, wt in weights.items():
                ok = {"announce": True, "ptr": not known, "remove": known, "tick": True, "resolved": bool(w.gates),
                      "load": loads < 3 and (loads == 0 or rm_state == "done"), "list": loads > 0,
                      "rmv": loads > 0 and alias, "shutdown": loads > 0 and not shut, "answer": w._held() is not None,
                      "db": (w.accv < 6) if honest else True, "other": True,
                      "restore": loads > 0 and not shut and rm_state == "no" and w._held() is None}[op]
                if ok:
                    ops.append((op, wt))
            r = rng.random() * sum(x[1] for x in ops)
            for op, wt in ops:
                r -= wt
                if r <= 0:
                    break
            if op == "announce":
                base = cur or {"a": rng.choice([1, 2, 3]), "p": rng.choice([1, 2]), "c": w.accv, "s": 1}
                rec = dict(base)
                for f in rng.sample(["a", "p", "c", "s", "none"], rng.choice([1, 1, 2])):
                    if f == "a":
                        rec["a"] = rng.choice([1, 2, 3])
                    elif f == "p":
                        rec["p"] = rng.choice([1, 2])
                    elif f == "s":
                        rec["s"] = rng.choice([1, 2, 3])
                    elif f == "c" and not honest:
                        rec["c"] = max(1, min(6, rec["c"] + rng.choice([1, 1, 1, 2, -1, -2, -5])))
                if honest:
                    rec["c"] = w.accv
                cur = rec
                known = True
                e = w.apply(("announce", rec))
            elif op == "answer":
                e = w.apply(("answer", rng.choice(["ok", "ok", "ok", "ok", "err", "garbage", "close"])))
            elif op == "db":
                e = w.apply(("db", w.accv + 1 if honest else rng.choice([v for v in range(1, 7) if v != w.accv])))
            elif op == "other":
                e = w.apply(("other", rng.choice([0, 1, 2, 3]) if w.known2 else rng.choice([1, 2, 3])))
            elif op == "restore":
                seen = w.events[-1]["obs"]["pdesc"] if w.events else []
                lo = seen[0]["c"] if seen else 1
                v = rng.randrange(1, w.accv + 1)
                c = v if honest else rng.randrange(max(1, lo), 7)
                if c < lo:
                    continue
                e = w.apply(("restore", c, v))
            else:
                e = w.apply((op,))
                if op == "ptr":
                    known = True
                elif op == "remove":
                    known, cur = False, None
                elif op == "load":
                    loads, alias, shut, rm_state = loads + 1, True, False, "no"
                elif op == "rmv":
                    alias, rm_state = False, "pending"
                elif op == "shutdown":
                    shut = True
            if e is not None and any(o[0] == "ret_rm" for o in e["out"]):
                rm_state, shut = "done", True
        w.drain()
        return w.record(rid, "random")
    finally:
        w.close()
        if tmp:
            shutil.rmtree(tmp, ignore_errors=True)


# ------------------------------------------------------------------ shut-down pairings on every mDNS transport
def _shutdown_scenario(args):
    """a pairing that was shut down (before / after it had a description) stays in the controller's `pairings`
    (pairing.shutdown() does not unload it); records for its id keep arriving.  Logged in the vocabulary of
    spec/discovery/Discovery_Trace.tla (C19): the callback must not raise and waiters must be woken."""
    rid, tr, seen_before, via = args
    from harness import c19_driver as C
    cls = {"kind": "mdns", "idc": "upper", "kc": "lower", "addrs": ["v4"], "c": 2, "s": 1, "sf": 0, "ff": 0, "ci": 5}
    w = C.World({"x": "nocache", "y": "cached"}, tag=rid)
    try:
        for idl in ("x", "y"):
            if seen_before:
                w.adv(tr, idl, dict(cls), via=via)
                w.run_to(w.now_ms() + 1000)
            p = w.ctl[tr].pairings[C.IDS[idl]]
            w.loop.run_until_complete(p.shutdown())
            w.settle()
            if not seen_before:
                w.start("w1" if idl == "x" else "w2", tr, idl, 5000)
            w.adv(tr, idl, dict(cls, addrs=["v4", "v6"], s=2), via=via)       # endpoint and s# differ
            w.run_to(w.now_ms() + 1000)
            w.adv(tr, idl, dict(cls, addrs=["v6"], c=3), via=via)
            w.run_to(w.now_ms() + 1000)
        w.finish()
        return w.record(rid, "shutdown-pairing")
    finally:
        w.close()


# ------------------------------------------------------------------ trace validation
def _trim(r):
    return {"idcase": r["idcase"], "honest": r["honest"], "cache0": r["cache0"], "accv0": r["accv0"],
            "events": [{k: v for k, v in e.items() if k in KEEP} for e in r["events"]]}


def _expected(st):
    """what the specification computes for the step (state after the step)"""
    if not st:
        return None
    q = st.get("q", ())
    held = 0 if not q else (2 if q[0]["k"] == "rm" else 1)
    seq = lambda v: [dict(x) for x in v]  # noqa: E731
    return {"out": sorted([list(o) for o in st.get("out", ())]),
            "obs": {"disc": seq(st["disc"]), "inctl": st["inCtl"], "alias": st["alias"], "pdesc": seq(st["pdesc"]),
                    "pcfg": st["pcfg"], "pacc": st["pacc"], "cache": seq(st["cache"]), "held": held}}


def _explain(full, rej):
    pos = rej["maxl"]
    ev = rej["event"]
    head = (f"execution {full['id']} ({full['src']}; id case {full['idcase']}, honest c# {full['honest']}, cache {full['cache_kind']}, "
            f"initial cache {full['cache0']}, database v{full['accv0']}): ")
    if rej.get("invariant"):
        return head + f"the recorded execution drives the specification into a state violating {rej['invariant']} at event #{pos}"
    if ev is None:
        return head + "the trace could not be consumed"
    exp = _expected(rej.get("settled_state"))
    what = {k: ev[k] for k in ("ev", "r", "kind", "v", "c", "what") if k in ev}
    if exp is None:
        st = rej.get("last_state") or {}
        return head + (f"event #{pos} {json.dumps(what)} is not a step the specification can take in its state "
                       f"(queue {st.get('q')}, timer {st.get('timer')}, resolving {st.get('resolving')}, shut {st.get('shut')}, rm {st.get('rm')})")
    diffs = []
    if sorted({tuple(o) for o in ev["out"]}) != sorted(tuple(o) for o in exp["out"]):
        diffs.append(f"visible effects {sorted(ev['out'])} but the specification has {exp['out']}")
    for k, v in exp["obs"].items():
        if ev["obs"].get(k) != v:
            diffs.append(f"{k} = {json.dumps(ev['obs'].get(k))} but the specification has {json.dumps(v)}")
    if not diffs and len([o for o in ev["out"] if o[0] != "ret_list"]) != len({tuple(o) for o in ev["out"] if o[0] != "ret_list"}):
        diffs.append(f"an effect occurred twice: {ev['out']}")
    return head + f"after event #{pos} {json.dumps(what)}: " + "; ".join(diffs or ["observation differs"])


SIG = "extzc-remove-pairing-case-sensitive-pop"
CFG_INTENDED, CFG_DEVIATION = "ZcLifecycle_Trace.cfg", "ZcLifecycle_Trace_dev.cfg"


def _batch(ctx, recs, cfg, label, tmp):
    """validate recs against ZcLifecycle_Trace with cfg; returns [(index, furthest event)] of the rejected ones"""
    out = []
    chunk = 4000
    for off in range(0, len(recs), chunk):
        part = recs[off:off + chunk]
        tf = os.path.join(tmp, f"trace_{off}.ndjson")
        with open(tf, "w") as f:
            for r in part:
                f.write(json.dumps(_trim(r)) + "\n")
        res = ctx.tlc("discovery/ZcLifecycle_Trace", cfg, env={"TRACE_FILE": tf, "DBG_L": "0"}, workers=1,
                      dfs_queue=True, coverage=False, require_cover=False, expect_violation=True, timeout=1500,
                      label=f"{label} ({len(part)} executions)")
        os.unlink(tf)
        if not res.ok:
            raise MachineryError(f"trace validation failed: {res.violation['kind']} {res.violation['name']}\n{res.stdout[-3000:]}")
        out += [(off + int(a) - 1, int(b)) for a, b in re.findall(r'<<"REJECTED", (\d+), (\d+)>>', res.stdout)]
    return out


def _rejection(full, maxl):
    ev = full["events"][maxl - 1] if 0 < maxl <= len(full["events"]) else None
    return {"maxl": maxl, "event": ev, "last_state": None, "settled_state": None, "invariant": None}


def _detail(full, rej, cfg):
    path, cfgp = os.path.join(AREA, "ZcLifecycle_Trace.tla"), os.path.join(AREA, cfg)
    rej["detail"] = True
    rej["settled_state"] = tracecheck._last_state(path, cfgp, _trim(full), rej["maxl"], "DebugExpected")
    if rej["settled_state"] is None:
        rej["last_state"] = tracecheck._last_state(path, cfgp, _trim(full), rej["maxl"])


def _validate(ctx, recs, label, tmp):
    """Batch validation, decided by the specification in two passes: first against the intended behaviour
    (NormalisedRemove = TRUE); the executions rejected there once more with the recorded deviation enabled
    (NormalisedRemove = FALSE, known finding SIG).  Returns (known, bad): executions explained only by the
    deviation, and executions no behaviour of the module explains even then - both as [(record, rejection)].
    Details (the specification's state around the rejected event) for two executions per kind of stimulus."""
    rej1 = _batch(ctx, recs, CFG_INTENDED, label, tmp)
    known, bad = [], []
    if rej1:
        sub = [recs[i] for i, _ in rej1]
        rej2 = dict(_batch(ctx, sub, CFG_DEVIATION, label + ": executions rejected by the intended behaviour, with the recorded deviation", tmp))
        for j, (i, maxl) in enumerate(rej1):
            if j in rej2:
                bad.append((recs[i], _rejection(recs[i], rej2[j])))
            else:
                known.append((recs[i], _rejection(recs[i], maxl)))
    ctx.trace_ok(len(recs) - len(bad))
    per_kind = {}
    for full, rej in bad:
        ev = rej["event"] or {}
        k = (ev.get("ev"), ev.get("kind"))
        if per_kind.setdefault(k, 0) < 2 and sum(per_kind.values()) < 12:
            per_kind[k] += 1
            _detail(full, rej, CFG_DEVIATION)
    if known:
        _detail(*known[0], CFG_INTENDED)
    return known, bad


def _report_known(ctx, known, where):
    if not known:
        return
    full, rej = known[0]
    ctx.notes["executions_explained_only_by_known_finding"] = ctx.notes.get("executions_explained_only_by_known_finding", 0) + len(known)
    ctx.violation(f"{len(known)} {where} are accepted only with the deviation NormalisedRemove = FALSE (remove_pairing pops pairing.id); first: "
                  + _explain(full, rej), {"kind": "trace", "params": {k: full[k] for k in ("idcase", "honest", "cache0", "accv0", "tag", "cache_kind", "cbase")},
                                          "steps": full["steps"], "position": rej["maxl"], "event": rej["event"], "id": full["id"], "src": full["src"]},
                  signature=SIG)


_CE = re.compile(r"^State \d+: <(\w+)(?:\((.*?)\))? line \d+", re.M)


def _confirm_finding(ctx, res, tmp):
    """the counterexample TLC found for the deviation (ZcLifecycle_neg.cfg) is replayed on the real code: the
    finding is real iff the execution is rejected by the intended behaviour and accepted with the deviation"""
    from harness import extzc_driver as D
    txt = res.violation["trace"]
    hdr = [(m.group(1), m.group(2) or "") for m in _CE.finditer(txt)]
    # (harness.tlc.parse_counterexample stops at the '>' of a record parameter: split the states here)
    blocks = re.split(r"^State \d+: <.*$", txt, flags=re.M)[1:]
    try:
        ce = [(None, T.parse_state(b)) for b in blocks]
    except (ValueError, IndexError, TypeError) as ex:
        raise MachineryError(f"cannot parse the counterexample of ZcLifecycle_neg.cfg: {ex}")
    if len(hdr) + 1 != len(ce) or len(ce) < 2:          # the initial state has no action header
        raise MachineryError("cannot parse the counterexample of ZcLifecycle_neg.cfg")
    st0 = ce[0][1]
    cache = st0["cache"]
    params = {"idcase": st0["idcase"], "honest": bool(st0["honest"]), "accv0": st0["accv"],
              "cache0": 0 if not cache else 10 * cache[0]["c"] + cache[0]["a"], "tag": f"ce-{ctx.seed}", "cache_kind": "mem", "cbase": 0}
    steps = []
    for (name, par), (_, st) in zip(hdr, ce[1:]):
        if name == "Announce":
            steps.append(("announce", dict(st["zc"][0])))
        elif name == "Answer":
            steps.append(("answer", par.strip().strip('"')))
        elif name == "DbChange":
            steps.append(("db", st["accv"]))
        elif name == "UserRestore":
            steps.append(("restore", *(int(x) for x in par.split(","))))
        elif name in _STEP:
            steps.append((_STEP[name],))
        else:
            raise MachineryError(f"unknown action {name} in the counterexample")
    rec = D.run_steps(params, steps, rid="counterexample", src="tlc-counterexample", drain=True)
    ctx.case(json.dumps([{k: v for k, v in e.items() if k in KEEP} for e in rec["events"]], sort_keys=True))
    r1 = _batch(ctx, [rec], CFG_INTENDED, "counterexample of the deviation replayed: intended behaviour", tmp)
    r2 = _batch(ctx, [rec], CFG_DEVIATION, "counterexample of the deviation replayed: with the deviation", tmp)
    acts = [st[0] if len(st) == 1 else list(st) for st in steps]
    if r1 and not r2:
        ctx.trace_ok(1)
        rej = _rejection(rec, r1[0][1])
        _detail(rec, rej, CFG_INTENDED)
        ctx.notes[f"{SIG}_real"] = f"TLC counterexample {acts} (id case {params['idcase']}) reproduces on the real controllers"
        ctx.violation(f"TLC counterexample {acts} of NoUpdatesWhileRemoving under the deviation reproduces on the real code: " + _explain(rec, rej),
                      {"kind": "trace", "params": params, "steps": rec["steps"], "position": rej["maxl"], "event": rej["event"],
                       "id": rec["id"], "src": rec["src"]}, signature=SIG)
    elif not r1:
        ctx.notes[f"{SIG}_real"] = "the counterexample does not reproduce on the real code any more (stale finding? proposed_fixes/EXTZC-1 applied?)"
    else:
        rej = _rejection(rec, r2[0][1])
        _detail(rec, rej, CFG_DEVIATION)
        ctx.violation("the replayed TLC counterexample is explained neither by the intended behaviour nor by the deviation: " + _explain(rec, rej),
                      {"kind": "trace", "params": params, "steps": rec["steps"], "position": rej["maxl"], "event": rej["event"],
                       "id": rec["id"], "src": rec["src"]})


def _report(ctx, bad):
    # executions with details first (ordering only; the verdict is TLC's)
    bad = sorted(bad, key=lambda it: not it[1].get("detail"))
    for full, rej in bad:
        if rej.get("detail"):
            msg = _explain(full, rej)
        else:
            ev = rej["event"] or {}
            what = {k: ev[k] for k in ("ev", "r", "kind", "v", "c", "what") if k in ev}
            msg = (f"execution {full['id']} ({full['src']}; id case {full['idcase']}, honest c# {full['honest']}): event #{rej['maxl']} "
                   f"{json.dumps(what)} is rejected by ZcLifecycle_Trace (out {ev.get('out')}); ./check EXTZC --replay <this file> explains it")
        ctx.violation(msg, {"kind": "trace", "params": {k: full[k] for k in ("idcase", "honest", "cache0", "accv0", "tag", "cache_kind", "cbase")},
                            "steps": full["steps"], "position": rej["maxl"], "event": rej["event"], "id": full["id"], "src": full["src"]})


def _replay(ctx):
    from harness import extzc_driver as D
    data = json.load(open(ctx.replay))["replay"]
    tmp = tempfile.mkdtemp(prefix="extzc_w_")
    try:
        rec = D.run_steps(data["params"], data["steps"], rid=data.get("id", "replay"), src="replay", tmpdir=tmp)
    finally:
        shutil.rmtree(tmp, ignore_errors=True)
    for e in rec["events"]:
        print("replay:", json.dumps({k: v for k, v in e.items() if k != "t"})[:400])
    ctx.case(json.dumps(rec["events"], sort_keys=True))
    tmp2 = tempfile.mkdtemp(prefix="extzc_")
    try:
        known, bad = _validate(ctx, [rec], "replayed execution", tmp2)
        _report_known(ctx, known, "replayed execution(s)")
        _report(ctx, bad)
    finally:
        shutil.rmtree(tmp2, ignore_errors=True)


def run(ctx):
    ctx.rule = ("schedules over {record announced / PTR only / updated (address, port, c# up / down, s#) / removed / re-added, "
                "debounce time passing, slow resolution finishing, pairing loaded / listed / removed / shut down, accessory "
                "answering ok / error / garbage / closing, database change} from TLC -simulate behaviours of ZcLifecycle and a "
                "seeded generator, each followed by a fair ending; an execution is distinct by its recorded event sequence, "
                "non-trivial if it has >= 1 processed record and a pairing")
    ctx.assume("the accessory is reachable whenever the connection is (re)opened; unreachability, back-off and request "
               "time-outs are covered by C08/C10/C11, not here",
               "zeroconf's browser and cache are stubbed as in the repository's tests (records are real AsyncServiceInfo / DNS "
               "records placed in a real DNSCache; the browser callback is invoked directly; a slow resolution returns when "
               "the driver says so with whatever is complete in the cache by then)",
               "observations are taken when the loop has nothing left to run (no stimulus is injected between two callbacks)",
               "a c# that decreases or wraps creates no obligation to re-read (the code compares with '>'); only the "
               "properties that do not depend on an honest c# are checked for such records",
               "the discovery of a removed service is kept (the code never drops discoveries); 'tracks present devices' is "
               "read as: every processed record is reflected, nothing stale is processed",
               "whether remove_pairing reports an accessory-side failure is not claimed here (C04), only its clean-up")
    if ctx.replay:
        return _replay(ctx)
    tmp = tempfile.mkdtemp(prefix="extzc_")
    try:
        # ---------------- (A) the design
        inv_only = dict(coverage=False, require_cover=False)
        ctx.tlc("discovery/ZcLifecycle", "ZcLifecycle_cov.cfg", label="vacuity guard: every action fires (small domains, re-pairing)",
                timeout=600)
        ctx.tlc("discovery/ZcLifecycle", "ZcLifecycle_MCh.cfg", label="honest c#: 2 addresses x 3 config numbers x 2 state numbers, both id cases",
                timeout=900, **inv_only)
        ctx.tlc("discovery/ZcLifecycle", "ZcLifecycle_MCn.cfg", label="arbitrary c# (decrease / wrap), stale cache labels", timeout=900, **inv_only)
        ctx.tlc("discovery/ZcLifecycle", "ZcLifecycle_MC2.cfg", label="re-pairing after removal, port change, garbage answers", timeout=900, **inv_only)
        if ctx.thorough:
            ctx.tlc("discovery/ZcLifecycle", "ZcLifecycle_MC.cfg", label="honest and arbitrary c# together, both id cases, 3 initial caches", timeout=2400, **inv_only)
        res = ctx.tlc("discovery/ZcLifecycle", "ZcLifecycle_neg.cfg", expect_violation=True, require_cover=False, coverage=False, workers=1,
                      label="deviation NormalisedRemove = FALSE (remove_pairing pops pairing.id): TLC must find the counterexample", timeout=600)
        if res.ok or res.violation["name"] not in ("NoUpdatesWhileRemoving", "RemovedMeansGone"):
            raise MachineryError(f"vacuity: with NormalisedRemove = FALSE TLC reported {None if res.ok else res.violation['name']}")
        _confirm_finding(ctx, res, tmp)          # ... and that counterexample must still replay on the real code
        # ---------------- (B) behaviours
        d = os.path.join(tmp, "sim")
        os.makedirs(d)
        ctx.tlc("discovery/ZcLifecycle", "ZcLifecycle_sim.cfg", simulate=f"file={d}/b,num={ctx.pick(400, 3500)}", depth=ctx.pick(30, 45),
                seed=ctx.seed % 1000003, workers=1, label="simulate: behaviours for replay", timeout=900, **inv_only)
        jobs_b = []
        for i, f in enumerate(sorted(glob.glob(d + "/b_*"))):
            params, steps = _parse_behaviour(f)
            jobs_b.append((f"beh{i}", _job_world_params(params, f"beh{i}-{ctx.seed}", i), steps))
        shutil.rmtree(d, ignore_errors=True)
        if not jobs_b:
            raise MachineryError("no behaviours produced by tlc -simulate")
        nrand = ctx.pick(800, 10000)
        jobs_r = [(ctx.seed * 1000003 + i, f"rnd{i}-{ctx.seed}", i) for i in range(nrand)]
        with mp.get_context("fork").Pool(min(16, os.cpu_count() or 4)) as pool:
            recs = pool.map(_run_behaviour, jobs_b, chunksize=8)
            recs += pool.map(_random_schedule, jobs_r, chunksize=8)
        evs = [e for r in recs for e in r["events"]]
        ctx.notes["behaviours_replayed"] = len(jobs_b)
        ctx.notes["random_schedules"] = nrand
        ctx.notes["events"] = len(evs)
        ctx.notes["records_processed"] = sum(1 for r in recs for a, b in zip(r["events"], r["events"][1:]) if a["obs"]["disc"] != b["obs"]["disc"])
        ctx.notes["config_changes_completed"] = sum(1 for e in evs for o in e["out"] if o[0] == "notify")
        ctx.notes["reconnects_after_close"] = sum(1 for e in evs if e["ev"] == "answer" and e.get("kind") == "close" and any(o[0] == "tcp" for o in e["out"]))
        ctx.notes["removals"] = sum(1 for e in evs for o in e["out"] if o[0] == "ret_rm")
        ctx.notes["file_cache_executions"] = sum(1 for r in recs if r["cache_kind"] == "file")
        ctx.notes["stimuli"] = {k: sum(1 for e in evs if e["ev"] == k) for k in sorted({e["ev"] for e in evs})}
        ctx.notes["callback_raised"] = sum(1 for e in evs for o in e["out"] if o[0] == "raised")
        for r in recs:
            nontrivial = any(e["obs"]["disc"] for e in r["events"]) and any(e["ev"] == "load" for e in r["events"])
            ctx.case(json.dumps([{k: v for k, v in e.items() if k in KEEP} for e in r["events"]], sort_keys=True) if nontrivial else None)
        # ---------------- (C) verdict
        known, bad = _validate(ctx, recs, "trace validation ZcLifecycle_Trace", tmp)
        _report_known(ctx, known, f"of {len(recs)} executions")
        # ---------------- (D) records for shut-down pairings, IP and CoAP flavour, against C19's Discovery_Trace
        from harness.props import c19 as P19
        jobs_s = [(f"sd-{tr}-{int(sb)}-{via}", tr, sb, via) for tr in ("ip", "coap") for sb in (False, True) for via in ("direct", "browser")]
        with mp.get_context("fork").Pool(min(8, os.cpu_count() or 4)) as pool:
            srecs = pool.map(_shutdown_scenario, jobs_s, chunksize=1)
        ctx.notes["shutdown_pairing_scenarios"] = len(srecs)
        for r in srecs:
            ctx.case(json.dumps(r["events"], sort_keys=True))
        for r, pos, prop, *extra in P19._validate(ctx, tmp, srecs, "records for shut-down pairings (Discovery_Trace)"):
            ev = r["events"][pos - 1] if 0 < pos <= len(r["events"]) else {}
            ctx.violation(f"shut-down pairing, {r['id']}: " + P19._explain(r, pos, prop) + (f" [{ev.get('exc')}]" if ev.get("exc") else ""),
                          {"kind": "shutdown-scenario", "id": r["id"], "position": pos, "events": r["events"]})
        _report(ctx, bad)
        bad_ids = {b[0]["id"] for b in bad}
        for src in ("behaviour", "random"):
            for r in recs:
                if r["src"] == src and r["id"] not in bad_ids and any(o[0] == "notify" for e in r["events"] for o in e["out"]):
                    ctx.sample({src: {k: r[k] for k in ("idcase", "honest", "cache0", "accv0", "cache_kind")},
                                "events": [{k: v for k, v in e.items() if k in ("ev", "r", "kind", "v", "out")} for e in r["events"][:12]]})
                    break
        ctx.exhaustive = False
    finally:
        shutil.rmtree(tmp, ignore_errors=True)
