"""C05 - encrypted IP session framing: exact outbound, segmentation-proof inbound (spec/session/SecureFraming.tla).

(A) TLC: SecureFraming exhaustively with BLOCK=4/TAG=2 over every segmentation, every frame-size list of <=3
    frames and every single corruption site; and with the real constants over the boundary cut classes.
(B) spec -> code: behaviours from `tlc -simulate` (real constants) are replayed on a real SecureHomeKitProtocol:
    the reference accessory encrypts EVENT messages cut into the behaviour's frame sizes, one bit is flipped at
    the behaviour's corruption site, the stream is fed in the behaviour's reads, and after every read the
    number of frames decrypted (observed at the AEAD boundary) must equal the specification's `delivered`.
(C) code -> spec: every single and double cut of small streams (and seeded multi-cuts of large ones, every
    corruption site and bit class) is run on the real protocol and the record validated by TLC against
    SecureFraming_Trace; outbound: payloads of the boundary lengths go through the real send_bytes, the
    reference accessory decrypts the single writelines call, the frame layout is validated against OutFrames.
"""
from __future__ import annotations

import asyncio
import glob
import itertools
import json
import os
import re
import shutil
import struct
import tempfile

from harness import tlc as T
from harness.common import SPEC, MachineryError
from harness.refacc import accessory as A
from harness.refacc import http as H

BLOCK, TAG, LENB = 1024, 16, 2


class _Conn:
    """Stand-in for the HomeKitConnection a protocol object reports to.  Permissive on purpose: attributes a
    refactoring might read (name, hosts, ...) exist, so that only the framing behaviour decides the verdict."""
    name = "verif-stub"
    hosts = ["10.0.0.1"]
    port = 51826
    connected_host = "10.0.0.1"
    host_header = "Host: 10.0.0.1"
    owner = None
    closing = False
    closed = False
    is_secure = True
    is_connected = True
    transport = None
    protocol = None

    def __init__(self):
        self.events = []

    def event_received(self, ev):
        self.events.append(bytes(ev.body))

    def _connection_lost(self, exc):
        pass

    def __getattr__(self, item):
        if item.startswith("__"):
            raise AttributeError(item)
        return None


class _Transport:
    def __init__(self):
        self.calls = []
        self.closed = False

    def writelines(self, bufs):
        self.calls.append([bytes(b) for b in bufs])

    def write(self, b):
        self.calls.append([bytes(b)])

    def is_closing(self):
        return self.closed

    def close(self):
        self.closed = True

    def write_eof(self):
        pass


def _mk_protocol(a2c, c2a):
    """A real SecureHomeKitProtocol with a decryptor that logs every decrypt at the AEAD boundary."""
    import aiohomekit.controller.ip.connection as ipc
    log = []

    class LoggingDecryptor(ipc.ChaCha20Poly1305Decryptor):
        def decrypt(self, aad, nonce, ct):
            try:
                out = super().decrypt(aad, nonce, ct)
            except Exception:
                log.append(("fail", struct.unpack("<Q", nonce[4:])[0], len(ct) - TAG))
                raise
            log.append(("ok", struct.unpack("<Q", nonce[4:])[0], len(out)))
            return out

    enc_log = []

    class LoggingEncryptor(ipc.ChaCha20Poly1305Encryptor):
        def encrypt(self, aad, nonce, pt):
            enc_log.append(struct.unpack("<Q", nonce[4:])[0])
            return super().encrypt(aad, nonce, pt)

    orig, orig_e = ipc.ChaCha20Poly1305Decryptor, ipc.ChaCha20Poly1305Encryptor
    ipc.ChaCha20Poly1305Decryptor, ipc.ChaCha20Poly1305Encryptor = LoggingDecryptor, LoggingEncryptor
    try:
        conn = _Conn()
        proto = ipc.SecureHomeKitProtocol(conn, a2c, c2a)
    finally:
        ipc.ChaCha20Poly1305Decryptor, ipc.ChaCha20Poly1305Encryptor = orig, orig_e
    proto._verif_enc_log = enc_log
    tr = _Transport()
    proto.connection_made(tr)
    return proto, conn, tr, log


_ALPHA = b'{}[]":,abcdefgh0123456789 '
_MINLEN = len(H.event(b""))


def _plaintext(rng, total):
    """A stream of EVENT messages of exactly `total` bytes; returns (bytes, [(end_offset, body)]) or None."""
    if total < _MINLEN:
        return None
    out = b""
    msgs = []
    while len(out) < total:
        rem = total - len(out)
        if rem >= 2 * _MINLEN + 50:
            body = bytes(rng.choices(_ALPHA, k=rng.randrange(0, 40)))
        else:
            body = None
            for blen in range(max(0, rem - _MINLEN - 4), rem - _MINLEN + 2):
                if blen >= 0 and len(H.event(b"a" * blen)) == rem:
                    body = bytes(rng.choices(_ALPHA, k=blen))
                    break
            if body is None:
                return None
        out += H.event(body)
        msgs.append((len(out), body))
    return (out, msgs) if len(out) == total else None


def _run_inbound(rng, sizes, corrupt, reads, bit=None):
    """Feed the real protocol; returns record for trace validation + content verdict."""
    total = sum(sizes)
    pt = _plaintext(rng, total)
    if not pt:
        # tiny totals cannot hold an EVENT message: use arbitrary bytes (no HTTP-level check)
        stream_pt, msgs = bytes(rng.randrange(65, 91) for _ in range(total)), None
    else:
        stream_pt, msgs = pt
    a2c, c2a = os.urandom(32), os.urandom(32)
    sess = A.SecureSession(a2c, c2a)
    wire = bytearray(sess.seal(stream_pt, list(sizes)))
    badlen = 0
    if corrupt[0]:
        i = corrupt[0]
        start = sum(LENB + s + TAG for s in sizes[:i - 1])
        if corrupt[1] == "len":
            b = bit if bit is not None else rng.randrange(16)
            wire[start + b // 8] ^= 1 << (b % 8)
            badlen = struct.unpack("<H", wire[start:start + 2])[0]
        elif corrupt[1] == "ct":
            b = bit if bit is not None else rng.randrange(sizes[i - 1] * 8)
            wire[start + LENB + (b // 8) % sizes[i - 1]] ^= 1 << (b % 8)
        else:
            b = bit if bit is not None else rng.randrange(TAG * 8)
            wire[start + LENB + sizes[i - 1] + (b // 8) % TAG] ^= 1 << (b % 8)
    proto, conn, tr, log = _mk_protocol(a2c, c2a)
    deliv = []
    dead = False
    other_exc = None
    p = 0
    used_reads = []
    for k in reads:
        if dead:
            break
        chunk = bytes(wire[p:p + k])
        p += k
        used_reads.append(k)
        try:
            proto.data_received(chunk)
        except RuntimeError:
            dead = True
        except Exception as ex:  # noqa: BLE001
            # HTTP-level parse problems on arbitrary plaintext are not the framing layer's business
            if msgs is not None:
                other_exc = repr(ex)
            proto.current_response = type(proto.current_response)()
        if tr.closed:
            dead = True         # ending the session by closing the transport is as good as raising
        deliv.append(sum(1 for e in log if e[0] == "ok"))
    rec = {"kind": "in", "sizes": list(sizes), "corrupt": [corrupt[0], corrupt[1]], "badlen": badlen,
           "reads": used_reads, "deliv": deliv, "dead": dead}
    # content / counter checks that are outside the byte-count model
    problems = []
    oks = [e for e in log if e[0] == "ok"]
    if [e[1] for e in oks] != list(range(len(oks))):
        problems.append(f"decrypt counters not consecutive from 0: {[e[1] for e in log]}")
    if [e[2] for e in oks] != list(sizes[:len(oks)]):
        problems.append("decrypted frame sizes differ from the frames sent")
    if msgs is not None and other_exc is None:
        got_bytes = sum(e[2] for e in oks)
        want = [body for end, body in msgs if end <= got_bytes]
        if conn.events != want:
            problems.append(f"EVENT messages delivered ({len(conn.events)}) != messages contained in the decrypted prefix ({len(want)})")
    if other_exc:
        problems.append(f"unexpected exception from data_received: {other_exc}")
    return rec, problems


async def _outbound(lens, rng, pipeline=1):
    """A session of several requests (lengths `lens`) through the real send_bytes; one reference accessory with a
    session-long counter decrypts them all.  `pipeline` = k: k requests are written before the accessory answers any of
    them (several callers on one protocol), then answered in order.  Returns one record per request."""
    a2c, c2a = os.urandom(32), os.urandom(32)
    proto, conn, tr, log = _mk_protocol(a2c, c2a)
    acc = A.SecureSession(a2c, c2a)
    out = []
    lens = list(lens)
    while lens:
        group, lens = lens[:pipeline], lens[pipeline:]
        pend = []
        for n in group:
            payload = bytes(rng.randrange(256) for _ in range(n))
            ncalls0 = len(tr.calls)
            nenc0 = len(proto._verif_enc_log)
            t = asyncio.ensure_future(proto.send_bytes(payload))
            await asyncio.sleep(0)
            pend.append((n, payload, t, tr.calls[ncalls0:], proto._verif_enc_log[nenc0:]))
        failed = False
        for n, payload, t, calls, counters in pend:
            problems = []
            c0 = len(acc.frames_received)
            wire = b"".join(b"".join(c) for c in calls)
            got = None
            try:
                got = acc.open_stream(wire)
            except ValueError as ex:
                problems.append(str(ex))
            frames = acc.frames_received[c0:]
            if got is not None and got != payload:
                problems.append("reference accessory decrypted different bytes than the request")
            if acc.inbuf:
                problems.append(f"{len(acc.inbuf)} trailing bytes after the last complete frame")
                acc.inbuf.clear()
            # the accessory answers: the request completes normally (no cancellation, the session lives on)
            try:
                proto.data_received(acc.seal(H.response(204, b"", None)))
                await asyncio.wait_for(t, 1)
            except BaseException:  # noqa: BLE001
                t.cancel()
            rec = {"kind": "out", "n": n, "frames": frames, "calls": len(calls), "c0": c0, "counters": counters}
            if pipeline > 1:
                rec["pipelined"] = pipeline
            out.append((rec, problems))
            failed = failed or bool(problems)
        if failed:
            for _, _, t, _, _ in pend:
                t.cancel()
            break
    return out


def _behaviours(ctx, tmp, num, seed):
    d = os.path.join(tmp, "sim")
    os.makedirs(d, exist_ok=True)
    cfg = os.path.join(tmp, "sim.cfg")
    src = re.sub(r"^INVARIANT.*\n", "", open(os.path.join(SPEC, "session", "SecureFraming_real.cfg")).read(), flags=re.M)
    open(cfg, "w").write(src)
    ctx.tlc("session/SecureFraming", cfg, simulate=f"file={d}/b,num={num}", depth=12, seed=seed, workers=1,
            coverage=False, require_cover=False, label="simulate: behaviours for replay")
    out = []
    for f in sorted(glob.glob(d + "/b_*")):
        out.append(T.parse_sim_file(f))
    shutil.rmtree(d, ignore_errors=True)
    return out


def _replay(ctx):
    rep = json.load(open(ctx.replay)).get("replay") or {}
    rec = rep.get("record", rep)
    ctx.rule = "replay of one stored record on the tree under test"
    loop = asyncio.new_event_loop()
    asyncio.set_event_loop(loop)
    tmp = tempfile.mkdtemp(prefix="c05r_")
    try:
        async def go():
            if rec.get("kind") == "in":
                r, problems = _run_inbound(ctx.rng, rec["sizes"], tuple(rec["corrupt"]), rec["reads"])
                return [(r, problems)]
            if rec.get("kind") == "long-in":
                nfr = int(rec["nfr"])
                sizes = [ctx.rng.choice([1, 30, 57, 64]) for _ in range(nfr)]
                total = sum(LENB + s + TAG for s in sizes)
                r, problems = _run_inbound(ctx.rng, sizes, (0, "none"), [total // 3, total - total // 3])
                if r["dead"] or (r["deliv"] and r["deliv"][-1] != nfr):
                    problems.append(f"a clean stream of {nfr} frames: {r['deliv'][-1] if r['deliv'] else 0} frames decrypted, session dead={r['dead']}")
                return [({"kind": "long-in", "nfr": nfr}, problems)]
            if rec.get("c0", 0) > 16:
                # a request late in a long session: run a session that long
                return (await _outbound([7] * (int(rec["c0"]) + 2), ctx.rng))[-3:]
            k = int(rec.get("pipelined", 1))
            lens = [rec["n"]] if rec.get("c0", 0) == 0 and k == 1 else [1024, rec["n"]]
            return await _outbound(lens, ctx.rng, pipeline=k)
        out = loop.run_until_complete(go())
        recs = []
        for r, problems in out:
            if r.get("kind") in ("in", "out"):
                recs.append(r)
            ctx.case(json.dumps(r))
            for pr in problems:
                ctx.violation(f"replay: {pr}", r)
        tf = os.path.join(tmp, "recs.ndjson")
        with open(tf, "w") as f:
            for r in recs:
                f.write(json.dumps(r) + "\n")
        if recs:
            res = ctx.tlc("session/SecureFraming_Trace", "SecureFraming_Trace.cfg", env={"TRACE_FILE": tf}, expect_violation=True,
                          require_cover=False, coverage=False, label="replay: trace validation")
            if not res.ok:
                ctx.violation(f"replayed record is not a behaviour of SecureFraming ({res.violation['name']})", {"records": recs})
            else:
                ctx.trace_ok(len(recs))
            ctx.sample({"replayed": recs[0]})
    finally:
        loop.close()
        asyncio.set_event_loop(None)
        shutil.rmtree(tmp, ignore_errors=True)


def run(ctx):
    if ctx.replay:
        return _replay(ctx)
    ctx.rule = ("frame-size lists x corruption x read sequences; TLC explores them exhaustively for the tiny constants and over "
                "boundary cut classes for the real ones; a case is distinct by (sizes, corruption, reads); non-trivial if >= 1 frame is fed")
    ctx.assume("AEAD is ideal: a frame with any flipped bit (length prefix = AAD, ciphertext, tag) or cut at a wrong offset never authenticates",
               "decrypts are observed at the cipher boundary by substituting a logging subclass of ChaCha20Poly1305Decryptor")
    rng = ctx.rng
    tmp = tempfile.mkdtemp(prefix="c05_")
    loop = asyncio.new_event_loop()
    asyncio.set_event_loop(loop)
    try:
        ctx.tlc("session/SecureFraming", "SecureFraming_tiny.cfg", label="exhaustive BLOCK=4 TAG=2, all segmentations")
        ctx.tlc("session/SecureFraming", "SecureFraming_real.cfg", label="real constants, boundary cut classes")
        recs = []

        async def go():
            # ---------------- (B) replay TLC behaviours
            beh = _behaviours(ctx, tmp, ctx.pick(300, 3000), ctx.seed % 100000)
            nb = 0
            for b in beh:
                if not b:
                    continue
                st0 = b[0][1]
                sizes = list(st0["sizes"])
                corrupt = tuple(st0["corrupt"])
                feds = [s["fed"] for _, s in b]
                reads = [y - x for x, y in zip(feds, feds[1:]) if y > x]
                if not reads:
                    continue
                rec, problems = _run_inbound(rng, sizes, corrupt, reads)
                # compare with the behaviour's own states: delivered after each read (when the decode loop is done)
                spec_deliv = {}
                for (act, s), (act2, s2) in zip(b, b[1:] + [(None, None)]):
                    if s2 is None or s2["fed"] != s["fed"]:
                        spec_deliv[s["fed"]] = s["delivered"]
                acc = 0
                for k, d in zip(rec["reads"], rec["deliv"]):
                    acc += k
                    if acc in spec_deliv and corrupt[1] != "len" and spec_deliv[acc] != d:
                        problems.append(f"after {acc} bytes the code had decrypted {d} frames, the TLC behaviour says {spec_deliv[acc]}")
                recs.append(rec)
                nb += 1
                ctx.case(("beh", tuple(sizes), corrupt, tuple(reads)))
                for pr in problems:
                    ctx.violation(f"inbound framing: {pr} (sizes={sizes}, corrupt={corrupt}, reads={reads})", rec)
            ctx.notes["behaviours_replayed"] = nb
            # ---------------- (C) single and double cuts of small streams, all corruption sites
            small = [[1], [2], [1, 1], [5, 1], [30], [17, 2, 1]] + ([[100, 60], [1, 200], [64, 64, 64]] if ctx.thorough else [])
            for sizes in small:
                total = sum(LENB + s + TAG for s in sizes)
                cuts = list(range(1, total))
                combos = [()] + [(c,) for c in cuts] + (list(itertools.combinations(cuts, 2)) if total <= ctx.pick(60, 420) else
                                                        [tuple(sorted(rng.sample(cuts, 2))) for _ in range(ctx.pick(300, 3000))])
                corrs = [(0, "none")] + [(i + 1, site) for i in range(len(sizes)) for site in ("len", "ct", "tag")]
                for cs in combos:
                    pts = [0, *cs, total]
                    reads = [b - a for a, b in zip(pts, pts[1:])]
                    corr = corrs[rng.randrange(len(corrs))] if len(cs) == 2 else None
                    for corrupt in ([corr] if corr else corrs):
                        rec, problems = _run_inbound(rng, sizes, corrupt, reads)
                        recs.append(rec)
                        ctx.case(("cut", tuple(sizes), corrupt, tuple(reads)))
                        for pr in problems:
                            ctx.violation(f"inbound framing: {pr} (sizes={sizes}, corrupt={corrupt}, reads={reads})", rec)
            # every bit of the length prefix / tag, and a seeded sample of ciphertext bits
            for sizes in ([[3, 40, 2]] + ([[1024, 7]] if ctx.thorough else [])):
                total = sum(LENB + s + TAG for s in sizes)
                for i in range(len(sizes)):
                    for site, nbits in (("len", 16), ("tag", TAG * 8), ("ct", sizes[i] * 8)):
                        bits = range(nbits) if nbits <= 128 or ctx.thorough else sorted(set([0, nbits - 1] + [rng.randrange(nbits) for _ in range(24)]))
                        for b in bits:
                            k = rng.randrange(1, total)
                            rec, problems = _run_inbound(rng, sizes, (i + 1, site), [k, total - k], bit=b)
                            recs.append(rec)
                            ctx.case(("bit", tuple(sizes), i + 1, site, b))
                            for pr in problems:
                                ctx.violation(f"inbound framing: {pr} (sizes={sizes}, corrupt=({i + 1},{site}) bit {b})", rec)
            # large streams, seeded multi-cuts
            for _ in range(ctx.pick(40, 600)):
                sizes = [rng.choice([1, 2, 1023, 1024, rng.randrange(1, 1025), rng.randrange(1, 1025)]) for _ in range(rng.randrange(1, 7))]
                total = sum(LENB + s + TAG for s in sizes)
                ncut = rng.randrange(0, 9)
                cs = sorted(set(rng.randrange(1, total) for _ in range(ncut))) if total > 1 else []
                pts = [0, *cs, total]
                reads = [b - a for a, b in zip(pts, pts[1:])]
                corrupt = (0, "none") if rng.random() < 0.5 else (rng.randrange(1, len(sizes) + 1), rng.choice(["len", "ct", "tag"]))
                rec, problems = _run_inbound(rng, sizes, corrupt, reads)
                recs.append(rec)
                ctx.case(("big", tuple(sizes), corrupt, tuple(reads)))
                for pr in problems:
                    ctx.violation(f"inbound framing: {pr} (sizes={sizes}, corrupt={corrupt}, reads={reads})", rec)
            # long sessions: more than 256 (and more than 512) frames in one direction - the frame counter leaves its first byte
            for nfr in ([300, 700] if not ctx.thorough else [300, 700, 1500]):
                sizes = [rng.choice([1, 30, 57, 64, rng.randrange(1, 90)]) for _ in range(nfr)]
                total = sum(LENB + s + TAG for s in sizes)
                cs = sorted(set(rng.randrange(1, total) for _ in range(40)))
                pts = [0, *cs, total]
                reads = [b - a for a, b in zip(pts, pts[1:])]
                rec, problems = _run_inbound(rng, sizes, (0, "none"), reads)
                ctx.case(("long-in", nfr))
                if rec["dead"] or (rec["deliv"] and rec["deliv"][-1] != nfr):
                    problems.append(f"a clean stream of {nfr} frames: {rec['deliv'][-1] if rec['deliv'] else 0} frames decrypted, session dead={rec['dead']}")
                for pr in problems:
                    ctx.violation(f"inbound framing, long session of {nfr} frames: {pr}", {"kind": "long-in", "nfr": nfr})
            # ---------------- outbound
            for rec, problems in await _outbound([rng.choice([1, 7, 60]) for _ in range(ctx.pick(300, 700))], rng):
                ctx.case(("long-out", rec["c0"]) if rec["c0"] in (0, 255, 256, 299) else None)
                for pr in problems:
                    ctx.violation(f"outbound framing, request #{rec['c0']} of a long session ({rec['n']} bytes): {pr}", rec)
            bnd = [1, 2, 1023, 1024, 1025, 2047, 2048, 2049, 3071, 3072, 3073, 5000]
            sessions = [bnd, list(reversed(bnd)), [1024, 1], [2048, 2048, 7], [3072, 1024, 1024, 5]]
            for _ in range(ctx.pick(12, 150)):
                sessions.append([rng.choice(bnd + [rng.randrange(1, 9000), 1024 * rng.randrange(1, 6)]) for _ in range(rng.randrange(2, 7))])
            for si, lens in enumerate(sessions):
                # every third session is pipelined: 2 or 3 requests are written before the accessory answers the first
                k = 1 if si % 3 else 2 + (si // 3) % 2
                for rec, problems in await _outbound(lens, rng, pipeline=k):
                    recs.append(rec)
                    ctx.case(("out", rec["n"], rec["c0"], k))
                    for pr in problems:
                        ctx.violation(f"outbound framing of a {rec['n']}-byte request (session {lens}, {k} request(s) written "
                                      f"before the first answer): {pr}", rec)
        loop.run_until_complete(go())
        # ---------------- validate everything with TLC
        tf = os.path.join(tmp, "recs.ndjson")
        with open(tf, "w") as f:
            for r in recs:
                f.write(json.dumps(r) + "\n")
        res = ctx.tlc("session/SecureFraming_Trace", "SecureFraming_Trace.cfg", env={"TRACE_FILE": tf}, expect_violation=True,
                      require_cover=False, coverage=False, label=f"trace validation of {len(recs)} recorded runs", timeout=1800)
        bad = set()
        while not res.ok:
            ce = T.parse_counterexample(res.violation["trace"])
            tid = ce[-1][1].get("tid") if ce else None
            if not isinstance(tid, int) or res.violation["kind"] != "invariant":
                raise MachineryError("trace validation failed without a usable counterexample:\n" + res.stdout[-1500:])
            rec = recs[tid - 1]
            ctx.violation(f"recorded run is not a behaviour of SecureFraming ({res.violation['name']}): {json.dumps(rec)[:300]}",
                          {"record": rec, "invariant": res.violation["name"]})
            bad.add(tid - 1)
            if len(bad) > 20:
                break
            recs2 = [r if i not in bad else {"kind": "out", "n": 1, "frames": [1], "calls": 1, "c0": 0, "counters": [0]} for i, r in enumerate(recs)]
            with open(tf, "w") as f:
                for r in recs2:
                    f.write(json.dumps(r) + "\n")
            res = ctx.tlc("session/SecureFraming_Trace", "SecureFraming_Trace.cfg", env={"TRACE_FILE": tf}, expect_violation=True,
                          require_cover=False, coverage=False, label="trace validation (after removing a rejected record)", timeout=1800)
        ctx.trace_ok(len(recs) - len(bad))
        ctx.sample({"inbound_record": next(r for r in recs if r["kind"] == "in" and len(r["reads"]) > 2)})
        ctx.sample({"outbound_record": next(r for r in recs if r["kind"] == "out" and r["n"] > 2048)})
    finally:
        loop.close()
        asyncio.set_event_loop(None)
        shutil.rmtree(tmp, ignore_errors=True)
