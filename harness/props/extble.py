"""EXTBLE - session life-cycle of a BLE pairing (spec/ble/BleSession.tla).

Extension beyond the listed properties: connect on demand, pair-verify / pair-resume, key installation, the
request path with its close-on-any-failure rule, the disconnected callback, operation / connection locks, retry,
close() / shutdown(), several concurrent callers, cancellation, an attacker on the air.

(A)  TLC checks BleSession exhaustively for small constants: one INVARIANT / PROPERTY per property (see the
     cfg files), plus a liveness run (every call returns) and - as a guard against a vacuous model - a run of
     the *unguarded* variant (keys installed without looking at the link) in which TLC must find the stale-key
     counterexample.
(B)  spec -> code: behaviours produced by `tlc -simulate` are replayed as stimuli on the real BlePairing
     (harness/extble_driver.py): every environment action of the behaviour (answers, faults, link loss, calls,
     cancellations, timers) is applied when the real code is at the corresponding suspension point; an answer
     that the behaviour lets race with a link loss is delivered in the same loop iteration as the loss.
(C)  code -> spec: those executions and seeded random executions are recorded at the Bluetooth boundary, the
     AEAD boundary and the public API and validated by TLC against BleSession_Trace (all invariants on).
"""
from __future__ import annotations

import glob
import json
import multiprocessing as mp
import os
import random
import re
import shutil
import tempfile
import threading
from concurrent.futures import ThreadPoolExecutor

from harness import tracecheck
from harness.common import SPEC

INVARIANTS = ["AtMostOneLink", "NoLeakedLink", "OneRequestOnAir", "NoNonceReuse", "AcceptOnceInOrder", "CountersInSync",
              "NoPlaintextRequest", "DeadEpochUnused", "ClosedAfterFailure", "FreshKeys", "KeysMatchLink", "ResumeOnlyStored",
              "LocksConsistent"]

_HDR = re.compile(r"^\\\* <(\w+)(\([^>]*?\))? line \d+", re.M)
ENV_ACTIONS = {"Subscribe", "Call", "CallerCancel", "ConnOk", "ConnFail", "PvReply", "WrOk", "RdOk", "GattErr", "Drop", "DiscOk", "BackoffTimer"}
CONSUMERS = {"PvM3", "PvInstall", "PvFailed", "WrDone", "Decrypt", "ReqFailed"}


# ------------------------------------------------------------------ (B) behaviours from TLC
def _behaviours(ctx, tmp, num, depth, seed):
    cfg = os.path.join(tmp, "sim.cfg")
    src = open(os.path.join(SPEC, "ble", "BleSession_Sim.cfg")).read()
    open(cfg, "w").write(src)
    d = os.path.join(tmp, "sim")
    os.makedirs(d, exist_ok=True)
    ctx.tlc("ble/BleSession", cfg, simulate=f"file={d}/b,num={num}", depth=depth, seed=seed, workers=1,
            coverage=False, require_cover=False, label="simulate: behaviours for replay", timeout=600)
    out = []
    for f in sorted(glob.glob(d + "/b_*")):
        txt = open(f).read()
        acts = [(m.group(1), m.group(2) or "") for m in _HDR.finditer(txt)]
        out.append([a for a in acts if a[0] != "Init"])
    shutil.rmtree(d, ignore_errors=True)
    return out


def _params(par):
    return [x.strip().strip('"') for x in par.strip("()").split(",")] if par else []


def _replay_behaviour(args):
    """Worker process: drive the real code along the environment actions of one TLC behaviour."""
    acts, seed, rid = args
    from harness import extble_driver as D
    rng = random.Random(seed)
    w = D.World(seed, rid)
    applied = 0
    cancelled = set()
    skip_drop = 0
    try:
        for idx, (name, par) in enumerate(acts):
            p = _params(par)
            if name not in ENV_ACTIONS:
                continue
            live = w.live()

            def races_with_drop():
                # does the behaviour drop the link before the caller consumes this answer?
                for n2, p2 in acts[idx + 1:]:
                    if n2 in CONSUMERS and _params(p2)[:1] == p[:1]:
                        return False
                    if n2 == "Drop":
                        return True
                    if n2 in ("Call", "CallerCancel", "ConnOk", "ConnFail", "PvReply", "WrOk", "RdOk", "GattErr", "DiscOk"):
                        return False
                return False
            if name == "Call":
                c, kind, n, nw = int(p[0]), p[1], int(p[2]), int(p[3])
                if not w.busy(c):
                    cancelled.discard(c)
                    w.call(c, kind, n, long=(nw == 2))
                    applied += 1
            elif name == "CallerCancel":
                c = int(p[0])
                if w.busy(c) and c not in cancelled and not any(q.kind == "disc" and q.caller == c for q in live):
                    cancelled.add(c)
                    w.cancel(c)
                    applied += 1
            elif name in ("ConnOk", "ConnFail"):
                if w.live("conn"):
                    w.conn_result(name == "ConnOk")
                    applied += 1
            elif name == "PvReply":
                q = w.live("pv")
                if q:
                    kind = p[1]
                    if kind == "err":
                        w.pv_answer(q[0], "err")
                    elif kind in ("m2r", "m4") and races_with_drop():
                        D.answer_then_drop(w, q[0])
                        skip_drop += 1
                    else:
                        w.pv_answer(q[0], "fallback" if kind == "m2" else "honest")
                    applied += 1
            elif name == "WrOk":
                q = w.live("wr")
                if q:
                    if races_with_drop():
                        D.answer_then_drop(w, q[0])
                        skip_drop += 1
                    else:
                        w.write_ok(q[0])
                    applied += 1
            elif name == "RdOk":
                q = w.live("rd")
                if q:
                    kind, more = p[1], p[2] == "TRUE"
                    if kind == "honest" and races_with_drop():
                        D.answer_then_drop(w, q[0])
                        skip_drop += 1
                    else:
                        w.read_ok(q[0], "honest" if kind == "none" else kind, split=more)
                    applied += 1
            elif name == "GattErr":
                q = [x for x in live if x.kind in ("pv", "wr", "rd")]
                if q:
                    w.gatt_error(q[0], drop=(p[1] == "TRUE"), cls=rng.choice(["bleak", "bleak", "timeout", "eof"]))
                    applied += 1
            elif name == "Drop":
                if skip_drop:
                    skip_drop -= 1
                elif w.drop():
                    applied += 1
            elif name == "DiscOk":
                q = w.live("disc")
                if q:
                    w.disc_result(q[0], error=rng.random() < 0.15)
                    applied += 1
            elif name == "BackoffTimer":
                if w.advance():
                    applied += 1
            elif name == "Subscribe":
                if w.subscribe():
                    applied += 1
            if rng.random() < 0.15:
                w.obs()
        w.honest_tail()
        rec = w.record()
        rec["applied"] = applied
        rec["actions"] = [f"{a}{b}" for a, b in acts if a in ENV_ACTIONS]
        rec["loop_exceptions"] = w.loop_exceptions[:5]
        return rec
    finally:
        w.close()


def _random_run(args):
    seed, rid, nsteps, fault, ncallers = args
    from harness import extble_driver as D
    w = D.random_run(seed, rid, nsteps=nsteps, fault=fault, ncallers=ncallers)
    try:
        rec = w.record()
        rec["loop_exceptions"] = w.loop_exceptions[:5]
        return rec
    finally:
        w.close()


def _directed_run(args):
    seed, rid, template = args
    from harness import extble_driver as D
    w = D.directed_run(seed, rid, template)
    try:
        rec = w.record()
        rec["loop_exceptions"] = w.loop_exceptions[:5]
        return rec
    finally:
        w.close()


def _dir_job(seed, i):
    from harness import extble_driver as D
    return (seed * 7919 + i, f"dir{i}", D.TEMPLATES[i % len(D.TEMPLATES)])


def _rnd_job(seed, i, big=True):
    """big (thorough tier): also 100-step schedules and 4 callers (their validation is much more expensive: with several
    callers failing and retrying it stays open for long which caller an attempt belongs to)."""
    if big:
        return (seed * 1000003 + i, f"rnd{i}", [15, 30, 60, 100][i % 4], [0.1, 0.25, 0.4][i % 3], 2 + i % 3)
    return (seed * 1000003 + i, f"rnd{i}", [15, 30, 45, 60][i % 4], [0.1, 0.25, 0.4][i % 3], 2 + i % 2)


# ------------------------------------------------------------------ (C) validation
SIG_STALE = "extble-stale-keys-after-link-loss"
_REJ = re.compile(r'<<"REJECTED", (\d+), (\d+)>>')
_acct = threading.Lock()


def _tlc_traces(ctx, cfg, part, label, timeout=1500):
    """One TLC run over a batch of records -> list of rejections dict(record, maxl, event, invariant, last_state).
    No per-rejection diagnosis runs here (see _explain)."""
    from harness import tlc as T
    from harness.common import MachineryError
    path = os.path.join(SPEC, "ble", "BleSession_Trace.tla")
    cfgp = os.path.join(SPEC, "ble", cfg)
    out = []
    todo = list(part)
    while todo:
        tmp = tempfile.mkdtemp(prefix="tvx_")
        try:
            tf = os.path.join(tmp, "batch.ndjson")
            with open(tf, "w") as f:
                for r in todo:
                    f.write(json.dumps(r) + "\n")
            res = T.run(path, cfgp, env={"TRACE_FILE": tf, "DBG_L": "0"}, workers=1, dfs_queue=True, coverage=False, timeout=timeout)
        finally:
            shutil.rmtree(tmp, ignore_errors=True)
        with _acct:
            ctx.states += res.distinct
            ctx.transitions += res.generated
            ctx.tlc_runs.append({"module": "spec/ble/BleSession_Trace.tla", "cfg": cfg, "label": f"{label} ({len(todo)} executions)",
                                 "generated": res.generated, "distinct": res.distinct, "depth": res.depth,
                                 "wall_s": round(res.wall_s, 2), "ok": res.ok, "actions": {}})
        if not res.ok and res.violation["kind"] in ("invariant", "action_property"):
            # a recorded execution drove the specification into a state violating a checked property: which one?
            ce = T.parse_counterexample(res.violation["trace"])
            tid = ce[-1][1].get("tid") if ce else None
            if not isinstance(tid, int):
                raise MachineryError("trace validation: invariant violated but the trace could not be identified\n" + res.stdout[-1500:])
            rec = todo[tid - 1]
            out.append({"record": rec, "maxl": ce[-1][1].get("l"), "event": None, "invariant": res.violation["name"],
                        "last_state": ce[-1][1]})
            todo = [r for i, r in enumerate(todo) if i != tid - 1]      # the run stopped there: validate the others again
            continue
        if not res.ok and res.violation["kind"] != "postcondition":
            raise MachineryError(f"trace validation failed: {res.violation['kind']}\n" + res.stdout[-2000:])
        rej = [(int(x), int(y)) for x, y in _REJ.findall(res.stdout)]
        for tid, maxl in rej:
            rec = todo[tid - 1]
            ev = rec["events"][maxl - 1] if 0 < maxl <= len(rec["events"]) else None
            out.append({"record": rec, "maxl": maxl, "event": ev, "invariant": None, "last_state": None})
        with _acct:
            ctx.trace_ok(len(todo) - len(rej))
        break
    return out


def validate(ctx, recs, cfg="BleSession_Trace.cfg", label="trace validation", parallel=8):
    """Validate records against BleSession_Trace (batches in parallel, one single-worker TLC each); -> rejections."""
    if not recs:
        return []
    k = max(1, min(parallel, (len(recs) + 79) // 80))
    parts = [recs[i::k] for i in range(k)]
    with ThreadPoolExecutor(k) as ex:
        outs = list(ex.map(lambda part: _tlc_traces(ctx, cfg, part, label), parts))
    return [j for o in outs for j in o]


def _explain(j, cfg="BleSession_Trace.cfg"):
    """Last state of the longest matched prefix of a rejected execution (one TLC run; used for a few only)."""
    path = os.path.join(SPEC, "ble", "BleSession_Trace.tla")
    return tracecheck._last_state(path, os.path.join(SPEC, "ble", cfg), j["record"], j["maxl"])


def report(ctx, rej, what="execution"):
    """Rejections -> verdicts.  An execution that BleSession rejects at an unexplained event but that the *unguarded* model
    (the one deviation: keys installed for a link that is already lost, BleSession_MCu.cfg) accepts completely is the recorded
    finding SIG_STALE; everything else is a plain violation."""
    unexplained = [j for j in rej if not j.get("invariant")]
    known = set()
    if unexplained:
        # one batch, conformance only (the deviation itself breaks KeysMatchLink / CountersInSync, so no invariants there)
        sub = validate(ctx, [j["record"] for j in unexplained], cfg="BleSession_Trace_unguarded.cfg",
                       label="rejected executions against the unguarded model", parallel=4)
        still = {id(x["record"]) for x in sub}
        known = {id(j["record"]) for j in unexplained if id(j["record"]) not in still}
    ctx.notes["executions_explained_only_by_stale_key_deviation"] = len(known)
    detailed = 0
    for j in rej:
        rec = j["record"]
        rid = rec.get("id", "?")
        if id(rec) in known:
            ctx.violation(f"{what} {rid}: event #{j['maxl']} {j['event']} - session keys were installed although the link the pair-verify "
                          f"ran on was already lost (the last pair-verify reply and the loss of the link arrived together); the keys outlive "
                          f"the connection and the next connection uses them without a pair-verify",
                          {"kind": "trace", "record": rec, "position": j["maxl"], "first_unexplained": j["event"]}, signature=SIG_STALE)
            continue
        if j.get("invariant"):
            msg = f"{what} {rid} drives BleSession into a state that violates {j['invariant']}"
        else:
            msg = f"{what} {rid} is not a behaviour of BleSession: event #{j['maxl']} {j['event']} cannot be explained"
            if detailed < 4:
                detailed += 1
                j["last_state"] = _explain(j)
        ctx.violation(msg, {"kind": "trace", "record": rec, "first_unexplained": j.get("event"), "position": j.get("maxl"),
                            "invariant": j.get("invariant"), "last_matched_state": j.get("last_state")})


def pairing_level_records(ctx, n):
    """Seeded random executions of the real BlePairing (for other checks, e.g. C06 at pairing level)."""
    jobs = [_rnd_job(ctx.seed, i, ctx.thorough) for i in range(n)]
    with mp.get_context("fork").Pool(min(16, os.cpu_count() or 4)) as pool:
        return pool.map(_random_run, jobs, chunksize=8)


def _mc_jobs(ctx):
    """(A): the model-checking runs, each a function of a ctx-like object."""
    from harness.common import MachineryError

    def mcq(c):
        c.tlc("ble/BleSession", "BleSession_MCq.cfg", label="exhaustive: 2 callers x 1 call, 2 links, 2 epochs, 2 faults", timeout=900,
              ignore_cover=("NotStuck", "Quiescent", "Subscribe"))

    def mcs(c):
        c.tlc("ble/BleSession", "BleSession_MCs.cfg", label="exhaustive: with subscriptions (restore after reconnect), 1 fault", timeout=900,
              coverage=False, require_cover=False)

    def mcu(c):
        res = c.tlc("ble/BleSession", "BleSession_MCu.cfg", expect_violation=True, coverage=False, require_cover=False,
                    label="unguarded variant (the recorded deviation): TLC must find the stale-key counterexample", timeout=600)
        if res.ok or res.violation.get("name") != "KeysMatchLink":
            raise MachineryError("the unguarded model no longer violates KeysMatchLink: the model has become vacuous")

    def live(c):
        c.tlc("ble/BleSession", "BleSession_Live.cfg", label="liveness: every call returns (fair scheduling, answering stack)",
              coverage=False, require_cover=False, timeout=1500)
    jobs = [mcq, mcs, mcu, live]
    if ctx.thorough:
        def mcs2(c):
            c.tlc("ble/BleSession", "BleSession_MCs2.cfg", label="exhaustive: subscribe() at any time without a connection, 2 faults (symmetry)",
                  coverage=False, require_cover=False, timeout=2400)

        def mca(c):
            c.tlc("ble/BleSession", "BleSession_MCa.cfg", label="exhaustive: 3 callers x 1 call, 2 faults (symmetry)", coverage=False,
                  require_cover=False, timeout=2400)

        def mcb(c):
            c.tlc("ble/BleSession", "BleSession_MCb.cfg", label="exhaustive: 2 callers x 1 call, 2 requests, 2+2 fragments, 1 fault (symmetry)",
                  coverage=False, require_cover=False, timeout=2400)
        jobs = [mca, mcq, mcs, mcu, live, mcs2, mcb]
    return jobs


def _run_mc(ctx, ex):
    """Start the model-checking runs on private contexts (they run next to the trace validation); -> merge function."""
    from harness.common import Ctx
    subs = []
    futs = []
    for job in _mc_jobs(ctx):
        sub = Ctx(ctx.pid + "-mc", ctx.tier, ctx.seed)
        subs.append(sub)
        futs.append(ex.submit(job, sub))

    def merge():
        for f in futs:
            f.result()                       # MachineryError propagates
        for sub in subs:
            ctx.states += sub.states
            ctx.transitions += sub.transitions
            ctx.tlc_runs += sub.tlc_runs
            for what, path in sub.violations:
                try:
                    obj = json.load(open(path)).get("replay")
                    os.remove(path)
                except (OSError, ValueError):
                    obj = None
                ctx.violation(what, obj)
    return merge


def run(ctx):
    ctx.rule = ("TLC explores BleSession exhaustively for the listed constants; executions of the real BlePairing = TLC -simulate "
                "behaviours replayed as stimuli + seeded random schedules (calls, answers, faults, link loss, cancellation, close); "
                "an execution is distinct by its recorded event sequence, non-trivial if it contains >= 1 encrypted request")
    ctx.assume("bleak semantics of the fake GATT client: a lost link marks the client disconnected and runs the disconnected callback "
               "synchronously, pending GATT operations on it fail with BleakError, disconnect() returns after the callback has run",
               "a caller is cancelled at most once per call and not while it awaits client.disconnect(); a cancellation does not race "
               "with a result already delivered to the same coroutine",
               "AEAD is ideal; the accessory is the reference implementation of harness/refacc (pair-verify, pair-resume, HAP-BLE PDUs)",
               "whether retry_bluetooth_connection_error retries a failed attempt is left open in the model (at most MaxAtt = 2 attempts)",
               "subscribe() is called only while there is no connection (no background subscribe task); the accessory does not send GATT "
               "notifications; subscribed characteristics have no broadcast events; the accessory database is cached (no GATT database fetch)")
    if ctx.replay:
        return _replay(ctx)
    tmp = tempfile.mkdtemp(prefix="extble_")
    try:
        # ---------------- (B) + (C)
        nb = ctx.pick(150, 1500)
        beh = _behaviours(ctx, tmp, nb, ctx.pick(70, 100), ctx.seed % 100000)
        jobs_b = [(b, ctx.seed * 7 + i, f"beh{i}") for i, b in enumerate(beh)]
        nr = ctx.pick(300, 4000)
        jobs_r = [_rnd_job(ctx.seed, i, ctx.thorough) for i in range(nr)]
        nd = ctx.pick(60, 600)
        jobs_d = [_dir_job(ctx.seed, i) for i in range(nd)]
        with mp.get_context("fork").Pool(min(16, os.cpu_count() or 4)) as pool:
            recs = pool.map(_replay_behaviour, jobs_b, chunksize=8)
            recs += pool.map(_random_run, jobs_r, chunksize=8)
            recs += pool.map(_directed_run, jobs_d, chunksize=8)
        ctx.notes["directed_runs"] = nd
        ctx.notes["behaviours_replayed"] = len(jobs_b)
        ctx.notes["behaviour_stimuli_applied"] = sum(r.get("applied", 0) for r in recs)
        ctx.notes["random_runs"] = nr
        ctx.notes["events_recorded"] = sum(len(r["events"]) for r in recs)
        count = lambda k, f=None: sum(1 for r in recs for e in r["events"] if e["ev"] == k and (f is None or f(e)))  # noqa: E731
        ctx.notes["observed"] = {"connections": count("conn_res", lambda e: e["out"] == "ok"), "pair_verify_full": count("pv_tx", lambda e: e["kind"] == "m4"),
                                 "pair_resume": count("pv_tx", lambda e: e["kind"] == "m2r"), "key_installations": count("keys"),
                                 "encrypted_fragments_sent": count("enc"), "fragments_decrypted": count("dec"),
                                 "rejected_fragments": count("dec", lambda e: not e["ok"]), "cancellations": count("cancel"),
                                 "link_losses": count("drop"), "gatt_errors": count("gatt_err"), "closes_by_library": count("disc_req")}
        ctx.notes["loop_exceptions"] = sorted({x for r in recs for x in r.get("loop_exceptions", [])})[:5]
        for r in recs:
            key = json.dumps(r["events"], sort_keys=True)
            ctx.case(key if any(e["ev"] == "enc" for e in r["events"]) else None)
        # ---------------- (A) next to (C): TLC model checking and trace validation run side by side
        with ThreadPoolExecutor(ctx.pick(4, 3)) as ex:
            merge = _run_mc(ctx, ex)
            rej = validate(ctx, recs, label="trace validation", parallel=ctx.pick(7, 8))
            report(ctx, rej)
            merge()
        ctx.sample({"recorded_trace_prefix": recs[0]["events"][:30]})
        if beh:
            ctx.sample({"tlc_behaviour_env_actions": recs[0].get("actions", [])[:30]})
        ctx.exhaustive = False
    finally:
        shutil.rmtree(tmp, ignore_errors=True)


def _replay(ctx):
    rep = json.load(open(ctx.replay))
    seed = rep.get("seed", ctx.seed)
    obj = rep.get("replay") or {}
    if obj.get("kind") == "tlc":
        ctx.tlc("ble/BleSession", obj["cfg"], coverage=False, require_cover=False, label="replay: re-run the TLC configuration")
        return
    rec = obj.get("record") or {}
    rid = str(rec.get("id", ""))
    fresh = None
    m = re.match(r"rnd(\d+)$", rid)
    md = re.match(r"dir(\d+)$", rid)
    if m:
        fresh = _random_run(_rnd_job(seed, int(m.group(1)), rep.get("tier", ctx.tier) == "thorough"))
    elif md:
        fresh = _directed_run(_dir_job(seed, int(md.group(1))))
    elif rid.startswith("beh") and rec.get("actions"):
        acts = []
        for a in rec["actions"]:
            mm = re.match(r"(\w+)(\(.*\))?$", a)
            acts.append((mm.group(1), mm.group(2) or ""))
        fresh = _replay_behaviour((acts, seed * 7 + int(rid[3:]), rid))
    use = fresh or rec
    ctx.notes["replayed"] = "re-executed" if fresh else "recorded trace re-validated"
    ctx.case(json.dumps(use.get("events", [])))
    ctx.sample({"replayed_trace_prefix": use.get("events", [])[:30]})
    rej = validate(ctx, [use], label="replay")
    report(ctx, rej, what="replayed execution")
