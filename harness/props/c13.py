"""C13 - reads and writes report per-characteristic outcomes faithfully (IP, CoAP, BLE).

(A) TLC: spec/chars/CharIO - the reply-processing algorithms of the three transports as state machines over
    every case of the bounded domain (request sets of 1..4 characteristics over two accessory ids, permission
    classes, every vector of per-item statuses / absences, 204 vs 207, request-wide status, duplicated, non-dict
    and id-less entries, every defined status code in both signs, unknown codes); invariants Faithful
    (relation WriteOK / ReadOK), NotifySubsetAccepted, RejectedReported, ReadTotal.
(B) spec -> code: every exported case is concretised and run on the real code: IP through a real IpPairing over
    the in-process network (secure session, HTTP, tolerant JSON loader) and format_characteristic_list directly;
    CoAP through CoAPPairing / EncryptionContext / PDU batch codec; BLE through BlePairing.put_characteristics /
    ble_request / PDU codec over a scripted GATT client.
(C) code -> spec: every observation (returned dict or exception, listener calls) - from (B) and from seeded random
    replies - is validated by TLC against CharIO_Trace (relation CallOK); the verdict is TLC's.
(H) history dimension (spec/chars/CharIOHist): every case is run as one call of a two-call history in which the
    caller hands the SAME collection object (list, tuple, set, frozenset, dict view, fresh generator over the same
    list - whatever the API accepts) to both calls and the accessory answers the second call differently.  Each call
    is judged against the ids as the caller wrote them and that call's reply; the collection must be unchanged after
    every call and the accessory must have been asked for exactly the caller's ids.
"""
from __future__ import annotations

import json
import logging
import multiprocessing as mp
import os
import random
import shutil
import tempfile

from harness import c13_driver as D
from harness.common import MachineryError

ALL_CODES = [-70400 - n for n in range(1, 13)] + [70400 + n for n in range(1, 13)] + [-70499, -70400, 70413, 7, 1, -2]


# ------------------------------------------------------------------ running histories
class Sessions:
    def __init__(self):
        self.s = {}

    def get(self, tr):
        if tr not in self.s:
            self.s[tr] = {"ip": D.IpSession, "coap": D.CoapSession, "ble": D.BleSession}[tr]()
        return self.s[tr]

    def drop(self, tr):
        s = self.s.pop(tr, None)
        if s is not None:
            try:
                s.close()
            except Exception:  # noqa: BLE001
                pass

    def close(self):
        for tr in list(self.s):
            self.drop(tr)


API_NAME = {"ip": "IpPairing", "coap": "CoAPPairing", "ble": "BlePairing"}


def apis_for(cases):
    """[(api key, api name, collection types)] applicable to a history."""
    c = cases[0]
    tr, op = c["tr"], c["op"]
    known = all(x["reqKnown"] for x in cases)
    out = []
    if tr == "ip" and op == "read":
        out.append(("ffl", "format_characteristic_list", D.READ_COLLS["ffl"] if known else ["none"]))
        if not known:
            return out
    name = API_NAME[tr] + (".put_characteristics" if op == "write" else ".get_characteristics")
    out.append(("pairing", name, (D.WRITE_COLLS if op == "write" else D.READ_COLLS)[tr]))
    return out


def _tuples(case):
    return D.IpSession.tuples(case) if case["tr"] == "ip" else D.pdu_tuples(case)


def run_history(sess: Sessions, cases, variant, api, colltype):
    """Both calls of a history with one caller-side collection object -> [(observation, detail)] per call."""
    tr = cases[0]["tr"]
    coll = None if colltype == "none" else D.Coll(colltype, [t[:2] for t in _tuples(cases[0])] if api == "ffl"
                                                  else _tuples(cases[0]))
    out = []
    for n, case in enumerate(cases):
        if api == "ffl":
            rec, detail = D.ffl_case(case, variant + n, coll)
        else:
            s = sess.get(tr)
            rec, detail, healthy = s.run_case(case, variant + n, coll)
            if not healthy:
                sess.drop(tr)
        out.append((rec, detail))
    return out


def _reply_of(case):
    return {k: case[k] for k in ("reqKnown", "http", "hasG", "g", "entries")}


def _head_of(case):
    return {k: case[k] for k in ("tr", "op", "items", "perms")}


def _record(cases, obs):
    return {"h": _head_of(cases[0]), "calls": [{"r": _reply_of(c), "o": o} for c, o in zip(cases, obs)]}


def _note(acc, cases, api_name, outs, variant, colltype):
    rec = _record(cases, [o for o, _ in outs])
    key = (json.dumps(rec, sort_keys=True), api_name)
    e = acc.get(key)
    if e is None:
        acc[key] = {"rec": rec, "n": len(outs), "api": api_name, "details": [d for _, d in outs], "variant": variant,
                    "coll": colltype, "cases": cases, "colls": {colltype: 1}}
    else:
        e["n"] += len(outs)
        e["colls"][colltype] = e["colls"].get(colltype, 0) + 1


def _pick_types(types, idx, thorough):
    if thorough or len(types) <= 3:
        return list(types)
    rest = types[1:]
    a = rest[idx % len(rest)]
    b = rest[(idx // len(rest) + 1 + idx) % len(rest)]
    return [types[0], a] + ([b] if b != a else [])


def _work(args):
    jobs, seed, thorough = args
    logging.disable(logging.CRITICAL)
    sess = Sessions()
    acc = {}
    try:
        for idx, cases in jobs:
            variant = random.Random(seed * 1000003 + idx).randrange(64)
            for api, api_name, types in apis_for(cases):
                for ct in _pick_types(types, idx, thorough):
                    outs = run_history(sess, cases, variant, api, ct)
                    _note(acc, cases, api_name, outs, variant, ct)
    finally:
        sess.close()
    return list(acc.values())


# ------------------------------------------------------------------ histories
def _histories_from_cases(cases):
    """Every exported case is the first call of one history and the second call of another: cases with the same
    request (transport, operation, items, permissions, requested-set-known) are chained cyclically."""
    groups = {}
    for c in cases:
        key = (c["tr"], c["op"], tuple(c["items"]), tuple(c["perms"]), c["reqKnown"])
        groups.setdefault(key, []).append(c)
    out = []
    for key in sorted(groups, key=repr):
        g = sorted(groups[key], key=lambda c: json.dumps(c, sort_keys=True))
        step = 1 if len(g) < 8 else len(g) // 2 + 1      # a reply of a different kind, not the neighbour
        for i, c in enumerate(g):
            out.append([c, g[(i + step) % len(g)]])
    return out


def _rand_reply(rng, tr, op, items):
    E = lambda t, k, s: {"t": t, "k": k, "s": s}  # noqa: E731
    if tr == "ip":
        entries = []
        for _ in range(rng.randrange(0, 8)):
            if rng.random() < 0.15:
                entries.append(E(rng.choice(["nondict", "noaid", "noiid"]), 0, 0))
                continue
            k = rng.choice(items)
            if op == "write":
                entries.append(E("st", k, rng.choice([0, 0, 0, rng.choice(ALL_CODES)])))
            else:
                t = rng.choice(["val", "val", "val0", "st"])
                entries.append(E(t, k, rng.choice(ALL_CODES) if t == "st" else 0))
        rng.shuffle(entries)
        has_g = op == "read" and rng.random() < 0.4
        g = rng.choice([0] + ALL_CODES) if has_g else 0
        http = "204" if (op == "write" and rng.random() < 0.1) else "207"
        if http == "204":
            entries = []
        return {"http": http, "hasG": has_g, "g": g, "entries": entries}
    if tr == "coap":
        sts = [rng.choice([0, 0, rng.randrange(1, 7)]) for _ in items]
        entries = [E("val", k, 0) if (op == "read" and s == 0) else E("st", k, s) for k, s in zip(items, sts)]
    else:
        sts = [rng.choice([0, 0, 0, rng.randrange(1, 7), D.LINK_LOST]) for _ in items]
        entries = [E("st", k, s) for k, s in zip(items, sts)]
    return {"http": "pdu", "hasG": False, "g": 0, "entries": entries}


def _random_histories(rng, n):
    out = []
    for _ in range(n):
        tr = rng.choice(["ip", "ip", "ip", "coap", "ble"])
        items = sorted(rng.sample([1, 2, 3, 4], rng.randrange(1, 5)))
        op = "write" if tr == "ble" else rng.choice(["read", "write"])
        perms = [rng.choice(["rw", "wo", "tw", "ro"]) if op == "write" else "rw" for _ in items]
        known = not (tr == "ip" and op == "read") or rng.random() < 0.8
        hist = []
        for _ in range(2):
            c = {"tr": tr, "op": op, "items": items, "perms": perms, "reqKnown": known}
            c.update(_rand_reply(rng, tr, op, items))
            hist.append(c)
        out.append(hist)
    return out


# ------------------------------------------------------------------ reporting
def _shape(case):
    es = [e for e in case["entries"] if e["t"] in ("val", "val0", "st")]
    junk = len(es) != len(case["entries"])
    ks = [e["k"] for e in es]
    if junk:
        return "malformed entries"
    if len(ks) != len(set(ks)):
        return "duplicated entries"
    if case["hasG"] and case["g"] != 0:
        return "request-wide status"
    bad = [e for e in es if e["t"] == "st" and e["s"] != 0]
    if not bad:
        return "all succeed"
    if len(bad) == len(case["items"]):
        return "all rejected"
    return "mixed outcome"


def _class_of(entry, n):
    o = entry["rec"]["calls"][n]["o"]
    c = entry["cases"][n]
    return (c["tr"], c["op"], entry["api"], n + 1, o["exc"], _shape(c), o["collSame"])


def _simplicity(entry):
    c = entry["cases"][0]
    return (len(c["items"]), sum(len(x["entries"]) for x in entry["cases"]), sum(p != "rw" for p in c["perms"]),
            json.dumps(entry["cases"], sort_keys=True))


def _describe(entry, n):
    c, o, detail = entry["cases"][n], entry["rec"]["calls"][n]["o"], entry["details"][n]
    uni = D.U_IP if c["tr"] == "ip" else D.U_PDU
    req = [f"{uni[k]} [{p}]" for k, p in zip(c["items"], c["perms"])]
    if c["tr"] == "ip":
        reply = (f"HTTP {detail['http']} " if "http" in detail else "document ") + detail.get("body", "")
    else:
        reply = f"PDU statuses {detail.get('pdu_statuses')}"
    got = f"raised {detail['raised']}" if o["exc"] else f"returned {detail['returned']}"
    lis = f"; listeners were told {detail.get('listener_calls')}" if c["op"] == "write" else ""
    txt = (f"{entry['api']}({', '.join(req)}) [call {n + 1} of {len(entry['cases'])} with the caller's "
           f"{detail.get('collection')}] with accessory reply {reply}: {got}{lis}")
    if not o["collSame"]:
        if detail.get("collection_before") != detail.get("collection_after"):
            txt += (f"; THE CALLER'S COLLECTION WAS CHANGED BY THE CALL: {detail.get('collection_before')} -> "
                    f"{detail.get('collection_after')} (the next call re-using it asks for other ids than the caller "
                    f"requested)")
        else:
            txt += (f"; the caller's collection no longer holds what the caller wrote ({detail.get('collection_original')}): "
                    f"an earlier call left it as {detail.get('collection_after')}")
    if o["askedChecked"] and sorted(o["asked"]) != sorted(c["items"]):
        txt += (f"; the accessory was asked for {[uni.get(k, '?') for k in o['asked']]} although the caller "
                f"requested {[uni[k] for k in c['items']]}")
    return txt


def _validate(ctx, tmp, entries, label):
    """-> list of (entry index, call index) rejected by TLC"""
    tf = os.path.join(tmp, "obs.ndjson")
    with open(tf, "w") as f:
        for e in entries:
            f.write(json.dumps(e["rec"]) + "\n")
    res = ctx.tlc("chars/CharIO_Trace", ctx.pick("CharIO_Trace_light.cfg", "CharIO_Trace.cfg"), env={"TRACE_FILE": tf},
                  expect_violation=True, require_cover=False, label=label)
    if res.ok:
        return []
    if res.violation["name"] != "Conforms":
        ctx.violation(f"TLC: {res.violation['kind']} {res.violation['name']} violated in CharIO_Trace",
                      {"kind": "tlc", "violation": {**res.violation, "trace": res.violation["trace"][:100000]}})
        return []
    rj = os.path.join(tmp, "rejected.ndjson")
    ctx.tlc("chars/CharIO_Trace", "CharIO_Trace_rejected.cfg", env={"TRACE_FILE": tf, "REJECT_OUT": rj},
            require_cover=False, label=label + " (list of rejected calls)")
    bad = []
    for line in open(rj):
        if line.strip():
            t, n = json.loads(line)
            bad.append((int(t) - 1, int(n) - 1))
    if not bad:
        raise MachineryError("TLC reported Conforms violated but listed no rejected call")
    return bad


def _report(ctx, entries, bad):
    seen = {}
    for i, n in bad:
        seen.setdefault(_class_of(entries[i], n), []).append((entries[i], n))
    for cls, es in sorted(seen.items(), key=lambda kv: repr(kv[0])):
        e, n = min(es, key=lambda x: (_simplicity(x[0]), x[1]))
        ctx.violation(_describe(e, n) + f"  [rejected by CharIO!CallOK ({'WriteOK' if cls[1] == 'write' else 'ReadOK'}"
                      f"{'' if cls[6] else ', CollectionUntouched'}); {len(es)} rejected call(s) of the kind '{cls[5]}']",
                      {"kind": "history", "cases": e["cases"], "api": e["api"], "variant": e["variant"], "coll": e["coll"],
                       "rejected_call": n + 1, "record": e["rec"], "details": e["details"]})


def _replay(ctx, tmp):
    data = json.load(open(ctx.replay))["replay"]
    cases, variant, colltype = data["cases"], data["variant"], data["coll"]
    api = "ffl" if data["api"] == "format_characteristic_list" else "pairing"
    logging.disable(logging.CRITICAL)
    sess = Sessions()
    try:
        outs = run_history(sess, cases, variant, api, colltype)
    finally:
        sess.close()
    acc = {}
    _note(acc, cases, data["api"], outs, variant, colltype)
    entries = list(acc.values())
    for n in range(len(cases)):
        print("replay:", _describe(entries[0], n))
    ctx.case(("replay", json.dumps(cases, sort_keys=True)))
    bad = _validate(ctx, tmp, entries, "replayed history")
    if bad:
        _report(ctx, entries, bad)
    ctx.trace_ok(len(cases) - len(bad))


def run(ctx):
    ctx.rule = ("cases = (transport, operation, request items with permission classes, accessory reply) enumerated by "
                "TLC from spec/chars/CharIO.tla plus seeded random replies, each run as one call of a two-call history "
                "that re-uses the caller's collection object; distinct by the history and the observed outcome; every "
                "case is non-trivial (at least one requested characteristic)")
    ctx.assume("write replies carry no request-wide status member and mention only requested characteristics; "
               "CoAP / BLE replies carry exactly one PDU outcome per requested characteristic with a defined PDU status "
               "(0..6; BLE also: link lost during a request) - other replies are outside the claim",
               "contradictory duplicated entries (status 0 and a non-zero status for the same characteristic): either "
               "verdict is accepted, nothing may be invented",
               "CoAP / BLE report the PDU status negated / as an enum member: only the magnitude is compared there; "
               "the description text is checked on IP only",
               "BLE read (get_characteristics) is not anchored by the property and not driven; BLE connection set-up "
               "(_populate_accessories_and_characteristics) is stubbed, no session keys on the scripted GATT link",
               "IP: harness/simnet.py + harness/refacc (pair-verify, secure session, HTTP) are trusted to deliver the "
               "scripted reply; CoAP: aiocoap's Context is replaced by an object answering the POST",
               "collection types per API: those the code path can iterate as often as it does (CoAP iterates the "
               "request twice and indexes writes by position: no one-shot iterables, writes as list / tuple; BLE writes "
               "in iteration order: ordered collections); a generator is re-created by the caller from its own list "
               "for every call")
    tmp = tempfile.mkdtemp(prefix="c13_")
    try:
        if ctx.replay:
            return _replay(ctx, tmp)
        # ---------------- (A) design level over the whole bounded domain + (B) export
        cfg = ctx.pick("CharIO_Cases_quick.cfg", "CharIO_Cases_real.cfg")
        out = os.path.join(tmp, "cases.ndjson")
        ctx.tlc("chars/CharIO_Cases", cfg, env={"CASES_OUT": out},
                label="reply processing of IP / CoAP / BLE over every case + case export")
        ctx.tlc("chars/CharIOHist", ctx.pick("CharIOHist_quick.cfg", "CharIOHist_real.cfg"),
                label="two-call histories re-using the caller's collection", ignore_cover=("Init",))
        cases = []
        for line in open(out):
            cases.extend(json.loads(line)["cases"])
        if len(cases) < 1000:
            raise MachineryError("too few cases exported")
        ctx.notes["cases_exported"] = len(cases)
        hists = _histories_from_cases(cases) + _random_histories(ctx.rng, ctx.pick(1500, 75000))
        jobs = list(enumerate(hists))
        nproc = min(16, os.cpu_count() or 4)
        # group by (transport, permissions) so that a worker rarely reloads the accessory database
        jobs.sort(key=lambda j: (j[1][0]["tr"], j[1][0]["items"], j[1][0]["perms"], j[0]))
        nchunks = nproc * 4
        size = (len(jobs) + nchunks - 1) // nchunks
        chunks = [jobs[i:i + size] for i in range(0, len(jobs), size)]
        with mp.get_context("fork").Pool(nproc) as pool:
            parts = pool.map(_work, [(ch, ctx.seed, ctx.thorough) for ch in chunks])
        entries = [e for p in parts for e in p]
        entries.sort(key=lambda e: (json.dumps(e["rec"], sort_keys=True), e["api"]))
        for e in entries:
            ctx.case((json.dumps(e["rec"], sort_keys=True), e["api"]), n=e["n"])
        ctx.notes["histories"] = len(hists)
        ctx.notes["observation_records"] = len(entries)
        per, perc = {}, {}
        for e in entries:
            h = e["rec"]["h"]
            k = f"{h['tr']}/{h['op']}/{e['api']}"
            per[k] = per.get(k, 0) + e["n"]
            for ct, m in e["colls"].items():
                perc[f"{k} [{ct}]"] = perc.get(f"{k} [{ct}]", 0) + m
        ctx.notes["executions_by_api"] = per
        ctx.notes["histories_by_api_and_collection"] = perc
        # ---------------- (C) TLC validates every call of every history
        bad = []
        B = 60000
        for off in range(0, len(entries), B):
            part = entries[off:off + B]
            bad += [(off + i, n) for i, n in _validate(ctx, tmp, part,
                                                       f"histories {off + 1}..{off + len(part)} of the real code")]
        if bad:
            _report(ctx, entries, bad)
        nbad_calls = {}
        for i, n in bad:
            nbad_calls[i] = nbad_calls.get(i, 0) + 1
        ctx.trace_ok(sum(e["n"] - (e["n"] // len(e["cases"])) * nbad_calls.get(i, 0) for i, e in enumerate(entries)))
        want = [("ip", "write", "mixed outcome"), ("ip", "read", "request-wide status"), ("coap", "write", "mixed outcome"),
                ("ble", "write", "mixed outcome")]
        for tr, op, shp in want:
            for e in entries:
                c = e["cases"][0]
                if c["tr"] == tr and c["op"] == op and _shape(c) == shp and len(c["items"]) >= 2:
                    ctx.sample({"history": e["rec"], "api": e["api"], "collection": e["coll"], "details": e["details"]})
                    break
        ctx.exhaustive = False
        ctx.notes["exhaustive_part"] = ("TLC: every case of the bounded domain, every two-call history of CharIOHist; "
                                        "replay: every exported case as first and as second call of a history on every "
                                        "transport it belongs to")
    finally:
        shutil.rmtree(tmp, ignore_errors=True)
