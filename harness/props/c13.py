"""C13 - reads and writes report per-characteristic outcomes faithfully (IP, CoAP, BLE).

(A) TLC: spec/chars/CharIO - the reply-processing algorithms of the three transports as state machines over
    every case of the bounded domain (request sets of 1..4 characteristics over two accessory ids, permission
    classes, every vector of per-item statuses / absences, 204 vs 207, request-wide status, duplicated, non-dict
    and id-less entries, every defined status code in both signs, unknown codes); invariants Faithful
    (relation WriteOK / ReadOK), NotifySubsetAccepted, RejectedReported, ReadTotal.
(B) spec -> code: every exported case is concretised and run on the real code: IP through a real IpPairing over
    the in-process network (secure session, HTTP, tolerant JSON loader) and format_characteristic_list directly;
    CoAP through CoAPPairing / EncryptionContext / PDU batch codec; BLE through BlePairing.put_characteristics /
    ble_request / PDU codec over a scripted GATT client.
(C) code -> spec: every observation (returned dict or exception, listener calls) - from (B) and from seeded random
    replies - is validated by TLC against CharIO_Trace (relation Holds); the verdict is TLC's.
"""
from __future__ import annotations

import json
import logging
import multiprocessing as mp
import os
import random
import shutil
import tempfile

from harness import c13_driver as D
from harness.common import MachineryError

ALL_CODES = [-70400 - n for n in range(1, 13)] + [70400 + n for n in range(1, 13)] + [-70499, -70400, 70413, 7, 1, -2]


# ------------------------------------------------------------------ running cases
class Sessions:
    def __init__(self):
        self.s = {}

    def get(self, tr):
        if tr not in self.s:
            self.s[tr] = {"ip": D.IpSession, "coap": D.CoapSession, "ble": D.BleSession}[tr]()
        return self.s[tr]

    def drop(self, tr):
        s = self.s.pop(tr, None)
        if s is not None:
            try:
                s.close()
            except Exception:  # noqa: BLE001
                pass

    def close(self):
        for tr in list(self.s):
            self.drop(tr)


def run_case(sess: Sessions, case, variant, apis=None):
    """-> list of (api, observation record, detail)"""
    out = []
    tr = case["tr"]
    if tr == "ip" and case["op"] == "read":
        if apis is None or "ffl" in apis:
            rec, detail = D.ffl_case(case, variant)
            out.append(("format_characteristic_list", rec, detail))
        if not case["reqKnown"]:
            return out
    if apis is not None and "pairing" not in apis:
        return out
    s = sess.get(tr)
    rec, detail, healthy = s.run_case(case, variant)
    name = {"ip": "IpPairing", "coap": "CoAPPairing", "ble": "BlePairing"}[tr] + \
        (".put_characteristics" if case["op"] == "write" else ".get_characteristics")
    out.append((name, rec, detail))
    if not healthy:
        sess.drop(tr)
    return out


def _note(acc, case, api, rec, detail, variant):
    key = (json.dumps(case, sort_keys=True), json.dumps(rec, sort_keys=True), api)
    e = acc.get(key)
    if e is None:
        acc[key] = [{"c": case, "o": rec}, 1, api, detail, variant]
    else:
        e[1] += 1


def _work(args):
    jobs, seed = args
    logging.disable(logging.CRITICAL)
    sess = Sessions()
    acc = {}
    try:
        for idx, case in jobs:
            variant = random.Random(seed * 1000003 + idx).randrange(64)
            for api, rec, detail in run_case(sess, case, variant):
                _note(acc, case, api, rec, detail, variant)
    finally:
        sess.close()
    return list(acc.values())


# ------------------------------------------------------------------ seeded random cases (code -> spec only)
def _random_cases(rng, n):
    out = []
    E = lambda t, k, s: {"t": t, "k": k, "s": s}  # noqa: E731
    for _ in range(n):
        tr = rng.choice(["ip", "ip", "ip", "coap", "ble"])
        nitems = rng.randrange(1, 5)
        items = sorted(rng.sample([1, 2, 3, 4], nitems))
        if tr == "ip":
            op = rng.choice(["read", "write"])
            perms = [rng.choice(["rw", "wo", "tw", "ro"]) if op == "write" else "rw" for _ in items]
            entries = []
            for _ in range(rng.randrange(0, 8)):
                r = rng.random()
                if r < 0.15:
                    entries.append(E(rng.choice(["nondict", "noaid", "noiid"]), 0, 0))
                    continue
                k = rng.choice(items)
                if op == "write":
                    entries.append(E("st", k, rng.choice([0, 0, 0, rng.choice(ALL_CODES)])))
                else:
                    t = rng.choice(["val", "val", "val0", "st"])
                    entries.append(E(t, k, rng.choice(ALL_CODES) if t == "st" else 0))
            rng.shuffle(entries)
            has_g = op == "read" and rng.random() < 0.4
            g = rng.choice([0] + ALL_CODES) if has_g else 0
            http = "204" if (op == "write" and rng.random() < 0.1) else "207"
            if http == "204":
                entries = []
            out.append({"tr": "ip", "op": op, "items": items, "perms": perms, "reqKnown": op == "write" or rng.random() < 0.8,
                        "http": http, "hasG": has_g, "g": g, "entries": entries})
        elif tr == "coap":
            op = rng.choice(["read", "write"])
            perms = [rng.choice(["rw", "wo", "tw", "ro"]) if op == "write" else "rw" for _ in items]
            sts = [rng.choice([0, 0, rng.randrange(1, 7)]) for _ in items]
            entries = [E("val", k, 0) if (op == "read" and s == 0) else E("st", k, s) for k, s in zip(items, sts)]
            out.append({"tr": "coap", "op": op, "items": items, "perms": perms, "reqKnown": True, "http": "pdu",
                        "hasG": False, "g": 0, "entries": entries})
        else:
            perms = [rng.choice(["rw", "wo", "tw", "ro"]) for _ in items]
            sts = [rng.choice([0, 0, 0, rng.randrange(1, 7), D.LINK_LOST]) for _ in items]
            out.append({"tr": "ble", "op": "write", "items": items, "perms": perms, "reqKnown": True, "http": "pdu",
                        "hasG": False, "g": 0, "entries": [E("st", k, s) for k, s in zip(items, sts)]})
    return out


# ------------------------------------------------------------------ reporting
def _shape(case):
    es = [e for e in case["entries"] if e["t"] in ("val", "val0", "st")]
    junk = len(es) != len(case["entries"])
    ks = [e["k"] for e in es]
    if junk:
        return "malformed entries"
    if len(ks) != len(set(ks)):
        return "duplicated entries"
    if case["hasG"] and case["g"] != 0:
        return "request-wide status"
    bad = [e for e in es if e["t"] == "st" and e["s"] != 0]
    if not bad:
        return "all succeed"
    if len(bad) == len(case["items"]):
        return "all rejected"
    return "mixed outcome"


def _class_of(entry):
    rec, n, api, detail, variant = entry
    return (rec["c"]["tr"], rec["c"]["op"], api, rec["o"]["exc"], _shape(rec["c"]))


def _simplicity(entry):
    rec, n, api, detail, variant = entry
    c = rec["c"]
    return (len(c["items"]), len(c["entries"]), sum(p != "rw" for p in c["perms"]), json.dumps(c, sort_keys=True))


def _describe(entry):
    rec, n, api, detail, variant = entry
    c, o = rec["c"], rec["o"]
    uni = D.U_IP if c["tr"] == "ip" else D.U_PDU
    req = [f"{uni[k]} [{p}]" for k, p in zip(c["items"], c["perms"])]
    if c["tr"] == "ip":
        reply = (f"HTTP {detail['http']} " if "http" in detail else "document ") + detail.get("body", "")
    else:
        reply = f"PDU statuses {detail.get('pdu_statuses')}"
    got = f"raised {detail['raised']}" if o["exc"] else f"returned {detail['returned']}"
    lis = f"; listeners were told {detail.get('listener_calls')}" if c["op"] == "write" else ""
    return f"{api}({', '.join(req)}) with accessory reply {reply}: {got}{lis}"


def _validate(ctx, tmp, entries, label):
    tf = os.path.join(tmp, "obs.ndjson")
    with open(tf, "w") as f:
        for e in entries:
            f.write(json.dumps(e[0]) + "\n")
    res = ctx.tlc("chars/CharIO_Trace", "CharIO_Trace.cfg", env={"TRACE_FILE": tf}, expect_violation=True,
                  require_cover=False, label=label)
    if res.ok:
        return []
    if res.violation["name"] != "Conforms":
        ctx.violation(f"TLC: {res.violation['kind']} {res.violation['name']} violated in CharIO_Trace",
                      {"kind": "tlc", "violation": {**res.violation, "trace": res.violation["trace"][:100000]}})
        return []
    rj = os.path.join(tmp, "rejected.ndjson")
    ctx.tlc("chars/CharIO_Trace", "CharIO_Trace_rejected.cfg", env={"TRACE_FILE": tf, "REJECT_OUT": rj},
            require_cover=False, label=label + " (list of rejected records)")
    bad = [int(line) - 1 for line in open(rj) if line.strip()]
    if not bad:
        raise MachineryError("TLC reported Conforms violated but listed no rejected record")
    return bad


def _report(ctx, entries, bad):
    seen = {}
    for i in bad:
        seen.setdefault(_class_of(entries[i]), []).append(entries[i])
    for cls, es in sorted(seen.items(), key=lambda kv: repr(kv[0])):
        e = min(es, key=_simplicity)
        ctx.violation(_describe(e) + f"  [rejected by CharIO!{'WriteOK' if cls[1] == 'write' else 'ReadOK'}; "
                      f"{len(es)} rejected observation(s) of the kind '{cls[4]}']",
                      {"kind": "observation", "record": e[0], "api": e[2], "detail": e[3], "variant": e[4]})


def _replay(ctx, tmp):
    data = json.load(open(ctx.replay))["replay"]
    case, variant = data["record"]["c"], data["variant"]
    apis = {"ffl"} if data["api"] == "format_characteristic_list" else {"pairing"}
    logging.disable(logging.CRITICAL)
    sess = Sessions()
    try:
        outs = run_case(sess, case, variant, apis)
    finally:
        sess.close()
    entries = [[{"c": case, "o": rec}, 1, api, detail, variant] for api, rec, detail in outs]
    for e in entries:
        print("replay:", _describe(e))
        ctx.case(("replay", json.dumps(case, sort_keys=True)))
    bad = _validate(ctx, tmp, entries, "replayed observation")
    if bad:
        _report(ctx, entries, bad)
    ctx.trace_ok(len(entries) - len(bad))


def run(ctx):
    ctx.rule = ("cases = (transport, operation, request items with permission classes, accessory reply) enumerated by "
                "TLC from spec/chars/CharIO.tla plus seeded random replies; distinct by the case and the observed "
                "outcome; every case is non-trivial (at least one requested characteristic)")
    ctx.assume("write replies carry no request-wide status member and mention only requested characteristics; "
               "CoAP / BLE replies carry exactly one PDU outcome per requested characteristic with a defined PDU status "
               "(0..6) - other replies are outside the claim",
               "contradictory duplicated entries (status 0 and a non-zero status for the same characteristic): either "
               "verdict is accepted, nothing may be invented",
               "CoAP / BLE report the PDU status negated / as an enum member: only the magnitude is compared there; "
               "the description text is checked on IP only",
               "BLE read (get_characteristics) is not anchored by the property and not driven; BLE connection set-up "
               "(_populate_accessories_and_characteristics) is stubbed, no session keys on the scripted GATT link",
               "IP: harness/simnet.py + harness/refacc (pair-verify, secure session, HTTP) are trusted to deliver the "
               "scripted reply; CoAP: aiocoap's Context is replaced by an object answering the POST")
    tmp = tempfile.mkdtemp(prefix="c13_")
    try:
        if ctx.replay:
            return _replay(ctx, tmp)
        # ---------------- (A) design level over the whole bounded domain + (B) export
        cfg = ctx.pick("CharIO_Cases_quick.cfg", "CharIO_Cases_real.cfg")
        out = os.path.join(tmp, "cases.ndjson")
        ctx.tlc("chars/CharIO_Cases", cfg, env={"CASES_OUT": out},
                label="reply processing of IP / CoAP / BLE over every case + case export")
        cases = []
        for line in open(out):
            cases.extend(json.loads(line)["cases"])
        if len(cases) < 1000:
            raise MachineryError("too few cases exported")
        cases.sort(key=lambda c: json.dumps(c, sort_keys=True))
        ctx.notes["cases_exported"] = len(cases)
        rcases = _random_cases(ctx.rng, ctx.pick(3000, 150000))
        jobs = list(enumerate(cases + rcases))
        nproc = min(16, os.cpu_count() or 4)
        # group by (transport, permissions) so that a worker rarely reloads the accessory database
        jobs.sort(key=lambda j: (j[1]["tr"], j[1]["items"], j[1]["perms"], j[0]))
        nchunks = nproc * 4
        size = (len(jobs) + nchunks - 1) // nchunks
        chunks = [jobs[i:i + size] for i in range(0, len(jobs), size)]
        with mp.get_context("fork").Pool(nproc) as pool:
            parts = pool.map(_work, [(ch, ctx.seed) for ch in chunks])
        entries = [e for p in parts for e in p]
        entries.sort(key=lambda e: (json.dumps(e[0], sort_keys=True), e[2]))
        for e in entries:
            ctx.case((json.dumps(e[0], sort_keys=True), e[2]), n=e[1])
        ctx.notes["observation_records"] = len(entries)
        per = {}
        for e in entries:
            k = f"{e[0]['c']['tr']}/{e[0]['c']['op']}/{e[2]}"
            per[k] = per.get(k, 0) + e[1]
        ctx.notes["executions_by_api"] = per
        # ---------------- (C) TLC validates every observation
        bad = []
        B = 120000
        for off in range(0, len(entries), B):
            part = entries[off:off + B]
            bad += [off + i for i in _validate(ctx, tmp, part, f"observations {off + 1}..{off + len(part)} of the real code")]
        if bad:
            _report(ctx, entries, bad)
        badset = set(bad)
        ctx.trace_ok(sum(e[1] for i, e in enumerate(entries) if i not in badset))
        want = [("ip", "write", "mixed outcome"), ("ip", "read", "request-wide status"), ("coap", "write", "mixed outcome"),
                ("ble", "write", "mixed outcome")]
        for tr, op, shp in want:
            for e in entries:
                c = e[0]["c"]
                if c["tr"] == tr and c["op"] == op and _shape(c) == shp and len(c["items"]) >= 2:
                    ctx.sample({"case": c, "observation": e[0]["o"], "api": e[2], "detail": e[3]})
                    break
        ctx.exhaustive = False
        ctx.notes["exhaustive_part"] = ("TLC: every case of the bounded domain; replay: every exported case on every "
                                        "transport it belongs to")
    finally:
        shutil.rmtree(tmp, ignore_errors=True)
