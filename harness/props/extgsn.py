"""EXTGSN - advertisement-driven state of a BLE pairing (spec/ble/BleGsn.tla).

Extension beyond the listed properties: global state number (GSN) and disconnected events, the catch-up poll with its
lock and the first-connection guard, the cached state number across restarts, availability (interval, listeners), the
configuration number, encrypted broadcasts advancing the state number.

(A)  TLC checks BleGsn (the intended behaviour, Deviations = {}) exhaustively for small constants, one configuration per
     aspect (catch-up poll / retry + start-notify / broadcasts / configuration number / restart + cache / availability);
     as a guard against a vacuous model every named departure (the released library's one - the recorded finding - and
     five that correspond to mutants) must be refuted by the property it is meant to break, and every action must fire
     in at least one configuration.
(B)  spec -> code: behaviours produced by `tlc -simulate` (SimSpec) are replayed as stimuli on the real BleController /
     BlePairing (harness/extgsn_driver.py).
(C)  code -> spec: those executions, seeded random schedules and directed schedules are recorded at the boundaries and
     validated by TLC against BleGsn_Trace with all invariants on: first the intended behaviour (Deviations = {}); what
     it does not accept must be a behaviour of the model of the released library (Deviations = {recorded finding}) -
     then it is the recorded finding (KNOWN-FINDING, one execution is shown with the lost change) - anything else is a
     VIOLATION.
"""
from __future__ import annotations

import glob
import json
import multiprocessing as mp
import os
import re
import shutil
import tempfile
import threading
from concurrent.futures import ThreadPoolExecutor

from harness import tlc as T
from harness import tracecheck
from harness.common import SPEC, MachineryError

SIG_ADOPT = "extgsn-restore-adopts-state-number-without-poll"
TRACE = os.path.join(SPEC, "ble", "BleGsn_Trace.tla")
ACTIONS = ["Begin", "Found", "NtfRun", "ConnRes", "FetchDone", "Keys", "VParams", "VRead", "VDone", "BParams", "BNoSub", "BRead", "BTold",
           "RKey", "RParams", "RUpd", "Drop", "Timer", "Tick", "Adv", "Bcast", "Change", "CfgChange", "Call", "Subscribe", "Restart"]
EVENT_KINDS = {"adv", "bcast", "change", "cfgchg", "drop", "tick", "timer", "sub", "restart", "call", "conn_res", "fetch_done", "conn_req",
               "fetch", "keys", "params", "read", "told", "genkey", "cfg_cb", "bcen", "cache", "notify", "ret", "avail_cb"}
MC = [("BleGsn_MCa.cfg", "exhaustive: catch-up poll (3 connections, connection failures, stale / repeated advertisements, GSN wrap-around)"),
      ("BleGsn_MCa2.cfg", "exhaustive: + retry after a lost link, start-notify timer, bulk read by the application"),
      ("BleGsn_MCb.cfg", "exhaustive: + encrypted broadcasts (every disconnected change increments the GSN)"),
      ("BleGsn_MCc.cfg", "exhaustive: configuration number (with and without a cache entry)"),
      ("BleGsn_MCd.cfg", "exhaustive: restart from the cache (entry with / without state number, no entry)"),
      ("BleGsn_MCe.cfg", "exhaustive: availability (interval, listeners)"),
      ("BleGsn_cov1.cfg", "exhaustive, small: broadcasts with one connection (coverage)"),
      ("BleGsn_cov2.cfg", "exhaustive, small: restart with one connection (coverage)")]
COVERED = ("BleGsn_MCc.cfg", "BleGsn_MCe.cfg", "BleGsn_cov1.cfg", "BleGsn_cov2.cfg")   # -coverage 1 only on the small ones (it is slow)
NEG = [("released", "NoLostChange"), ("untried", "NoPollBeforeConnect"), ("nolock", "OnePoll"), ("norewind", "NoLostChange"),
       ("greater", "NoLostChange"), ("cbalways", "NoRedundantAvailability")]


# ------------------------------------------------------------------ (B) behaviours from TLC
_STATE = re.compile(r"^STATE_\d+ ==\s*\n(.*?)(?=^\\\* <|\Z|^={4,})", re.M | re.S)


def _behaviours(ctx, tmp, num, depth, seed):
    """-> list of behaviours, each the list of `out` sequences (tuples of event dicts) of its steps + the initial state"""
    d = os.path.join(tmp, "sim")
    os.makedirs(d, exist_ok=True)
    ctx.tlc("ble/BleGsn", "BleGsn_sim.cfg", simulate=f"file={d}/b,num={num}", depth=depth, seed=seed, workers=1,
            coverage=False, require_cover=False, label="simulate (SimSpec): behaviours for replay", timeout=600)
    out = []
    for f in sorted(glob.glob(d + "/b_*")):
        states = [T.parse_state(m.group(1)) for m in _STATE.finditer(open(f).read())]
        if len(states) < 2:
            continue
        s0 = states[0]["s"]
        ic = "none" if not s0["cache"] else ("nosn" if s0["cache"][1] == 0 else "entry")
        out.append({"init": {"cache": ic, "gsn": s0["agsn"], "cn": s0["acn"], "aval": s0["aval"]},
                    "steps": [[dict(e) for e in st["out"]] for st in states[1:]],
                    "agsn": [st["s"]["agsn"] for st in states]})
    shutil.rmtree(d, ignore_errors=True)
    return out


def _replay_behaviour(args):
    """Worker: drive the real code along the stimuli of one TLC behaviour (the model's state numbers are mapped to the
    driver's by their distance from the accessory's current one)."""
    beh, seed, rid, maxgsn = args
    from harness import extgsn_driver as G
    i = beh["init"]
    w = G.GWorld(seed, rid, cache=i["cache"], gsn=i["gsn"], cn=i["cn"], aval=i["aval"])
    applied = 0
    try:
        for k, outs in enumerate(beh["steps"]):
            if not outs:
                applied += 1 if w.step(1) else 0
                continue
            e = outs[0]
            ev = e["ev"]
            ok = True
            if ev == "adv":
                j = (beh["agsn"][k] - e["g"]) % maxgsn
                g = w.history[-1 - j] if j < len(w.history) else w.history[0]
                w.adv(g, min(e["c"], w.cn))
            elif ev == "bcast":
                ok = bool(w.lastb) and w.bcast(*w.lastb)
            elif ev == "change":
                w.change(e["v"])
            elif ev == "cfgchg":
                ok = w.cfgchange()
            elif ev == "drop":
                ok = w.link_drop()
            elif ev == "tick":
                w.tick()
            elif ev == "timer":
                ok = w.timer()
            elif ev == "sub":
                ok = w.subscribe()
            elif ev == "restart":
                w.restart()
            elif ev == "call":
                ok = w.populate(e["c"], e["force"])
            elif ev == "conn_res":
                ok = w.conn(e["out"])
            elif ev == "fetch_done":
                ok = w.fetch_ok()
            elif ev in ("conn_req", "fetch", "notify", "ret"):
                ok = False          # the library's own step: it has already run
            else:
                # an answer of the Bluetooth side: GATT operations are answered until something becomes visible
                ok = False
                for _ in range(12):
                    mark = len(w.gev)
                    if not w.step(1):
                        break
                    ok = True
                    if len(w.gev) > mark:
                        break
            applied += 1 if ok else 0
        w.honest_tail()
        rec = w.record()
        rec["applied"] = applied
        rec["beh"] = beh
        rec["loop_exceptions"] = w.loop_exceptions[:5]
        return rec
    finally:
        w.close()


def _random_run(args):
    seed, rid, nsteps, fault = args
    from harness import extgsn_driver as G
    w = G.random_run(seed, rid, nsteps=nsteps, fault=fault)
    try:
        rec = w.record()
        rec["loop_exceptions"] = w.loop_exceptions[:5]
        return rec
    finally:
        w.close()


def _directed_run(args):
    seed, rid, template = args
    from harness import extgsn_driver as G
    w = G.directed_run(seed, rid, template)
    try:
        rec = w.record()
        rec["loop_exceptions"] = w.loop_exceptions[:5]
        return rec
    finally:
        w.close()


def _rnd_job(seed, i):
    return (seed * 1000003 + i, f"rnd{i}", [20, 40, 60, 90][i % 4], [0.1, 0.2, 0.35][i % 3])


def _dir_job(seed, i):
    from harness import extgsn_driver as G
    return (seed * 7919 + i, f"dir{i}", G.TEMPLATES[i % len(G.TEMPLATES)])


# ------------------------------------------------------------------ (C) validation
_REJ = re.compile(r'<<"REJECTED", (\d+), (\d+)>>')
_acct = threading.Lock()


def _tlc_traces(ctx, cfg, part, label, timeout=900, max_inv=6):
    """One TLC run (repeated without a trace that violated an invariant) over a batch -> rejections."""
    cfgp = os.path.join(SPEC, "ble", cfg)
    out = []
    todo = list(part)
    while todo:
        tmp = tempfile.mkdtemp(prefix="tvg_")
        try:
            tf = os.path.join(tmp, "batch.ndjson")
            with open(tf, "w") as f:
                for r in todo:
                    f.write(json.dumps({"id": r["id"], "init": r["init"], "events": r["events"]}) + "\n")
            res = T.run(TRACE, cfgp, env={"TRACE_FILE": tf, "DBG_L": "0"}, workers=1, dfs_queue=True, coverage=False, timeout=timeout)
        finally:
            shutil.rmtree(tmp, ignore_errors=True)
        with _acct:
            ctx.states += res.distinct
            ctx.transitions += res.generated
            ctx.tlc_runs.append({"module": "spec/ble/BleGsn_Trace.tla", "cfg": cfg, "label": f"{label} ({len(todo)} executions)",
                                 "generated": res.generated, "distinct": res.distinct, "depth": res.depth,
                                 "wall_s": round(res.wall_s, 2), "ok": res.ok, "actions": {}})
        if not res.ok and res.violation["kind"] in ("invariant", "action_property"):
            ce = T.parse_counterexample(res.violation["trace"])
            tid = ce[-1][1].get("tid") if ce else None
            if not isinstance(tid, int):
                raise MachineryError("trace validation: invariant violated but the trace could not be identified\n" + res.stdout[-1500:])
            rec = todo[tid - 1]
            last = ce[-1][1]
            out.append({"record": rec, "maxl": last.get("l"), "event": None, "invariant": res.violation["name"],
                        "last_state": last.get("s")})
            todo = [r for i, r in enumerate(todo) if i != tid - 1]
            if sum(1 for j in out if j["invariant"]) >= max_inv:
                for r in todo:              # enough evidence; the rest of this batch stays unvalidated
                    out.append({"record": r, "maxl": 0, "event": None, "invariant": None, "last_state": None, "unvalidated": True})
                break
            continue
        if not res.ok and res.violation["kind"] != "postcondition":
            raise MachineryError(f"trace validation failed: {res.violation['kind']}\n" + res.stdout[-2000:])
        rej = [(int(x), int(y)) for x, y in _REJ.findall(res.stdout)]
        for tid, maxl in rej:
            rec = todo[tid - 1]
            ev = rec["events"][maxl - 1] if 0 < maxl <= len(rec["events"]) else None
            out.append({"record": rec, "maxl": maxl, "event": ev, "invariant": None, "last_state": None})
        break
    return out


def validate(ctx, recs, cfg, label, parallel=4):
    if not recs:
        return []
    k = max(1, min(parallel, (len(recs) + 59) // 60))
    parts = [recs[i::k] for i in range(k)]
    with ThreadPoolExecutor(k) as ex:
        outs = list(ex.map(lambda part: _tlc_traces(ctx, cfg, part, label), parts))
    return [j for o in outs for j in o]


def _explain(j, cfg):
    return tracecheck._last_state(TRACE, os.path.join(SPEC, "ble", cfg), j["record"], j["maxl"])


def _schedule(rec, upto=None):
    """the stimuli and the listener / cache effects of an execution, compact"""
    out = []
    for e in rec["events"][:upto]:
        if e["ev"] == "obs":
            continue
        out.append(e["ev"] + "".join(f" {k}={v}" for k, v in e.items() if k != "ev"))
    return out


def report(ctx, recs, what="execution"):
    """Verdicts for a set of recorded executions."""
    for r in recs:
        if r.get("problems"):
            ctx.violation(f"{what} {r['id']}: the Bluetooth stand-in observed {r['problems'][0]}", {"kind": "trace", "record": r})
    usable = [r for r in recs if not r.get("skipped")]
    ctx.notes["executions_skipped_coincident_timers"] = len(recs) - len(usable)
    # 1. the intended behaviour (Deviations = {}), all invariants on
    first = validate(ctx, usable, "BleGsn_Trace_intended.cfg", "trace validation (intended behaviour, Deviations = {})")
    cand = [j["record"] for j in first]
    # 2. what it does not accept must be a behaviour of the model of the released library (the recorded departure enabled,
    #    every invariant but the one the departure breaks): anything else is a violation
    rej = validate(ctx, cand, "BleGsn_Trace.cfg", "executions not accepted by the intended behaviour against the model of the released library")
    bad = {id(j["record"]) for j in rej}
    detailed = 0
    for j in rej:
        rec = j["record"]
        if j.get("unvalidated"):
            continue
        if j.get("invariant"):
            msg = f"{what} {rec['id']} drives BleGsn into a state that violates {j['invariant']}"
        else:
            msg = f"{what} {rec['id']} is not a behaviour of BleGsn: event #{j['maxl']} {j['event']} cannot be explained"
            if detailed < 3:
                detailed += 1
                j["last_state"] = _explain(j, "BleGsn_Trace.cfg")
        ctx.violation(msg, {"kind": "trace", "record": rec, "first_unexplained": j.get("event"), "position": j.get("maxl"),
                            "invariant": j.get("invariant"), "last_matched_state": j.get("last_state"),
                            "schedule": _schedule(rec, j.get("maxl"))})
    with _acct:
        ctx.trace_ok(len(usable) - len(bad))
    dev = [j for j in first if id(j["record"]) not in bad]
    # (the shortest directed executions first: they make the most readable example)
    devrecs = sorted((j["record"] for j in dev), key=lambda r: (not str(r["id"]).startswith("dir"), len(r["events"])))
    ctx.notes["executions_showing_the_recorded_departure"] = len(devrecs)
    if devrecs:
        # 3. one of them with the consequence: the model of the released library + NoLostChange
        hit = None
        for part in (devrecs[:1], devrecs[1:12], devrecs[12:200]):
            if part and hit is None:
                lost = _tlc_traces(ctx, "BleGsn_Trace_lost.cfg", part, "departing executions: is a change lost?", max_inv=1)
                hit = next((j for j in lost if j.get("invariant") == "NoLostChange"), None)
        ex = hit or next(j for j in dev if j["record"] is devrecs[0])
        rec = ex["record"]
        if hit:
            st = hit.get("last_state") or {}
            txt = (f"{what} {rec['id']}: after event #{hit['maxl'] - 1} the pairing holds the accessory's current state number "
                   f"{st.get('dsn')} (description and cache) and no catch-up poll is in flight, but the listener was last told "
                   f"{st.get('lval')} while the value is {st.get('aval')}: _async_restore_subscriptions adopted the state number it read "
                   f"after reconnecting without reading the subscribed characteristics, so the advertisement of that change "
                   f"starts nothing. Schedule: " + "; ".join(_schedule(rec, hit["maxl"] - 1)[-28:]))
        else:
            txt = (f"{what} {rec['id']}: event #{ex['maxl']} {ex['event']} - the state number read at the end of "
                   f"_async_restore_subscriptions differs from the one held and is adopted without a catch-up poll")
        ctx.violation(txt, {"kind": "trace", "record": rec, "position": ex.get("maxl"), "invariant": ex.get("invariant"),
                            "schedule": _schedule(rec, ex.get("maxl"))}, signature=SIG_ADOPT)
    return rej


# ------------------------------------------------------------------ (A) model checking
def _mc_jobs(ctx):
    cover = {}
    lock = threading.Lock()

    def mc(cfg, label, cov):
        def job(c):
            res = c.tlc("ble/BleGsn", cfg, label=label, timeout=1500, coverage=cov, require_cover=False, workers=ctx.pick(6, 8))
            with lock:
                for a, (d, t) in res.coverage.items():
                    cover[a] = cover.get(a, 0) + t
        return job

    def neg(name, inv):
        def job(c):
            res = c.tlc("ble/BleGsn", f"BleGsn_neg_{name}.cfg", expect_violation=True, coverage=False, require_cover=False, workers=1,
                        label=f"departure '{name}' must be refuted ({inv})", timeout=600)
            if res.ok or res.violation.get("name") != inv:
                raise MachineryError(f"BleGsn_neg_{name}.cfg no longer violates {inv}: the model has become vacuous")
        return job
    jobs = [mc(cfg, label, cfg in COVERED) for cfg, label in MC]
    if ctx.thorough:
        jobs += [mc("BleGsn_MCt1.cfg", "exhaustive: catch-up poll, 4 connections, 2 queued operations, GSN range 4", False),
                 mc("BleGsn_MCt2.cfg", "exhaustive: broadcasts + connection failures + retry, 3 connections", False),
                 mc("BleGsn_MCt3.cfg", "exhaustive: restart + configuration number + availability together", False),
                 mc("BleGsn_MCt4.cfg", "exhaustive: configuration number with value changes", False)]
    jobs += [neg(n, i) for n, i in NEG]
    return jobs, cover


def _run_mc(ctx, ex):
    from harness.common import Ctx
    jobs, cover = _mc_jobs(ctx)
    subs, futs = [], []
    for job in jobs:
        sub = Ctx(ctx.pid + "-mc", ctx.tier, ctx.seed)
        subs.append(sub)
        futs.append(ex.submit(job, sub))

    def merge():
        for f in futs:
            f.result()
        for sub in subs:
            ctx.states += sub.states
            ctx.transitions += sub.transitions
            ctx.tlc_runs += sub.tlc_runs
            for what, path in sub.violations:
                try:
                    obj = json.load(open(path)).get("replay")
                    os.remove(path)
                except (OSError, ValueError):
                    obj = None
                ctx.violation(what, obj)
        dead = [a for a in ACTIONS if cover.get(a, 0) == 0]
        if dead:
            raise MachineryError(f"vacuity guard: actions that fired in no exhaustive configuration of BleGsn: {dead}")
    return merge


def run(ctx):
    ctx.rule = ("TLC explores BleGsn exhaustively for the listed constants; executions of the real BleController / BlePairing = TLC "
                "-simulate behaviours replayed as stimuli + seeded random schedules + directed schedules; an execution is distinct by "
                "its recorded event sequence, non-trivial if a catch-up poll told a listener a value or a state number was written to the cache")
    ctx.assume("the Bluetooth stand-in of EXTBLE (harness/extble_driver.py): a lost link runs the disconnected callback synchronously and fails "
               "the pending GATT operation with BleakError; _async_fetch_gatt_database is replaced by a stand-in (the fake client has no bleak "
               "service collection)",
               "the accessory increments the GSN on the first change of a connection cycle and, once broadcasts are enabled for the "
               "characteristic, on every disconnected change; GSN 65535 -> 1; it has the service-signature characteristic; GATT indications "
               "(connected events) are not modelled; the configuration number only grows",
               "exhaustive runs: a state number the pairing holds does not come round again before the pairing has caught up (MaxGsn - 1 "
               "increments; 65535 in reality); advertisements carry any of the last MaxGsn - 1 state numbers; broadcasts are delivered while "
               "they describe the accessory's state (trace validation has neither restriction)",
               "stimuli are applied one at a time and the loop runs until nothing is ready; subscribe() only while there is no connection; "
               "connection failures: AccessoryDisconnectedError (not retried) or BleakError (retried once)",
               "time.monotonic in aiohomekit.controller.ble.pairing is the virtual loop time; time advances by firing timers or by half "
               "availability intervals")
    if ctx.replay:
        return _replay(ctx)
    tmp = tempfile.mkdtemp(prefix="extgsn_")
    try:
        nb = ctx.pick(120, 1200)
        beh = _behaviours(ctx, tmp, nb, ctx.pick(80, 120), ctx.seed % 100000)
        kinds = {e["ev"] for b in beh for st in b["steps"] for e in st}
        if EVENT_KINDS - kinds:
            raise MachineryError(f"vacuity guard: effects that occur in no simulated behaviour: {sorted(EVENT_KINDS - kinds)}")
        jobs_b = [(b, ctx.seed * 7 + i, f"beh{i}", 5) for i, b in enumerate(beh)]
        nr = ctx.pick(600, 8000)
        jobs_r = [_rnd_job(ctx.seed, i) for i in range(nr)]
        nd = ctx.pick(40, 400)
        jobs_d = [_dir_job(ctx.seed, i) for i in range(nd)]
        with mp.get_context("fork").Pool(min(12, os.cpu_count() or 4)) as pool:
            recs = pool.map(_replay_behaviour, jobs_b, chunksize=8)
            recs += pool.map(_random_run, jobs_r, chunksize=8)
            recs += pool.map(_directed_run, jobs_d, chunksize=4)
        ctx.notes["behaviours_replayed"] = len(jobs_b)
        ctx.notes["behaviour_stimuli_applied"] = sum(r.get("applied", 0) for r in recs)
        ctx.notes["random_runs"] = nr
        ctx.notes["directed_runs"] = nd
        ctx.notes["events_recorded"] = sum(len(r["events"]) for r in recs)
        cnt = {}
        for r in recs:
            for e in r["events"]:
                k = e["ev"] + (":" + e["out"] if e["ev"] == "conn_res" else ":" + e["res"] if e["ev"] == "ret" else "")
                cnt[k] = cnt.get(k, 0) + 1
        ctx.notes["observed"] = dict(sorted(cnt.items()))
        missing = EVENT_KINDS - {k.split(":")[0] for k in cnt}
        if missing:
            raise MachineryError(f"vacuity guard: effects that occur in no recorded execution: {sorted(missing)}")
        ctx.notes["loop_exceptions"] = sorted({x for r in recs for x in r.get("loop_exceptions", [])})[:5]
        for r in recs:
            key = json.dumps(r["events"], sort_keys=True)
            ctx.case(key if any(e["ev"] in ("told", "cache") for e in r["events"]) else None)
        with ThreadPoolExecutor(ctx.pick(3, 3)) as ex:
            merge = _run_mc(ctx, ex)
            report(ctx, recs)
            merge()
        ctx.sample({"recorded_trace_prefix": recs[len(jobs_b)]["events"][:24]})
        if beh:
            ctx.sample({"tlc_behaviour_effects": [e for st in beh[0]["steps"] for e in st][:24]})
        ctx.exhaustive = False
    finally:
        shutil.rmtree(tmp, ignore_errors=True)


def _replay(ctx):
    rep = json.load(open(ctx.replay))
    seed = rep.get("seed", ctx.seed)
    obj = rep.get("replay") or {}
    if obj.get("kind") == "tlc":
        ctx.tlc("ble/BleGsn", obj["cfg"], coverage=False, require_cover=False, label="replay: re-run the TLC configuration")
        return
    rec = obj.get("record") or {}
    rid = str(rec.get("id", ""))
    fresh = None
    m = re.match(r"rnd(\d+)$", rid)
    md = re.match(r"dir(\d+)$", rid)
    if m:
        fresh = _random_run(_rnd_job(seed, int(m.group(1))))
    elif md:
        fresh = _directed_run(_dir_job(seed, int(md.group(1))))
    elif rid.startswith("beh") and rec.get("beh"):
        fresh = _replay_behaviour((rec["beh"], seed * 7 + int(rid[3:]), rid, 5))
    use = fresh or rec
    ctx.notes["replayed"] = "re-executed" if fresh else "recorded trace re-validated"
    ctx.case(json.dumps(use.get("events", [])))
    ctx.sample({"replayed_schedule": _schedule(use)[:40]})
    report(ctx, [use], what="replayed execution")
