"""C08 - every request gets its own response or a prompt disconnection error (spec/ip/IpReq.tla).

(A) TLC: IpReq exhaustively (OwnResponse, EventsInOrder, NoWriteAfterFault, NoStaleCompletion, SemConsistent,
    NoOrphan) and NoHang as a liveness property under fairness on a smaller instance.
(B)+(C) seeded random stimulus sequences (issue / respond whole or in two pieces / EVENT / unsolicited response /
    FIN / reset / caller cancel / passage of time, with partial settling of the loop so stimuli land between
    callbacks) drive the real SecureHomeKitConnection on the virtual-time loop; the recorded traces are validated
    against IpReq_Trace (Timed): each API outcome, which request a delivered body was written for, listener calls,
    and the exact 30 s time-out.
"""
from __future__ import annotations

import json
import multiprocessing as mp
import os
import random

from harness import tracecheck


def _run(args):
    seed, rid, nsteps = args[:3]
    limit = args[3] if len(args) > 3 else 1
    from harness import ipreq_driver as D
    rng = random.Random(seed)
    if rid.startswith("race"):
        r = D.cancel_race_run(rng, rid, variant=nsteps, limit=limit)
    elif rid.startswith("coal"):
        r = D.coalesce_run(rng, rid, variant=nsteps, limit=limit)
    elif rid.startswith("hung"):
        r = D.hung_run(rng, rid)
    else:
        r = D.random_run(rng, rid, nsteps=nsteps, limit=limit)
    try:
        rec = r.record(rid)
        rec["loop_exceptions"] = [e for e in r.loop_exceptions if "pop from empty list" not in e][:5]
        return rec
    finally:
        r.close()


def run(ctx):
    if ctx.replay:
        return _replay(ctx)
    ctx.rule = ("TLC explores IpReq exhaustively for the listed constants; executions of the real code are seeded random "
                "stimulus sequences; distinct by recorded event sequence; non-trivial if at least one request was written")
    ctx.assume("a write to a socket whose peer already closed may or may not fail immediately (both allowed)",
               "an unsolicited response is only sent while the controller has nothing outstanding (otherwise it is "
               "indistinguishable on the wire from the response to the racing request)",
               "requests are issued on an established or fully lost connection, not in the middle of pair-verify")
    ctx.tlc("ip/IpReq", "IpReq_MCq.cfg" if not ctx.thorough else "IpReq_MCt.cfg",
            label="exhaustive request plane", timeout=3400, coverage=False, require_cover=False)
    # vacuity guard: every action fires in a short random exploration of the richest configuration
    ctx.tlc("ip/IpReq", "IpReq_MC.cfg", simulate="num=4000", depth=40, seed=ctx.seed, workers=4,
            label="simulate with coverage (vacuity guard)", timeout=600)
    ctx.tlc("ip/IpReq", ctx.pick("IpReq_MCq_L2.cfg", "IpReq_MCt_L2.cfg"), label="exhaustive request plane, semaphore capacity 2 (plain connection class)",
            timeout=1800, coverage=False, require_cover=False)
    ctx.tlc("ip/IpReq", "IpReq_Live.cfg", label="liveness NoHang under fairness", timeout=900, coverage=False, require_cover=False)
    n = ctx.pick(400, 6000)
    jobs = [(ctx.seed * 1000003 + i, f"req{i}", [20, 30, 45][i % 3]) for i in range(n)]
    # directed: the tail of a split response and the next EVENT(s) delivered by one read (6 variants, secure session)
    jobs += [(ctx.seed * 999961 + i, f"coal{i}", i % 6) for i in range(ctx.pick(48, 480))]
    # directed: the accessory hangs with a large request unflushed, then sends EOF / is closed by the owner / dies late
    jobs += [(ctx.seed * 999931 + i, f"hung{i}", 0) for i in range(ctx.pick(36, 360))]
    with mp.get_context("fork").Pool(min(16, os.cpu_count() or 4)) as pool:
        recs = pool.map(_run, jobs, chunksize=16)
    for r in recs:
        ctx.case(json.dumps(r["events"], sort_keys=True) if any(e["ev"] == "acc_rx" for e in r["events"]) else None)
    ctx.notes["events_recorded"] = sum(len(r["events"]) for r in recs)
    ctx.notes["requests_issued"] = sum(1 for r in recs for e in r["events"] if e["ev"] == "issue")
    ctx.notes["timeouts_30s_observed"] = sum(1 for r in recs for e in r["events"] if e["ev"] == "ret" and e["res"] == "disconnected")
    rej = tracecheck.validate(ctx, "ip/IpReq_Trace", "IpReq_Trace.cfg", recs, label=f"trace validation ({len(recs)} executions)")
    for j in rej:
        what = (f"execution {j['record']['id'] if j.get('record') else '?'} is not a behaviour of IpReq: "
                + (f"invariant {j['invariant']} violated" if j.get("invariant") else
                   f"event #{j['maxl']} {j['event']} cannot be explained"))
        ctx.violation(what, {"kind": "trace", "record": j.get("record"), "first_unexplained": j.get("event"),
                             "position": j.get("maxl"), "last_matched_state": j.get("last_state")})
    ctx.sample({"recorded_trace_prefix": recs[0]["events"][:30]})
    # the plain connection class with concurrency_limit = 2: several requests outstanding on one socket
    n2 = ctx.pick(250, 3000)
    jobs2 = [(ctx.seed * 999983 + i, f"lim{i}", [20, 30, 45][i % 3], 2) for i in range(n2)]
    # directed: a response already readable when its caller is cancelled in the same loop iteration (6 variants)
    jobs2 += [(ctx.seed * 999979 + i, f"race{i}", i % 6, 2) for i in range(ctx.pick(60, 600))]
    jobs2 += [(ctx.seed * 999953 + i, f"coalp{i}", i % 6, 2) for i in range(ctx.pick(36, 360))]
    with mp.get_context("fork").Pool(min(16, os.cpu_count() or 4)) as pool:
        recs2 = pool.map(_run, jobs2, chunksize=16)
    for r in recs2:
        ctx.case(json.dumps(r["events"], sort_keys=True) if any(e["ev"] == "acc_rx" for e in r["events"]) else None)
    rej = tracecheck.validate(ctx, "ip/IpReq_Trace", "IpReq_Trace_L2.cfg", recs2, label=f"trace validation, capacity 2 ({len(recs2)} executions)")
    for j in rej:
        what = (f"execution {j['record']['id'] if j.get('record') else '?'} (semaphore capacity 2) is not a behaviour of IpReq: "
                + (f"invariant {j['invariant']} violated" if j.get("invariant") else
                   f"event #{j['maxl']} {j['event']} cannot be explained"))
        ctx.violation(what, {"kind": "trace", "record": j.get("record"), "first_unexplained": j.get("event"),
                             "position": j.get("maxl"), "last_matched_state": j.get("last_state")})


def _replay(ctx):
    """--replay <file>: re-execute the recorded execution (same seed => same stimuli) and validate the fresh trace;
    if it cannot be regenerated from its id, re-validate the recorded trace."""
    import re
    rep = json.load(open(ctx.replay))
    seed = rep.get("seed", ctx.seed)
    obj = rep.get("replay") or {}
    if obj.get("kind") == "tlc":
        ctx.tlc(obj["module"][len("spec/"):-4], obj["cfg"], coverage=False, require_cover=False, label="replay: re-run the TLC configuration")
        return
    rec = obj.get("record") or {}
    rid = str(rec.get("id", ""))
    m = re.match(r"(req|lim|race|coalp|coal|hung)(\d+)$", rid)
    fresh = None
    cfg = "IpReq_Trace.cfg"
    if m:
        i = int(m.group(2))
        if m.group(1) == "req":
            fresh = _run((seed * 1000003 + i, rid, [20, 30, 45][i % 3]))
        elif m.group(1) == "coal":
            fresh = _run((seed * 999961 + i, rid, i % 6))
        elif m.group(1) == "hung":
            fresh = _run((seed * 999931 + i, rid, 0))
        elif m.group(1) == "coalp":
            fresh, cfg = _run((seed * 999953 + i, rid, i % 6, 2)), "IpReq_Trace_L2.cfg"
        elif m.group(1) == "lim":
            fresh, cfg = _run((seed * 999983 + i, rid, [20, 30, 45][i % 3], 2)), "IpReq_Trace_L2.cfg"
        else:
            fresh, cfg = _run((seed * 999979 + i, rid, i % 6, 2)), "IpReq_Trace_L2.cfg"
    use = fresh or rec
    ctx.notes["replayed"] = "re-executed" if fresh else "recorded trace re-validated"
    ctx.case(json.dumps(use.get("events", [])))
    ctx.sample({"replayed_trace_prefix": use.get("events", [])[:25]})
    rej = tracecheck.validate(ctx, "ip/IpReq_Trace", cfg, [use], label="replay")
    for j in rej:
        ctx.violation(f"replayed execution {rid} is rejected: "
                      + (f"invariant {j['invariant']} violated" if j.get("invariant") else f"event #{j['maxl']} {j['event']} cannot be explained"),
                      {"kind": "trace", "record": use, "position": j.get("maxl"), "last_matched_state": j.get("last_state")})
