"""C01 - pair-verify yields session keys only for the authentic paired accessory.

(A) TLC: spec/pairing/PairVerify (symbolic, Dolev-Yao style) over the whole reply space, without and with a
    resumable session: AuthOnlyAuthentic, ResumeOnlyWithSecret, FailureYieldsNoKeys, NoSuccessAfterError,
    NoForgeryAccepted, KeysAgree, ProofAccepted, VerdictMatches.
(B) spec -> code: TLC exports reply descriptions with the verdict of the specification (quick: every near miss
    plus a seeded 1/20 sample; thorough: the whole space).  Each is concretised with real keys by the reference
    accessory / attacker tool-box (harness/refacc) against the M1 the real get_session_keys sends and run on the
    real code: the generator (through the library's TLV decoder), and - honest and near-miss replies - through
    SecureHomeKitConnection on SimNet, CoAPHomeKitConnection.do_pair_verify and BlePairing._async_pair_verify.
    A symbolic Corrupt(site) is expanded to single bits / bytes of the field, a truncation to byte positions.
(C) code -> spec: every execution is written as a record (description, M4, keys obtained?, proof M3 sent?) and
    validated by TLC against PairVerify_Trace.
On acceptance the controller's keys (read, write, event) must equal the reference accessory's, the reference
accessory must accept the controller's proof M3 (resume: its request tag), and the transports must install
exactly those keys.
"""
from __future__ import annotations

import glob
import json
import multiprocessing as mp
import os
import random
import shutil
import tempfile

from harness.common import MachineryError

_W = {}


def _world_consts():
    if not _W:
        from harness.refacc import accessory as A
        ident = A.Identity(seed=bytes(range(32)))
        ctrl = A.ControllerIdentity(seed=bytes(range(1, 33)))
        _W["ident"] = ident
        _W["pd"] = ident.pairing_data(ctrl, hosts=("10.0.0.1",))
    return _W["ident"], _W["pd"]


def run_job(job):
    """One execution of the real code.  job: case (exported by TLC), tr (gen/ip/coap/ble), how (concrete
    alteration for Corrupt(site)), cut_bytes (for a truncation inside an item)."""
    from harness import pairing_driver as D
    from harness.refacc import attacker as K
    from harness.refacc import tlv as T
    case, tr = job["case"], job["tr"]
    r = case["r"]
    ident, pd = _world_consts()
    if job.get("fresh"):                 # fresh pairing record: accessory identity and key, controller id and key
        from harness.refacc import accessory as A
        frng = random.Random(job["fresh"])
        ident = A.Identity(acc_id=":".join("%02X" % frng.randrange(256) for _ in range(6)), seed=frng.randbytes(32))
        ctrl = A.ControllerIdentity(ios_id="%08x-%04x-%04x-%04x-%012x" % (frng.getrandbits(32), frng.getrandbits(16), frng.getrandbits(16),
                                                                           frng.getrandbits(16), frng.getrandbits(48)), seed=frng.randbytes(32))
        pd = ident.pairing_data(ctrl, hosts=("10.0.0.1",))
    world = K.PVWorld(ident, resume=case["resume"])
    info = {"m2": None, "m3_verdict": "not sent", "m1_verdict": None}

    def hook(acc, step, items, honest):
        if step == "PV_M2" and info["m2"] is None:
            honest()
            world.on_m1(acc.pv, items)
            if case["resume"]:
                info["m1_verdict"] = K.resume_check_m1(world.S0, world.old_sid, items)
            info["m2"] = world.build_m2(r, case["wire"], case["partial"], job.get("how"), job.get("cut_bytes"))
            return info["m2"]
        if step == "PV_M4":
            if world.presented is not None and world.presented is acc.pv.eph:
                honest()                         # the honest accessory verifies M3 (and installs its session on IP)
                info["m3_verdict"] = None if acc.m3_ok else acc.pv.error
            else:
                acc.m3_seen = True
                info["m3_verdict"] = world.check_m3(items)
            m4 = case["m4"]
            return T.enc({"ok": [(T.STATE, b"\x04")], "wrong": [(T.STATE, b"\x02")],
                          "auth": [(T.STATE, b"\x04"), (T.ERROR, b"\x02")]}[m4])
        return None

    acc = D.ScriptedAccessory(ident=ident, hook=hook)
    resume_state = world.resume_state() if case["resume"] else None
    try:
        if tr == "gen":
            sid, derive = resume_state or (None, None)
            o = D.gen_pair_verify(acc, pd, sid, derive, real_decoder=True)
        elif tr == "ip":
            o = D.ip_pair_verify(acc, pd)
        elif tr == "coap":
            o = D.coap_pair_verify(acc, pd)
        else:
            o = D.ble_pair_verify(acc, pd, resume=resume_state)
    except BaseException as ex:  # noqa: BLE001
        return {"observed": "baseexc", "exc": repr(ex), "m3sent": acc.m3_seen, "problems": [], "m2": (info["m2"] or b"").hex()}
    res = {"observed": "ok" if o.ok else "fail", "exc": None if o.ok else repr(o.exc), "m3sent": bool(acc.m3_seen),
           "m2": (info["m2"] or b"").hex(), "problems": []}
    if info["m2"] is None:
        res["observed"] = "machinery"
        res["exc"] = f"M1 never arrived ({o!r})"
        return res
    pr = res["problems"]
    if o.ok:
        resumed = not acc.m3_seen
        shared = world.reference_shared(resumed)
        if shared is None:
            pr.append("keys were produced although no usable public key was presented")
        else:
            ref = K.session_keys(shared)
            if tr == "gen":
                got = o.extra["keys"]
                for k in ("a2c", "c2a", "event"):
                    if got[k] != ref[k]:
                        pr.append(f"controller's {k} key differs from the accessory's")
                want_sid = world.sent_sid if resumed else K.resume_session_id(shared)
                if o.extra["session_id"] != want_sid:
                    pr.append("returned session id is not the one a conformant accessory holds for resumption")
            elif tr == "coap":
                p = D.coap_keys_agree(o, ref)
                if p:
                    pr.append(p)
            elif tr == "ble":
                p = D.ble_keys_agree(o, ref)
                if p:
                    pr.append(p)
                want_sid = world.sent_sid if resumed else K.resume_session_id(shared)
                if bytes(o.extra["session_id"] or b"") != want_sid:
                    pr.append("BlePairing stored a session id that the accessory does not hold")
                elif o.extra["derive"] is None or \
                        bytes(o.extra["derive"](b"Control-Salt", b"Control-Read-Encryption-Key")) != ref["a2c"]:
                    pr.append("BlePairing stored a resume secret that differs from the accessory's")
            elif tr == "ip":
                if o.extra.get("session_unusable"):
                    pr.append("encrypted request after pair-verify failed: " + o.extra["session_unusable"])
        if resumed:
            if info["m1_verdict"] is not None:
                pr.append(f"conformant accessory rejects the controller's resume request ({info['m1_verdict']})")
        elif info["m3_verdict"] is not None:
            pr.append(f"conformant accessory rejects the controller's proof M3 ({info['m3_verdict']})")
    else:
        if tr == "ip" and (o.extra.get("connected") or o.extra.get("secure_requests")):
            pr.append("IP: a session exists after a failed pair-verify")
        if tr == "coap" and o.extra.get("enc_ctx"):
            pr.append("CoAP: an encryption context exists after a failed pair-verify")
        if tr == "ble" and o.extra.get("installed"):
            pr.append("BLE: keys installed after a failed pair-verify")
    return res


def _work(job):
    try:
        return run_job(job)
    except Exception:  # noqa: BLE001
        import traceback
        return {"observed": "machinery", "exc": traceback.format_exc()[-1500:], "m3sent": False, "problems": []}


def _short(case, job=None):
    r = case["r"]
    hon = {"st": "ok", "err": "none", "pub": "eA", "enc": "sub", "key": "I_A", "nonce": "PV-Msg02", "id": "AccId", "sigp": True,
           "signer": "accLT", "tr": "correct", "corrupt": "none", "layout": "canon", "cut": 0, "method": "absent", "sid": "absent"}
    if case["resume"] and r["method"] != "absent":
        hon.update({"pub": "absent", "enc": "tag", "sigp": False, "method": "resume", "sid": "new"})
    diff = {k: r[k] for k in hon if r[k] != hon[k]}
    if r["enc"] == "tag":
        diff["tag"] = r["tag"]
    s = f"M2 = honest{' resume' if case['resume'] else ''} reply with {diff or 'no change'}"
    if case["m4"] != "ok":
        s += f", M4={case['m4']}"
    if job is not None:
        s += f" via {job['tr']}"
        if job.get("how"):
            s += f" alteration={job['how']}"
        if job.get("cut_bytes"):
            s += f" cut {job['cut_bytes']} bytes into the next item"
    return s


def _jobs(ctx, cases, lens):
    """Which executions: every exported case on the generator; near misses on the transports; expansions."""
    from harness.refacc import attacker as K
    rng = random.Random(ctx.seed ^ 0xC01)
    jobs = []
    for c in cases:
        r = c["r"]
        base = {"case": c, "tr": "gen"}
        near = c["dist"] <= 1
        trs = ["gen"]
        if c["resume"]:
            if near or c["dist"] <= 2 or ctx.thorough or rng.random() < 0.25:
                trs.append("ble")
        else:
            eligible = not (c["verdict"] == "ok" and r["pub"] != "eA")      # transports need the eA accessory on success
            if eligible and (near or (c["dist"] == 2 and (ctx.thorough or rng.random() < 0.5))
                             or (ctx.thorough and rng.random() < 0.05)):
                trs += ["ip", "coap", "ble"]
        for tr in trs:
            j = dict(base, tr=tr)
            if r["corrupt"] != "none":
                n = lens[(r["corrupt"], r["enc"], r["id"])]
                if near and tr == "gen":
                    for how in K.corruptions(n, rng, every=ctx.thorough):
                        jobs.append(dict(j, how=how))
                    continue
                elif near:
                    for how in K.corruptions(n, rng, every=False, sample=2):
                        jobs.append(dict(j, how=how))
                    continue
                j["how"] = ("bit", rng.randrange(n * 8)) if rng.random() < 0.7 else ("byte", rng.randrange(n), rng.randrange(256))
            if c["partial"]:
                n = lens[("item", tuple(map(tuple, c["wire"])), r["pub"], r["enc"], r["err"], r["method"], r["sid"])]
                if near and tr == "gen":
                    cuts = range(1, n) if ctx.thorough else sorted({1, n - 1, rng.randrange(1, n), rng.randrange(1, n)})
                    for cb in cuts:
                        jobs.append(dict(j, cut_bytes=cb))
                    continue
                j["cut_bytes"] = rng.randrange(1, n)
            jobs.append(j)
    # honest exchanges and single-deviation replies over fresh pairing records (identities, keys, identifiers)
    base = [c for c in cases if c["dist"] <= 1 and c["r"]["corrupt"] == "none" and not c["partial"]]
    for _ in range(ctx.pick(60, 1500)):
        c = rng.choice(base)
        trs = ["gen", "ble"] if c["resume"] else (["gen", "ip", "coap", "ble"] if not (c["verdict"] == "ok" and c["r"]["pub"] != "eA") else ["gen"])
        jobs.append({"case": c, "tr": rng.choice(trs), "fresh": rng.getrandbits(48) | 1})
    return jobs


def _field_lengths(cases):
    """Lengths of the corruptible fields / of the item a truncation cuts into (from a dry concretisation)."""
    from harness.refacc import accessory as A
    from harness.refacc import attacker as K
    from harness.refacc import crypto as C
    from harness.refacc import tlv as T
    ident, _ = _world_consts()
    lens = {}
    for c in cases:
        r = c["r"]
        need_c = r["corrupt"] != "none" and (r["corrupt"], r["enc"], r["id"]) not in lens
        key_i = ("item", tuple(map(tuple, c["wire"])), r["pub"], r["enc"], r["err"], r["method"], r["sid"])
        need_i = c["partial"] and key_i not in lens
        if not (need_c or need_i):
            continue
        w = K.PVWorld(ident, resume=c["resume"])
        pv = A.PairVerify(ident)
        m1 = [(T.STATE, b"\x01"), (T.PUBLIC_KEY, C.DhKey().pk), (T.ENCRYPTED_DATA, bytes(16))]
        pv.on_m1(m1)
        w.on_m1(pv, m1)
        if need_c:
            lens[(r["corrupt"], r["enc"], r["id"])] = w.field_len(r, r["corrupt"])
        if need_i:
            lens[key_i] = w.next_item_len(r, len(c["wire"]))
    return lens


def run(ctx):
    import aiohomekit  # noqa: F401
    ctx.rule = ("a case = symbolic description of the accessory's M2 (presented key, sealing key and nonce, identifier, signer, "
                "signed transcript, corrupted field, item layout, truncation, resumption fields) x M4, enumerated by TLC from "
                "spec/pairing/PairVerify.tla, x transport x concrete alteration; non-trivial = differs from the honest reply")
    ctx.assume("symbolic cryptography: X25519 / HKDF / ChaCha20-Poly1305 / Ed25519 are ideal in the model; bit-level coverage of "
               "Corrupt(site) and of truncations comes from the expansion in the concretiser, not from TLC",
               "C01/C03 'fails with an error' = any Exception out of the generator / transport call (DESIGN.md 4.2)",
               "replies whose *used* values are the authentic ones although the wire differs (items reordered, an item that a "
               "later item of the same type replaces) may be accepted or rejected; if accepted the keys must be the accessory's",
               "a missing State item and error codes other than Authentication are C04's subject")
    if ctx.replay:
        return _replay(ctx)
    tmp = tempfile.mkdtemp(prefix="c01_")
    try:
        cases = []
        for cfg, rate in (("PairVerify_Cases_full.cfg", ctx.pick(20, 1)), ("PairVerify_Cases_resume.cfg", 1)):
            out = os.path.join(tmp, cfg + ".ndjson")
            ctx.tlc("pairing/PairVerify_Cases", cfg, env={"CASES_OUT": out, "RATE": rate, "SEED": ctx.seed % 100000},
                    label=f"symbolic pair-verify, whole reply space; export rate 1/{rate} + near misses", timeout=1500)
            n0 = len(cases)
            for f in sorted(glob.glob(out + ".*")):
                cases += [json.loads(line) for line in open(f)]
            if len(cases) - n0 < 100:
                raise MachineryError(f"{cfg}: only {len(cases) - n0} cases exported")
        if not any(c["honest"] and c["verdict"] == "ok" for c in cases):
            raise MachineryError("the honest exchange is not among the exported cases")
        cases.sort(key=lambda c: json.dumps(c, sort_keys=True))
        lens = _field_lengths(cases)
        jobs = _jobs(ctx, cases, lens)
        with mp.get_context("fork").Pool(16) as pool:
            results = pool.map(_work, jobs, chunksize=32)
        groups = {}
        recs = []
        tolerated = 0
        for j, res in zip(jobs, results):
            c = j["case"]
            if res["observed"] == "machinery":
                raise MachineryError(f"{_short(c, j)}: {res['exc']}")
            ctx.case((json.dumps(c["r"], sort_keys=True), c["m4"], c["resume"], j["tr"], str(j.get("how")), j.get("cut_bytes"),
                      j.get("fresh")) if not c["honest"] else None)
            bad = []
            if res["observed"] == "baseexc":
                bad.append(("raised a BaseException", res["exc"]))
            if c["verdict"] == "fail" and res["observed"] == "ok":
                bad.append((f"was ACCEPTED (keys returned) although the specification rejects it at '{c['stage']}'", None))
            if not c["m3"] and res["m3sent"]:
                bad.append((f"made the controller send its proof M3 although the specification rejects M2 at '{c['stage']}'", None))
            if c["verdict"] == "ok" and res["observed"] != "ok":
                if c["honest"]:
                    bad.append(("honest exchange failed", res["exc"]))
                else:
                    tolerated += 1
            for p in res["problems"]:
                bad.append((p, None))
            recs.append({"r": c["r"], "m4": c["m4"], "resume": c["resume"], "observed": "ok" if res["observed"] == "ok" else "fail",
                         "m3sent": bool(res["m3sent"])})
            if bad:
                for what, exc in bad:
                    groups.setdefault((what, j["tr"], c["resume"]), []).append((j, res, exc))
            else:
                ctx.trace_ok()
            if len(ctx.samples) < 4 and j["tr"] in ("ip", "ble") and c["dist"] == 1 and c["stage"] in ("sig", "aead", "resume", "ident"):
                ctx.sample({"case": {"r": c["r"], "m4": c["m4"], "spec_verdict": c["verdict"], "spec_stage": c["stage"]},
                            "transport": j["tr"], "m2_bytes": res["m2"], "observed": res["observed"], "exception": res["exc"]})
        for (what, tr, resume), items in sorted(groups.items(), key=lambda kv: (kv[0][0], kv[0][1], kv[0][2])):
            j, res, exc = items[0]
            ctx.violation(f"{_short(j['case'], j)}: {what}{' - ' + exc if exc else ''}  [{len(items)} executions fail this way]",
                          {"kind": "job", "job": _jsonable_job(j), "result": res,
                           "more": [_short(x[0]["case"], x[0]) for x in items[1:6]]})
        ctx.notes["cases_exported"] = len(cases)
        ctx.notes["executions"] = len(jobs)
        ctx.notes["executions_by_transport"] = {t: sum(1 for j in jobs if j["tr"] == t) for t in ("gen", "ip", "coap", "ble")}
        ctx.notes["authentic_but_unusual_replies_rejected_by_the_code"] = tolerated
        # ---------------- (C) TLC validates every execution
        for resume, cfg in ((False, "PairVerify_Trace_full.cfg"), (True, "PairVerify_Trace_resume.cfg")):
            part = [x for x in recs if x["resume"] == resume]
            tf = os.path.join(tmp, f"trace_{int(resume)}.ndjson")
            with open(tf, "w") as f:
                for x in part:
                    f.write(json.dumps(x) + "\n")
            res = ctx.tlc("pairing/PairVerify_Trace", cfg, env={"TRACE_FILE": tf}, expect_violation=True, require_cover=False,
                          label="executions of the real code validated against the symbolic model", timeout=1500)
            if not res.ok and not groups:
                from harness import tlc as TL
                ce = TL.parse_counterexample(res.violation["trace"])
                tid = ce[-1][1].get("tid") if ce else None
                rec = part[tid - 1] if isinstance(tid, int) and 0 < tid <= len(part) else None
                ctx.violation(f"execution rejected by PairVerify_Trace ({res.violation['name']}): {rec}",
                              {"kind": "record", "record": rec, "tlc": res.violation["name"]})
        ctx.exhaustive = bool(ctx.thorough)
    finally:
        shutil.rmtree(tmp, ignore_errors=True)


def _jsonable_job(j):
    return {"case": j["case"], "tr": j["tr"], "how": list(j["how"]) if j.get("how") else None, "cut_bytes": j.get("cut_bytes"),
            "fresh": j.get("fresh", 0)}


def _replay(ctx):
    data = json.load(open(ctx.replay))
    j = data["replay"]["job"]
    if j.get("how"):
        j["how"] = tuple(j["how"])
    res = run_job(j)
    c = j["case"]
    print(f"replay: {_short(c, j)} -> {res}")
    ctx.case(1)
    bad = (c["verdict"] == "fail" and res["observed"] == "ok") or (not c["m3"] and res["m3sent"]) or res["problems"] \
        or (c["honest"] and res["observed"] != "ok")
    if bad:
        ctx.violation(f"{_short(c, j)}: observed {res['observed']} (M3 sent: {res['m3sent']}, {res['problems']}); "
                      f"specification: {c['verdict']} at '{c['stage']}'", {"kind": "job", "job": _jsonable_job(j), "result": res})
    else:
        ctx.trace_ok()
