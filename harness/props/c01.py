"""C01 - pair-verify yields session keys only for the authentic paired accessory.

(A) TLC: spec/pairing/PairVerify (symbolic, Dolev-Yao style) over the whole reply space, without and with a
    resumable session: AuthOnlyAuthentic, ResumeOnlyWithSecret, FailureYieldsNoKeys, NoSuccessAfterError,
    NoForgeryAccepted, KeysAgree, ProofAccepted, VerdictMatches.
(B) spec -> code: TLC exports reply descriptions with the verdict of the specification (quick: every near miss
    plus a seeded 1/20 sample; thorough: the whole space).  Each is concretised with real keys by the reference
    accessory / attacker tool-box (harness/refacc) against the M1 the real get_session_keys sends and run on the
    real code: the generator (through the library's TLV decoder), and - honest and near-miss replies - through
    SecureHomeKitConnection on SimNet, CoAPHomeKitConnection.do_pair_verify and BlePairing._async_pair_verify.
    A symbolic Corrupt(site) is expanded to single bits / bytes of the field, a truncation to byte positions.
(C) code -> spec: every execution is written as a record (description, M4, keys obtained?, proof M3 sent?) and
    validated by TLC against PairVerify_Trace.
On acceptance the controller's keys (read, write, event) must equal the reference accessory's, the reference
accessory must accept the controller's proof M3 (resume: its request tag), and the transports must install
exactly those keys.
"""
from __future__ import annotations

import glob
import json
import multiprocessing as mp
import os
import random
import shutil
import tempfile

from harness.common import MachineryError

_W = {}
_SEEN_M1 = set()          # controller exchange keys seen in M1 by this process (every exchange must bring a fresh one)


def _world_consts():
    if not _W:
        from harness.refacc import accessory as A
        # real pairing ids look like "C2:9B:0A:..."; this one has upper-case hex letters, lower-case letters and digits
        ident = A.Identity(acc_id="C2:9B:0a:fE:d7:45", seed=bytes(range(32)))
        ctrl = A.ControllerIdentity(seed=bytes(range(1, 33)))
        _W["ident"] = ident
        _W["pd"] = ident.pairing_data(ctrl, hosts=("10.0.0.1",))
    return _W["ident"], _W["pd"]


def run_job(job):
    """One execution of the real code.  job: case (exported by TLC), tr (gen/ip/coap/ble), how (concrete
    alteration for Corrupt(site)), cut_bytes (for a truncation inside an item)."""
    from harness import pairing_driver as D
    from harness.refacc import attacker as K
    from harness.refacc import tlv as T
    case, tr = job["case"], job["tr"]
    r = case["r"]
    ident, pd = _world_consts()
    if job.get("fresh"):                 # fresh pairing record: accessory identity and key, controller id and key
        from harness.refacc import accessory as A
        frng = random.Random(job["fresh"])
        ident = A.Identity(acc_id=":".join("%02X" % frng.randrange(256) for _ in range(6)), seed=frng.randbytes(32))
        ctrl = A.ControllerIdentity(ios_id="%08x-%04x-%04x-%04x-%012x" % (frng.getrandbits(32), frng.getrandbits(16), frng.getrandbits(16),
                                                                           frng.getrandbits(16), frng.getrandbits(48)), seed=frng.randbytes(32))
        pd = ident.pairing_data(ctrl, hosts=("10.0.0.1",))
    rec = job.get("record")
    if rec:                              # an explicit pairing record (sequences of exchanges over several records in one process)
        from harness.refacc import accessory as A
        ident = A.Identity(acc_id=rec["acc_id"], seed=bytes.fromhex(rec["lt_seed"]))
        ctrl = A.ControllerIdentity(ios_id=rec["ios_id"], seed=bytes.fromhex(rec["ctrl_seed"]))
        pd = ident.pairing_data(ctrl, hosts=("10.0.0.1",))
    world = K.PVWorld(ident, resume=case["resume"])
    if rec and rec.get("other_lt_seed"):
        from harness.refacc import crypto as C
        world.other_lt = C.SigKey(bytes.fromhex(rec["other_lt_seed"]))
    if rec and rec.get("other_id"):
        world.other_id = rec["other_id"].encode()
    info = {"m2": None, "m3_verdict": "not sent", "m1_verdict": None, "stale_key": False}
    recorded = None
    if job.get("real_replay"):
        # an honest exchange run by the real code in this process; what the accessory answered is recorded ...
        first = D.ScriptedAccessory(ident=ident)
        o1 = {"gen": lambda: D.gen_pair_verify(first, pd, real_decoder=True), "ip": lambda: D.ip_pair_verify(first, pd),
              "coap": lambda: D.coap_pair_verify(first, pd), "ble": lambda: D.ble_pair_verify(first, pd)}[tr]()
        recorded = dict(first.replies)
        if not o1.ok or "PV_M2" not in recorded or "PV_M4" not in recorded:
            return {"observed": "fail", "exc": repr(o1.exc), "m3sent": False, "m2": "",
                    "problems": ["the honest exchange that was to be recorded failed"]}
        _SEEN_M1.add(bytes(dict(first.log[0][1])[T.PUBLIC_KEY]))

    def hook(acc, step, items, honest):
        if step == "PV_M2" and info["m2"] is None:
            pk1 = bytes(dict(items).get(T.PUBLIC_KEY, b""))
            if pk1 in _SEEN_M1:
                info["stale_key"] = True
            _SEEN_M1.add(pk1)
            if recorded is not None:     # ... and sent again, unchanged, in a new exchange
                honest()
                info["m2"] = recorded["PV_M2"]
                return info["m2"]
            honest()
            world.on_m1(acc.pv, items)
            if case["resume"]:
                info["m1_verdict"] = K.resume_check_m1(world.S0, world.old_sid, items)
            info["m2"] = world.build_m2(r, case["wire"], case["partial"], job.get("how"), job.get("cut_bytes"))
            return info["m2"]
        if step == "PV_M4" and recorded is not None:
            acc.m3_seen = True
            return recorded["PV_M4"]
        if step == "PV_M4":
            if world.presented is not None and world.presented is acc.pv.eph:
                honest()                         # the honest accessory verifies M3 (and installs its session on IP)
                info["m3_verdict"] = None if acc.m3_ok else acc.pv.error
            else:
                acc.m3_seen = True
                info["m3_verdict"] = world.check_m3(items)
            m4 = case["m4"]
            fixed = {"ok": [(T.STATE, b"\x04")], "wrong": [(T.STATE, b"\x02")], "empty": [(T.STATE, b"")],
                     "trailing": [(T.STATE, b"\x04\xff")]}
            return T.enc(fixed[m4] if m4 in fixed else [(T.STATE, b"\x04"), (T.ERROR, K.error_value(m4))])
        return None

    acc = D.ScriptedAccessory(ident=ident, hook=hook)
    resume_state = world.resume_state() if case["resume"] else None
    try:
        if tr == "gen":
            sid, derive = resume_state or (None, None)
            o = D.gen_pair_verify(acc, pd, sid, derive, real_decoder=True)
        elif tr == "ip":
            o = D.ip_pair_verify(acc, pd)
        elif tr == "coap":
            o = D.coap_pair_verify(acc, pd)
        else:
            o = D.ble_pair_verify(acc, pd, resume=resume_state)
    except BaseException as ex:  # noqa: BLE001
        return {"observed": "baseexc", "exc": repr(ex), "m3sent": acc.m3_seen, "problems": [], "m2": (info["m2"] or b"").hex()}
    res = {"observed": "ok" if o.ok else "fail", "exc": None if o.ok else repr(o.exc), "m3sent": bool(acc.m3_seen),
           "m2": (info["m2"] or b"").hex(), "problems": []}
    if info["m2"] is None:
        res["observed"] = "machinery"
        res["exc"] = f"M1 never arrived ({o!r})"
        return res
    pr = res["problems"]
    if info["stale_key"]:
        pr.append("the controller's exchange key in M1 was already used by an earlier exchange of this process (not fresh)")
    if o.ok and recorded is not None:
        return res
    if o.ok:
        resumed = not acc.m3_seen
        shared = world.reference_shared(resumed)
        if shared is None:
            pr.append("keys were produced although no usable public key was presented")
        else:
            ref = K.session_keys(shared)
            if tr == "gen":
                got = o.extra["keys"]
                for k in ("a2c", "c2a", "event"):
                    if got[k] != ref[k]:
                        pr.append(f"controller's {k} key differs from the accessory's")
                want_sid = world.sent_sid if resumed else K.resume_session_id(shared)
                if o.extra["session_id"] != want_sid:
                    pr.append("returned session id is not the one a conformant accessory holds for resumption")
            elif tr == "coap":
                p = D.coap_keys_agree(o, ref)
                if p:
                    pr.append(p)
            elif tr == "ble":
                p = D.ble_keys_agree(o, ref)
                if p:
                    pr.append(p)
                want_sid = world.sent_sid if resumed else K.resume_session_id(shared)
                if bytes(o.extra["session_id"] or b"") != want_sid:
                    pr.append("BlePairing stored a session id that the accessory does not hold")
                elif o.extra["derive"] is None or \
                        bytes(o.extra["derive"](b"Control-Salt", b"Control-Read-Encryption-Key")) != ref["a2c"]:
                    pr.append("BlePairing stored a resume secret that differs from the accessory's")
            elif tr == "ip":
                if o.extra.get("session_unusable"):
                    pr.append("encrypted request after pair-verify failed: " + o.extra["session_unusable"])
        if resumed:
            if info["m1_verdict"] is not None:
                pr.append(f"conformant accessory rejects the controller's resume request ({info['m1_verdict']})")
        elif info["m3_verdict"] is not None:
            pr.append(f"conformant accessory rejects the controller's proof M3 ({info['m3_verdict']})")
    else:
        if tr == "ip" and (o.extra.get("connected") or o.extra.get("secure_requests")):
            pr.append("IP: a session exists after a failed pair-verify")
        if tr == "coap" and o.extra.get("enc_ctx"):
            pr.append("CoAP: an encryption context exists after a failed pair-verify")
        if tr == "ble" and o.extra.get("installed"):
            pr.append("BLE: keys installed after a failed pair-verify")
    return res


def _work(job):
    try:
        return run_job(job)
    except Exception:  # noqa: BLE001
        import traceback
        return {"observed": "machinery", "exc": traceback.format_exc()[-1500:], "m3sent": False, "problems": []}


def _work_unit(unit):
    """A unit is a list of jobs run one after the other in the same process."""
    return [_work(j) for j in unit]


def _sequences(ctx, cases):
    """Sequences of exchanges in one process over several pairing records - records that share the identifier but
    differ in the long-term key (accessory reset and paired again) and vice versa.  Every exchange is a case of the
    specification judged against ITS record: honest accessory of that record; an impostor holding the long-term key of
    another record ('otherLT'); an accessory of another record presenting its identifier ('OtherId')."""
    rng = random.Random(ctx.seed ^ 0x5E9)
    plain = [c for c in cases if not c["resume"] and c["m4"] == "ok" and c["r"]["st"] == "ok" and c["r"]["err"] == "none"
             and c["r"]["corrupt"] == "none" and c["r"]["layout"] == "canon" and c["r"]["cut"] == 0]
    hon = next((c for c in plain if c["honest"]), None)
    imp = next((c for c in plain if c["dist"] == 1 and c["r"]["signer"] == "otherLT"), None)
    oid = next((c for c in plain if c["dist"] == 2 and c["r"]["id"] == "OtherId" and c["r"]["tr"] == "otherId"), None)
    if not (hon and imp and oid):
        raise MachineryError("the cases needed for the multi-record sequences were not exported")
    units = []
    for n in range(ctx.pick(12, 120)):
        mac = ["%02x" % rng.randrange(256) for _ in range(6)]
        x = ":".join(mac).upper() if n % 2 else ":".join(mac)
        y = ":".join(reversed(mac)).upper()
        k1, k2 = rng.randbytes(32).hex(), rng.randbytes(32).hex()
        ctrl = {"ios_id": "%08x-aaaa-bbbb-cccc-%012x" % (rng.getrandbits(32), rng.getrandbits(48)), "ctrl_seed": rng.randbytes(32).hex()}
        tr = ["gen", "ble", "ip", "coap"][n % 4]

        def job(case, acc_id, lt, other_lt=None, other_id=None):
            return {"case": case, "tr": tr, "seq": n,
                    "record": dict(ctrl, acc_id=acc_id, lt_seed=lt, other_lt_seed=other_lt, other_id=other_id)}
        units.append([job(hon, x, k1),                    # record (X, K1)
                      job(hon, x, k2),                    # accessory reset and paired again: record (X, K2)
                      job(imp, x, k2, other_lt=k1),       # holder of the old key K1 against record (X, K2)
                      job(hon, x, k1),                    # back to (X, K1)
                      job(imp, x, k1, other_lt=k2),
                      job(hon, y, k2),                    # same key, other identifier: record (Y, K2)
                      job(oid, y, k2, other_id=x),        # accessory answering as X to the controller of record (Y, K2)
                      job(hon, x, k2)])
    return units


def _short(case, job=None):
    r = case["r"]
    hon = {"st": "ok", "err": "none", "pub": "eA", "enc": "sub", "key": "I_A", "nonce": "PV-Msg02", "id": "AccId", "sigp": True,
           "signer": "accLT", "tr": "correct", "corrupt": "none", "layout": "canon", "cut": 0, "method": "absent", "sid": "absent"}
    if case["resume"] and r["method"] != "absent":
        hon.update({"pub": "absent", "enc": "tag", "sigp": False, "method": "resume", "sid": "new"})
    diff = {k: r[k] for k in hon if r[k] != hon[k]}
    if r["enc"] == "tag":
        diff["tag"] = r["tag"]
    s = f"M2 = honest{' resume' if case['resume'] else ''} reply with {diff or 'no change'}"
    if case["m4"] != "ok":
        s += f", M4={case['m4']}"
    if job is not None:
        s += f" via {job['tr']}"
        if job.get("real_replay"):
            s += " [M2 and M4 are the bytes recorded from a real honest exchange run just before in the same process]"
        if job.get("record"):
            rc = job["record"]
            s += (f" [sequence {job.get('seq')}: pairing record id={rc['acc_id']} LTPK-seed={rc['lt_seed'][:8]}.."
                  f"{', otherLT-seed=' + rc['other_lt_seed'][:8] + '..' if rc.get('other_lt_seed') else ''}"
                  f"{', OtherId=' + rc['other_id'] if rc.get('other_id') else ''}]")
        if job.get("how"):
            s += f" alteration={job['how']}"
        if job.get("cut_bytes"):
            s += f" cut {job['cut_bytes']} bytes into the next item"
    return s


def _jobs(ctx, cases, lens):
    """Which executions: every exported case on the generator; near misses on the transports; expansions."""
    from harness.refacc import attacker as K
    rng = random.Random(ctx.seed ^ 0xC01)
    jobs = []
    for c in cases:
        r = c["r"]
        base = {"case": c, "tr": "gen"}
        near = c["dist"] <= 1
        trs = ["gen"]
        if c["resume"]:
            if near or c["dist"] <= 2 or ctx.thorough or rng.random() < 0.25:
                trs.append("ble")
        else:
            eligible = not (c["verdict"] == "ok" and r["pub"] != "eA")      # transports need the eA accessory on success
            errval = r["err"] not in ("none", "auth") or c["m4"] not in ("ok", "wrong", "auth", "empty", "trailing")
            if eligible and (near or errval or (c["dist"] == 2 and (ctx.thorough or rng.random() < 0.5))
                             or (ctx.thorough and rng.random() < 0.05)):
                trs += ["ip", "coap", "ble"]
        for tr in trs:
            j = dict(base, tr=tr)
            if r["corrupt"] != "none":
                n = lens[(r["corrupt"], r["enc"], r["id"])]
                if near and tr == "gen":
                    # every single bit and every byte of the field, in every tier (cheap on the generator)
                    for how in K.corruptions(n, rng, every=True):
                        jobs.append(dict(j, how=how))
                    continue
                elif near:
                    for how in K.corruptions(n, rng, every=False, sample=2):
                        jobs.append(dict(j, how=how))
                    continue
                j["how"] = ("bit", rng.randrange(n * 8)) if rng.random() < 0.7 else ("byte", rng.randrange(n), rng.randrange(256))
            if c["partial"]:
                n = lens[("item", tuple(map(tuple, c["wire"])), r["pub"], r["enc"], r["err"], r["method"], r["sid"])]
                if near and tr == "gen":
                    cuts = range(1, n) if ctx.thorough else sorted({1, n - 1, rng.randrange(1, n), rng.randrange(1, n)})
                    for cb in cuts:
                        jobs.append(dict(j, cut_bytes=cb))
                    continue
                j["cut_bytes"] = rng.randrange(1, n)
            jobs.append(j)
    # the M2 / M4 of a REAL earlier exchange of the same process sent again into a new exchange
    for c in cases:
        if c.get("recorded") and c["r"]["st"] == "ok" and c["r"]["err"] == "none" and not c["resume"]:
            for tr in ("gen", "ip", "coap", "ble"):
                for _ in range(ctx.pick(3, 25)):
                    jobs.append({"case": c, "tr": tr, "real_replay": True})
    # honest exchanges and single-deviation replies over fresh pairing records (identities, keys, identifiers)
    base = [c for c in cases if c["dist"] <= 1 and c["r"]["corrupt"] == "none" and not c["partial"]]
    for _ in range(ctx.pick(60, 1500)):
        c = rng.choice(base)
        trs = ["gen", "ble"] if c["resume"] else (["gen", "ip", "coap", "ble"] if not (c["verdict"] == "ok" and c["r"]["pub"] != "eA") else ["gen"])
        jobs.append({"case": c, "tr": rng.choice(trs), "fresh": rng.getrandbits(48) | 1})
    return jobs


def _field_lengths(cases):
    """Lengths of the corruptible fields / of the item a truncation cuts into (from a dry concretisation)."""
    from harness.refacc import accessory as A
    from harness.refacc import attacker as K
    from harness.refacc import crypto as C
    from harness.refacc import tlv as T
    ident, _ = _world_consts()
    lens = {}
    for c in cases:
        r = c["r"]
        need_c = r["corrupt"] != "none" and (r["corrupt"], r["enc"], r["id"]) not in lens
        key_i = ("item", tuple(map(tuple, c["wire"])), r["pub"], r["enc"], r["err"], r["method"], r["sid"])
        need_i = c["partial"] and key_i not in lens
        if not (need_c or need_i):
            continue
        w = K.PVWorld(ident, resume=c["resume"])
        pv = A.PairVerify(ident)
        m1 = [(T.STATE, b"\x01"), (T.PUBLIC_KEY, C.DhKey().pk), (T.ENCRYPTED_DATA, bytes(16))]
        pv.on_m1(m1)
        w.on_m1(pv, m1)
        if need_c:
            lens[(r["corrupt"], r["enc"], r["id"])] = w.field_len(r, r["corrupt"])
        if need_i:
            lens[key_i] = w.next_item_len(r, len(c["wire"]))
    return lens


def run(ctx):
    import aiohomekit  # noqa: F401
    ctx.rule = ("a case = symbolic description of the accessory's M2 (presented key, sealing key and nonce, identifier, signer, "
                "signed transcript, corrupted field, item layout, truncation, resumption fields) x M4, enumerated by TLC from "
                "spec/pairing/PairVerify.tla, x transport x concrete alteration; non-trivial = differs from the honest reply")
    ctx.assume("symbolic cryptography: X25519 / HKDF / ChaCha20-Poly1305 / Ed25519 are ideal in the model; bit-level coverage of "
               "Corrupt(site) and of truncations comes from the expansion in the concretiser, not from TLC",
               "C01/C03 'fails with an error' = any Exception out of the generator / transport call (DESIGN.md 4.2)",
               "replies whose *used* values are the authentic ones although the wire differs (items reordered, an item that a "
               "later item of the same type replaces) may be accepted or rejected; if accepted the keys must be the accessory's",
               "a missing State item and error codes other than Authentication are C04's subject")
    if ctx.replay:
        return _replay(ctx)
    tmp = tempfile.mkdtemp(prefix="c01_")
    try:
        cases = []
        for cfg, rate in (("PairVerify_Cases_full.cfg", ctx.pick(20, 1)), ("PairVerify_Cases_resume.cfg", 1)):
            out = os.path.join(tmp, cfg + ".ndjson")
            ctx.tlc("pairing/PairVerify_Cases", cfg, env={"CASES_OUT": out, "RATE": rate, "SEED": ctx.seed % 100000},
                    label=f"symbolic pair-verify, whole reply space; export rate 1/{rate} + near misses", timeout=1500)
            n0 = len(cases)
            for f in sorted(glob.glob(out + ".*")):
                cases += [json.loads(line) for line in open(f)]
            if len(cases) - n0 < 100:
                raise MachineryError(f"{cfg}: only {len(cases) - n0} cases exported")
        if not any(c["honest"] and c["verdict"] == "ok" for c in cases):
            raise MachineryError("the honest exchange is not among the exported cases")
        cases.sort(key=lambda c: json.dumps(c, sort_keys=True))
        lens = _field_lengths(cases)
        units = [[j] for j in _jobs(ctx, cases, lens)] + _sequences(ctx, cases)
        with mp.get_context("fork").Pool(16) as pool:
            unit_results = pool.map(_work_unit, units, chunksize=16)
        jobs = [j for u in units for j in u]
        results = [r for ur in unit_results for r in ur]
        seq_units = {u[0]["seq"]: u for u in units if "seq" in u[0]}
        groups = {}
        recs = []
        tolerated = 0
        for j, res in zip(jobs, results):
            c = j["case"]
            if res["observed"] == "machinery":
                raise MachineryError(f"{_short(c, j)}: {res['exc']}")
            ctx.case((json.dumps(c["r"], sort_keys=True), c["m4"], c["resume"], j["tr"], str(j.get("how")), j.get("cut_bytes"),
                      j.get("fresh"), j.get("real_replay"), json.dumps(j.get("record"), sort_keys=True))
                     if not c["honest"] or j.get("record") else None)
            bad = []
            if res["observed"] == "baseexc":
                bad.append(("raised a BaseException", res["exc"]))
            if c["verdict"] == "fail" and res["observed"] == "ok":
                bad.append((f"was ACCEPTED (keys returned) although the specification rejects it at '{c['stage']}'", None))
            if not c["m3"] and res["m3sent"]:
                bad.append((f"made the controller send its proof M3 although the specification rejects M2 at '{c['stage']}'", None))
            if c["verdict"] == "ok" and res["observed"] != "ok":
                if c["honest"]:
                    bad.append(("honest exchange failed", res["exc"]))
                else:
                    tolerated += 1
            for p in res["problems"]:
                bad.append((p, None))
            recs.append({"r": c["r"], "m4": c["m4"], "resume": c["resume"], "observed": "ok" if res["observed"] == "ok" else "fail",
                         "m3sent": bool(res["m3sent"])})
            if bad:
                for what, exc in bad:
                    groups.setdefault((what, j["tr"], c["resume"]), []).append((j, res, exc))
            else:
                ctx.trace_ok()
            if len(ctx.samples) < 4 and j["tr"] in ("ip", "ble") and c["dist"] == 1 and c["stage"] in ("sig", "aead", "resume", "ident"):
                ctx.sample({"case": {"r": c["r"], "m4": c["m4"], "spec_verdict": c["verdict"], "spec_stage": c["stage"]},
                            "transport": j["tr"], "m2_bytes": res["m2"], "observed": res["observed"], "exception": res["exc"]})
        for (what, tr, resume), items in sorted(groups.items(), key=lambda kv: (kv[0][0], kv[0][1], kv[0][2])):
            j, res, exc = items[0]
            ctx.violation(f"{_short(j['case'], j)}: {what}{' - ' + exc if exc else ''}  [{len(items)} executions fail this way]",
                          {"kind": "job", "job": _jsonable_job(j), "result": res,
                           # a job of a sequence only means something after its predecessors in the same process
                           "unit": [_jsonable_job(x) for x in seq_units[j["seq"]]] if "seq" in j else None,
                           "unit_index": seq_units[j["seq"]].index(j) if "seq" in j else None,
                           "more": [_short(x[0]["case"], x[0]) for x in items[1:6]]})
        ctx.notes["cases_exported"] = len(cases)
        ctx.notes["executions"] = len(jobs)
        ctx.notes["executions_by_transport"] = {t: sum(1 for j in jobs if j["tr"] == t) for t in ("gen", "ip", "coap", "ble")}
        ctx.notes["authentic_but_unusual_replies_rejected_by_the_code"] = tolerated
        # ---------------- (C) TLC validates every execution
        for resume, cfg in ((False, "PairVerify_Trace_full.cfg"), (True, "PairVerify_Trace_resume.cfg")):
            part = [x for x in recs if x["resume"] == resume]
            tf = os.path.join(tmp, f"trace_{int(resume)}.ndjson")
            with open(tf, "w") as f:
                for x in part:
                    f.write(json.dumps(x) + "\n")
            res = ctx.tlc("pairing/PairVerify_Trace", cfg, env={"TRACE_FILE": tf}, expect_violation=True, require_cover=False,
                          label="executions of the real code validated against the symbolic model", timeout=1500)
            if not res.ok and not groups:
                from harness import tlc as TL
                ce = TL.parse_counterexample(res.violation["trace"])
                tid = ce[-1][1].get("tid") if ce else None
                rec = part[tid - 1] if isinstance(tid, int) and 0 < tid <= len(part) else None
                ctx.violation(f"execution rejected by PairVerify_Trace ({res.violation['name']}): {rec}",
                              {"kind": "record", "record": rec, "tlc": res.violation["name"]})
        ctx.exhaustive = bool(ctx.thorough)
    finally:
        shutil.rmtree(tmp, ignore_errors=True)


def _jsonable_job(j):
    return {"case": j["case"], "tr": j["tr"], "how": list(j["how"]) if j.get("how") else None, "cut_bytes": j.get("cut_bytes"),
            "fresh": j.get("fresh", 0), "real_replay": j.get("real_replay", False), "record": j.get("record"), "seq": j.get("seq")}


def _replay(ctx):
    data = json.load(open(ctx.replay))
    j = data["replay"]["job"]
    if j.get("how"):
        j["how"] = tuple(j["how"])
    if data["replay"].get("unit"):
        for x in data["replay"]["unit"][:data["replay"]["unit_index"]]:
            run_job(x)
    res = run_job(j)
    c = j["case"]
    print(f"replay: {_short(c, j)} -> {res}")
    ctx.case(1)
    bad = (c["verdict"] == "fail" and res["observed"] == "ok") or (not c["m3"] and res["m3sent"]) or res["problems"] \
        or (c["honest"] and res["observed"] != "ok")
    if bad:
        ctx.violation(f"{_short(c, j)}: observed {res['observed']} (M3 sent: {res['m3sent']}, {res['problems']}); "
                      f"specification: {c['verdict']} at '{c['stage']}'", {"kind": "job", "job": _jsonable_job(j), "result": res})
    else:
        ctx.trace_ok()
