"""Independent TLV8 writer/reader (shares no code with aiohomekit)."""


def enc(items) -> bytes:
    out = bytearray()
    for t, v in items:
        v = bytes(v)
        if len(v) == 0:
            out += bytes([t, 0])
            continue
        for off in range(0, len(v), 255):
            chunk = v[off:off + 255]
            out += bytes([t, len(chunk)]) + chunk
    return bytes(out)


def raw(frags) -> bytes:
    """Write fragments verbatim (no splitting / merging) - for adversarial layouts."""
    out = bytearray()
    for t, v in frags:
        out += bytes([t, len(v)]) + bytes(v)
    return bytes(out)


def dec(bs: bytes):
    """-> list of (type, bytes); adjacent fragments of equal type are joined. Raises ValueError."""
    out = []
    p = 0
    bs = bytes(bs)
    while p < len(bs):
        if p + 2 > len(bs):
            raise ValueError("truncated TLV header")
        t, n = bs[p], bs[p + 1]
        if p + 2 + n > len(bs):
            raise ValueError("truncated TLV value")
        v = bs[p + 2:p + 2 + n]
        if out and out[-1][0] == t:
            out[-1] = (t, out[-1][1] + v)
        else:
            out.append((t, v))
        p += 2 + n
    return out


# pairing TLV types (HAP specification table 5-6)
METHOD, IDENTIFIER, SALT, PUBLIC_KEY, PROOF, ENCRYPTED_DATA, STATE, ERROR, RETRY_DELAY, CERTIFICATE, \
    SIGNATURE, PERMISSIONS, FRAGMENT_DATA, FRAGMENT_LAST, SESSION_ID = range(15)
SEPARATOR = 255
