"""SRP-6a server (accessory side) for HAP pair-setup: RFC 5054 3072-bit group, SHA-512, HAP padding.
Plain Python ints + hashlib; independent of aiohomekit.crypto.srp."""
import hashlib
import os

N_HEX = """
FFFFFFFF FFFFFFFF C90FDAA2 2168C234 C4C6628B 80DC1CD1 29024E08 8A67CC74 020BBEA6 3B139B22 514A0879 8E3404DD
EF9519B3 CD3A431B 302B0A6D F25F1437 4FE1356D 6D51C245 E485B576 625E7EC6 F44C42E9 A637ED6B 0BFF5CB6 F406B7ED
EE386BFB 5A899FA5 AE9F2411 7C4B1FE6 49286651 ECE45B3D C2007CB8 A163BF05 98DA4836 1C55D39A 69163FA8 FD24CF5F
83655D23 DCA3AD96 1C62F356 208552BB 9ED52907 7096966D 670C354E 4ABC9804 F1746C08 CA18217C 32905E46 2E36CE3B
E39E772C 180E8603 9B2783A2 EC07A28F B5C55DF0 6F4C52C9 DE2BCBF6 95581718 3995497C EA956AE5 15D22618 98FA0510
15728E5A 8AAAC42D AD33170D 04507A33 A85521AB DF1CBA64 ECFB8504 58DBEF0A 8AEA7157 5D060C7D B3970F85 A6E1E4C7
ABF5AE8C DB0933D7 1E8C94E0 4A25619D CEE3D226 1AD2EE6B F12FFA06 D98A0864 D8760273 3EC86A64 521F2B18 177B200C
BBE11757 7A615D6C 770988C0 BAD946E2 08E24FA0 74E5AB31 43DB5BFC E0FD108E 4B82D120 A93AD2CA FFFFFFFF FFFFFFFF
"""
N = int("".join(N_HEX.split()), 16)
G = 5
NLEN = 384


def H(*parts: bytes) -> bytes:
    h = hashlib.sha512()
    for p in parts:
        h.update(p)
    return h.digest()


def pad(x: int, n: int = NLEN) -> bytes:
    return x.to_bytes(n, "big")


def tobytes(x: int) -> bytes:
    return x.to_bytes(max(1, (x.bit_length() + 7) // 8), "big")


K = int.from_bytes(H(pad(N), pad(G)), "big")


class SrpServer:
    def __init__(self, username: str, password: str, salt: bytes | None = None, b: int | None = None):
        self.I = username.encode()
        self.P = password.encode()
        self.salt = salt if salt is not None else os.urandom(16)
        self.b = b if b is not None else int.from_bytes(os.urandom(32), "big")
        x = int.from_bytes(H(self.salt, H(self.I + b":" + self.P)), "big")
        self.v = pow(G, x, N)
        self.B = (K * self.v + pow(G, self.b, N)) % N
        self.A = None
        self.K = None

    def public_bytes(self) -> bytes:
        return pad(self.B)

    def set_client_public(self, A_bytes: bytes) -> None:
        self.A = int.from_bytes(A_bytes, "big")
        if self.A % N == 0:
            raise ValueError("bad A")
        u = int.from_bytes(H(pad(self.A), pad(self.B)), "big")
        S = pow(self.A * pow(self.v, u, N), self.b, N)
        self.S = S
        self.K = H(pad(S))          # HomeKit: K = H(PAD(S))

    def expected_client_proof(self) -> bytes:
        hN, hg = H(tobytes(N)), H(tobytes(G))
        hxor = bytes(a ^ b for a, b in zip(hN, hg))
        return H(hxor, H(self.I), self.salt, pad(self.A), pad(self.B), self.K)

    def verify_client_proof(self, m1: bytes) -> bool:
        return bytes(m1) == self.expected_client_proof()

    def server_proof(self, m1: bytes) -> bytes:
        return H(pad(self.A), bytes(m1), self.K)
