"""HAP cryptographic building blocks straight from `cryptography` (no aiohomekit code)."""
import os
import struct

from cryptography.hazmat.primitives import hashes, serialization
from cryptography.hazmat.primitives.asymmetric import ed25519, x25519
from cryptography.hazmat.primitives.ciphers.aead import ChaCha20Poly1305
from cryptography.hazmat.primitives.kdf.hkdf import HKDF
from cryptography.exceptions import InvalidTag, InvalidSignature

RAW = dict(encoding=serialization.Encoding.Raw, format=serialization.PublicFormat.Raw)


def hkdf(ikm: bytes, salt: bytes, info: bytes, length: int = 32) -> bytes:
    return HKDF(algorithm=hashes.SHA512(), length=length, salt=salt, info=info).derive(bytes(ikm))


def label_nonce(label: bytes) -> bytes:
    assert len(label) == 8
    return b"\x00\x00\x00\x00" + label


def counter_nonce(counter: int) -> bytes:
    return b"\x00\x00\x00\x00" + struct.pack("<Q", counter)


def seal(key: bytes, nonce: bytes, plaintext: bytes, aad: bytes = b"") -> bytes:
    return ChaCha20Poly1305(key).encrypt(nonce, bytes(plaintext), bytes(aad) if aad else None)


def open_(key: bytes, nonce: bytes, ciphertext: bytes, aad: bytes = b""):
    """-> plaintext or None"""
    try:
        return ChaCha20Poly1305(key).decrypt(nonce, bytes(ciphertext), bytes(aad) if aad else None)
    except InvalidTag:
        return None


class SigKey:
    def __init__(self, seed: bytes | None = None):
        self.sk = ed25519.Ed25519PrivateKey.from_private_bytes(seed) if seed else ed25519.Ed25519PrivateKey.generate()
        self.pk = self.sk.public_key().public_bytes(**RAW)

    def sign(self, msg: bytes) -> bytes:
        return self.sk.sign(bytes(msg))

    @property
    def seed(self) -> bytes:
        return self.sk.private_bytes(encoding=serialization.Encoding.Raw, format=serialization.PrivateFormat.Raw,
                                     encryption_algorithm=serialization.NoEncryption())


def sig_ok(pk: bytes, sig: bytes, msg: bytes) -> bool:
    try:
        ed25519.Ed25519PublicKey.from_public_bytes(bytes(pk)).verify(bytes(sig), bytes(msg))
        return True
    except (InvalidSignature, ValueError):
        return False


class DhKey:
    def __init__(self, seed: bytes | None = None):
        self.sk = x25519.X25519PrivateKey.from_private_bytes(seed) if seed else x25519.X25519PrivateKey.generate()
        self.pk = self.sk.public_key().public_bytes(**RAW)

    def shared(self, peer_pk: bytes) -> bytes:
        return self.sk.exchange(x25519.X25519PublicKey.from_public_bytes(bytes(peer_pk)))


def rand(n: int) -> bytes:
    return os.urandom(n)
