"""Attacker tool-box and concretiser for the symbolic pairing models (spec/pairing/PairVerify.tla,
PairSetup.tla).  Independent of aiohomekit: only harness/refacc (crypto.py, tlv.py, accessory.py).

A symbolic reply description (the record `r` of the TLA+ model plus the item layout `wire` the
specification computed for it) is turned into bytes with real keys.  Nothing here decides whether a
reply should be accepted - that is the specification's verdict.
"""
from __future__ import annotations

import os

from . import accessory as A
from . import crypto as C
from . import tlv as T

OTHER_ID = b"99:88:77:66:55:44"
METHOD_RESUME = b"\x06"


# ---------------------------------------------------------------------------------------
# single bit / single byte corruption
# ---------------------------------------------------------------------------------------
def corrupt(data: bytes, how) -> bytes:
    """how = ("bit", i) flips bit i (bit 0 = least significant bit of byte 0);
    ("byte", i, v) replaces byte i by v (v != old value is the caller's business: v is xor-ed in if equal)."""
    b = bytearray(data)
    if how[0] == "bit":
        i = how[1] % (len(b) * 8)
        b[i // 8] ^= 1 << (i % 8)
    else:
        i = how[1] % len(b)
        v = how[2] & 0xFF
        if b[i] == v:
            v ^= 0xFF
        b[i] = v
    return bytes(b)


def alter_len(data: bytes, kind: str) -> bytes:
    """Wrong-length variants of a value: empty, last byte dropped, one byte appended, the value twice."""
    data = bytes(data)
    return {"len0": b"", "short": data[:-1], "long": data + b"\x5a", "double": data + data,
            "prefix63": data[:-1], "extended": data + b"\x5a"}[kind]


LEN_KINDS = ("len0", "short", "long", "double")
_PS_STATE = {"empty": lambda n: b"", "trailing": lambda n: bytes([n, 0xFF]), "ok": lambda n: bytes([n]), "wrong": lambda n: b"\x01"}


def error_value(name: str) -> bytes:
    """Bytes of the Error item for the symbolic values of PairVerify.tla: auth = 02, eXX = byte XX, elen0 = empty, e2b = 02 00."""
    if name == "auth":
        return b"\x02"
    if name == "elen0":
        return b""
    if name == "e2b":
        return b"\x02\x00"
    return bytes([int(name[1:], 16)])


def corruptions(nbytes: int, rng, every: bool, sample: int = 8):
    """The expansion of a symbolic Corrupt(site) over a field of nbytes: every single bit and every
    byte position (thorough) or first / last bit, `sample` seeded bits and 3 byte replacements (quick)."""
    nbits = nbytes * 8
    if every:
        out = [("bit", i) for i in range(nbits)]
        out += [("byte", i, rng.randrange(256)) for i in range(nbytes)]
        return out
    picks = {0, nbits - 1}
    while len(picks) < min(nbits, sample + 2):
        picks.add(rng.randrange(nbits))
    out = [("bit", i) for i in sorted(picks)]
    out += [("byte", i, rng.randrange(256)) for i in sorted({0, nbytes - 1, rng.randrange(nbytes)})]
    return out


# ---------------------------------------------------------------------------------------
# pair-resume, from the HAP specification (R2, 7.4.7.x "Pair Resume")
# ---------------------------------------------------------------------------------------
def resume_request_key(prev_secret: bytes, ctrl_pub: bytes, sid: bytes) -> bytes:
    return C.hkdf(prev_secret, ctrl_pub + sid, b"Pair-Resume-Request-Info")


def resume_response_key(prev_secret: bytes, ctrl_pub: bytes, new_sid: bytes) -> bytes:
    return C.hkdf(prev_secret, ctrl_pub + new_sid, b"Pair-Resume-Response-Info")


def resume_shared_secret(prev_secret: bytes, ctrl_pub: bytes, new_sid: bytes) -> bytes:
    return C.hkdf(prev_secret, ctrl_pub + new_sid, b"Pair-Resume-Shared-Secret-Info")


def resume_check_m1(prev_secret: bytes, old_sid: bytes, items) -> str | None:
    """A conformant accessory's check of the controller's resume request; None = accepted."""
    d = dict(items)
    if d.get(T.STATE) != b"\x01":
        return "state"
    if d.get(T.METHOD) != METHOD_RESUME:
        return "method"
    if bytes(d.get(T.SESSION_ID, b"")) != old_sid:
        return "session id"
    pub = d.get(T.PUBLIC_KEY)
    tag = d.get(T.ENCRYPTED_DATA)
    if pub is None or len(pub) != 32 or tag is None:
        return "fields"
    if C.open_(resume_request_key(prev_secret, bytes(pub), old_sid), C.label_nonce(b"PR-Msg01"), bytes(tag)) != b"":
        return "request tag"
    return None


def session_keys(shared: bytes) -> dict:
    return {"a2c": C.hkdf(shared, b"Control-Salt", b"Control-Read-Encryption-Key"),
            "c2a": C.hkdf(shared, b"Control-Salt", b"Control-Write-Encryption-Key"),
            "event": C.hkdf(shared, b"Event-Salt", b"Event-Read-Encryption-Key")}


def resume_session_id(shared: bytes) -> bytes:
    return C.hkdf(shared, b"Pair-Verify-ResumeSessionID-Salt", b"Pair-Verify-ResumeSessionID-Info", 8)


# ---------------------------------------------------------------------------------------
# pair-verify: the concrete world behind the atoms of PairVerify.tla
# ---------------------------------------------------------------------------------------
class PVWorld:
    """Concrete values for accLT / otherLT / eA / eZ / eA0 / eI0 / S0 / Sx of one exchange.
    eI is the controller's: its public key is read from the M1 the real code sends."""

    def __init__(self, ident: A.Identity, resume: bool = False):
        self.ident = ident
        self.acc_id = ident.acc_id.encode()
        self.other_lt = C.SigKey()            # "otherLT": any long-term key that is not the stored one (overridable)
        self.other_id = OTHER_ID              # "OtherId": any identifier that is not the stored one (overridable)
        self.eZ = C.DhKey()
        self.eA0, self.eI0 = C.DhKey(), C.DhKey()
        self.resume = resume
        self.S0 = os.urandom(32)            # shared secret of the previous session
        self.Sx = os.urandom(32)
        self.old_sid = resume_session_id(self.S0)
        self.new_sid = os.urandom(8)
        self.other_sid = os.urandom(8)
        self.ios_pk = None
        self.pv: A.PairVerify | None = None   # the honest accessory of this exchange (eA)
        self.m1_items = None
        self.presented = None                 # DhKey whose public half the decoder ends up with (last PublicKey item)
        self.sent_sid = None

    # what the controller holds when it asks to resume
    def resume_state(self):
        s0 = self.S0

        def derive(salt: bytes, info: bytes, length: int = 32) -> bytes:
            return C.hkdf(s0, salt, info, length)
        return self.old_sid, derive

    def on_m1(self, pv: A.PairVerify, items):
        self.pv = pv
        self.m1_items = items
        self.ios_pk = pv.ios_pk

    # ---- atoms
    def _dh(self, name):
        return {"eA": self.pv.eph, "eZ": self.eZ, "eA0": self.eA0}[name]

    def _enc_key(self, key):
        if key == "I_A":
            return self.pv.session_key
        if key == "I_Z":
            return C.hkdf(self.eZ.shared(self.ios_pk), A.PV_SALT, A.PV_INFO)
        if key == "I0_A0":
            return C.hkdf(self.eA0.shared(self.eI0.pk), A.PV_SALT, A.PV_INFO)
        return os.urandom(32)

    def _transcript(self, tr):
        eA, eZ, I = self.pv.eph.pk, self.eZ.pk, self.ios_pk
        return {"correct": eA + self.acc_id + I,
                "permuted": I + self.acc_id + eA,
                "otherId": eA + self.other_id + I,
                "otherPK": eZ + self.acc_id + I,
                "old": self.eA0.pk + self.acc_id + self.eI0.pk,
                "mitm": eA + self.acc_id + eZ}[tr]

    def _tag(self, tag):
        k = {"right": resume_response_key(self.S0, self.ios_pk, self.new_sid),
             "wrongSecret": resume_response_key(self.Sx, self.ios_pk, self.new_sid),
             "oldPub": resume_response_key(self.S0, self.eI0.pk, self.new_sid),
             "otherSid": resume_response_key(self.S0, self.ios_pk, self.other_sid),
             "reflect": None,
             "wrongNonce": resume_response_key(self.S0, self.ios_pk, self.new_sid),
             "nonEmpty": resume_response_key(self.S0, self.ios_pk, self.new_sid)}[tag]
        if tag == "reflect":                 # the controller's own request tag sent back
            return bytes(dict(self.m1_items)[T.ENCRYPTED_DATA])
        nonce = b"PR-Msg01" if tag == "wrongNonce" else b"PR-Msg02"
        return C.seal(k, C.label_nonce(nonce), b"data" if tag == "nonEmpty" else b"")

    # ---- sizes of the corruptible fields (for the expansion of Corrupt(site))
    def field_len(self, r, site) -> int:
        if site == "pub":
            return 32
        if site == "sig":
            return 64
        if site == "id":
            return len(self.acc_id if r["id"] == "AccId" else self.other_id)
        if site == "sid":
            return 8
        if site == "enc":
            return len(self._enc_blob(r, None))
        raise KeyError(site)

    def _enc_blob(self, r, how):
        if r["enc"] == "tag":
            blob = self._tag(r["tag"])
        else:
            sub = []
            if r["id"] != "absent":
                v = self.acc_id if r["id"] == "AccId" else self.other_id
                if r["corrupt"] == "id" and how is not None:
                    v = corrupt(v, how)
                sub.append((T.IDENTIFIER, v))
            if r["sigp"]:
                signer = self.ident.lt if r["signer"] == "accLT" else self.other_lt
                sig = signer.sign(self._transcript(r["tr"]))
                if r["corrupt"] == "sig" and how is not None:
                    sig = corrupt(sig, how)
                sub.append((T.SIGNATURE, sig))
            blob = C.seal(self._enc_key(r["key"]), C.label_nonce(r["nonce"].encode()), T.enc(sub))
        if r["corrupt"] == "enc" and how is not None:
            blob = corrupt(blob, how)
        return blob

    def _pub(self, r, how):
        if r["pub"] in ("eA", "eZ", "eA0"):
            self.presented = self._dh(r["pub"])
            v = self.presented.pk
        elif r["pub"] == "short":
            v = self.pv.eph.pk[:31]
        else:
            v = self.pv.eph.pk + b"\x00"
        if r["corrupt"] == "pub" and how is not None:
            v = corrupt(v, how)
        return v

    def _value(self, r, t, role, how):
        if t == "state":
            return T.STATE, {"ok": b"\x02", "wrong": b"\x04", "empty": b"", "trailing": b"\x02\xff"}[r["st"]]
        if t == "error":
            return T.ERROR, error_value(r["err"])
        if t == "method":
            return T.METHOD, (METHOD_RESUME if r["method"] == "resume" else b"\x02")
        if t == "sid":
            v = self.new_sid
            if r["corrupt"] == "sid" and how is not None:
                v = corrupt(v, how)
            self.sent_sid = v
            return T.SESSION_ID, v
        if t == "pub":
            if role == "forged":
                self.presented = self.eZ          # items are built in wire order: the decoder uses the last one
                return T.PUBLIC_KEY, self.eZ.pk
            return T.PUBLIC_KEY, self._pub(r, how)
        if t == "enc":
            if role == "junk":
                return T.ENCRYPTED_DATA, C.seal(os.urandom(32), C.label_nonce(b"PV-Msg02"), T.enc([]))
            return T.ENCRYPTED_DATA, self._enc_blob(r, how)
        raise KeyError(t)

    def build_m2(self, r, wire, partial=False, how=None, cut_bytes=None) -> bytes:
        """r: description; wire: [[type name, role], ...] as computed by the specification;
        how: the concrete alteration standing for Corrupt(site); partial/cut_bytes: after the whole
        items of `wire`, the first cut_bytes bytes (1 .. length-1) of the next canonical item follow."""
        out = T.raw([self._value(r, t, role, how) for t, role in wire])
        if partial:
            nxt = T.raw([self._value(r, *self.canon_types(r)[len(wire)], None)])
            n = cut_bytes if cut_bytes is not None else 1
            out += nxt[:max(1, min(len(nxt) - 1, n))]
        return out

    def canon_types(self, r):
        c = [("state", "own")]
        if r["err"] != "none":
            c.append(("error", "own"))
        if r["method"] != "absent":
            c.append(("method", "own"))
        if r["sid"] != "absent":
            c.append(("sid", "own"))
        if r["pub"] != "absent":
            c.append(("pub", "own"))
        if r["enc"] != "absent":
            c.append(("enc", "own"))
        return c

    def next_item_len(self, r, k) -> int:
        """encoded length of the canonical item number k (0-based) - the one a truncation cuts into"""
        return len(T.raw([self._value(r, *self.canon_types(r)[k], None)]))

    # ---- reference values for an accepted exchange
    def reference_shared(self, resumed: bool) -> bytes | None:
        if resumed:
            return resume_shared_secret(self.S0, self.ios_pk, self.sent_sid)
        if self.presented is None:
            return None
        return self.presented.shared(self.ios_pk)

    def check_m3(self, items) -> str | None:
        """Verdict of the conformant accessory holding the presented ephemeral key on the controller's M3."""
        if self.presented is None:
            return "no key presented"
        pv = A.PairVerify(self.ident, eph=self.presented)
        pv.on_m1(self.m1_items)
        return None if pv.check_m3(dict(items)) else pv.error


# ---------------------------------------------------------------------------------------
# pair-setup: the concrete world behind the atoms of PairSetup.tla
# ---------------------------------------------------------------------------------------
OTHER_CODE = "111-22-333"
ENC_LABELS = (b"Pair-Setup-Encrypt-Salt", b"Pair-Setup-Encrypt-Info")
ACC_SIGN_LABELS = (b"Pair-Setup-Accessory-Sign-Salt", b"Pair-Setup-Accessory-Sign-Info")
CTRL_SIGN_LABELS = (b"Pair-Setup-Controller-Sign-Salt", b"Pair-Setup-Controller-Sign-Info")


def _cut(items_bytes, nxt_bytes, partial, cut_bytes):
    out = b"".join(items_bytes)
    if partial:
        n = cut_bytes if cut_bytes is not None else 1
        out += nxt_bytes[:max(1, min(len(nxt_bytes) - 1, n))]
    return out


class PSWorld:
    """Concrete replies M2 / M4 / M6 for the descriptions of PairSetup.tla.  `ps` is the honest
    reference accessory (A.PairSetup over the independent SRP server) of this exchange."""

    def __init__(self, ident: A.Identity):
        self.ident = ident
        self.acc_id = ident.acc_id.encode()
        self.other_lt = C.SigKey()
        self.ps: A.PairSetup | None = None
        self._k_other = None
        self.m3_items = None
        self.m5_items = None
        self.presented_id = None
        self.presented_pk = None
        self.degenerate = False          # the concrete bytes do not realise the symbolic variant (see _item4)

    # K of a party provisioned with another setup code (same salt, its own verifier / key pair)
    def k_other(self) -> bytes:
        if self._k_other is None:
            from .srp import SrpServer
            srv = SrpServer("Pair-Setup", OTHER_CODE, salt=self.ps.srp.salt)
            srv.set_client_public(bytes(dict(self.m3_items)[T.PUBLIC_KEY]))
            self._k_other = srv.K
        return self._k_other

    # ---- M2
    def _item2(self, r, name, honest, how):
        hd = dict(honest)
        if name == "state":
            return T.STATE, _PS_STATE[r["st"]](2)
        if name == "error":
            return T.ERROR, b"\x06"
        t = {"pk": T.PUBLIC_KEY, "salt": T.SALT}[name]
        v = hd[t]
        if r[name] == "corrupt" and how is not None:
            v = corrupt(v, how)
        elif r[name] in LEN_KINDS:
            v = alter_len(v, r[name])
        return t, v

    def build_m2(self, r, wire, partial, honest, how=None, cut_bytes=None) -> bytes:
        canon = ["state"] + (["error"] if r["err"] == "err" else []) + (["pk"] if r["pk"] != "absent" else []) + \
            (["salt"] if r["salt"] != "absent" else [])
        items = [T.enc([self._item2(r, n, honest, how)]) for n in wire]
        nxt = T.enc([self._item2(r, canon[len(wire)], honest, None)]) if partial else b""
        return _cut(items, nxt, partial, cut_bytes)

    # ---- M4
    def _item4(self, r, name, honest, how):
        hd = dict(honest)
        if name == "state":
            return T.STATE, _PS_STATE[r["st"]](4)
        if name == "error":
            return T.ERROR, b"\x06"
        if name == "enc":
            return T.ENCRYPTED_DATA, bytes(range(48))
        if r["proof"] == "otherCode":
            from .srp import H, pad
            m1 = bytes(dict(self.m3_items)[T.PROOF])
            a = int.from_bytes(bytes(dict(self.m3_items)[T.PUBLIC_KEY]), "big")
            return T.PROOF, H(pad(a), m1, self.k_other())
        # the accessory's proof for *its* session key (sent whether or not it could verify the controller's proof)
        v = self.ps.srp.server_proof(bytes(dict(self.m3_items)[T.PROOF]))
        if r["proof"] == "corrupt" and how is not None:
            v = corrupt(v, how)
        elif r["proof"].startswith("suffix"):
            n = int(r["proof"][6:])
            if not any(v[:len(v) - n]):          # the bytes cut off are all zero: same number, not a different proof
                self.degenerate = True
            v = v[len(v) - n:]
        elif r["proof"] == "empty":
            v = b""
        elif r["proof"] == "padded":
            v = b"\x00" + v
        elif r["proof"] in ("prefix63", "extended", "double"):
            v = alter_len(v, r["proof"])
        return T.PROOF, v

    def build_m4(self, r, wire, partial, honest, how=None, cut_bytes=None) -> bytes:
        canon = ["state"] + (["error"] if r["err"] == "err" else []) + (["proof"] if r["proof"] != "absent" else []) + \
            (["enc"] if r["mfi"] else [])
        items = [T.enc([self._item4(r, n, honest, how)]) for n in wire]
        nxt = T.enc([self._item4(r, canon[len(wire)], honest, None)]) if partial else b""
        return _cut(items, nxt, partial, cut_bytes)

    # ---- M6
    def _enc6(self, r, how):
        ps = self.ps
        flip = r.get("alter", "flip") == "flip"

        def altered(v, site):
            if r["corrupt"] != site:
                return v
            if not flip:
                return alter_len(v, r["alter"])
            return corrupt(v, how) if how is not None else v
        k = ps.srp.K
        if r["enc"] == "reflect":
            blob = bytes(dict(self.m5_items)[T.ENCRYPTED_DATA])
        else:
            key = {"right": lambda: C.hkdf(k, *ENC_LABELS), "otherK": lambda: C.hkdf(self.k_other(), *ENC_LABELS),
                   "ctrlSign": lambda: C.hkdf(k, *CTRL_SIGN_LABELS), "junk": lambda: os.urandom(32)}[r["key"]]()
            lts = {"accLT": self.ident.lt, "otherLT": self.other_lt}
            presented = lts[r["pk"]] if r["pk"] != "absent" else self.ident.lt
            another = self.other_lt if presented is self.ident.lt else self.ident.lt
            signer = presented if r["signer"] == "presented" else another
            x_acc = C.hkdf(k, *ACC_SIGN_LABELS)
            info = {"right": lambda: x_acc + self.acc_id + presented.pk,
                    "otherId": lambda: x_acc + OTHER_ID + presented.pk,
                    "otherKey": lambda: x_acc + self.acc_id + another.pk,
                    "ctrlSalt": lambda: C.hkdf(k, *CTRL_SIGN_LABELS) + self.acc_id + presented.pk,
                    "otherK": lambda: C.hkdf(self.k_other(), *ACC_SIGN_LABELS) + self.acc_id + presented.pk,
                    "permuted": lambda: x_acc + presented.pk + self.acc_id}[r["info"]]()
            sub = []
            if r["id"] != "absent":
                v = altered(self.acc_id, "id")
                self.presented_id = v
                sub.append((T.IDENTIFIER, v))
            if r["pk"] != "absent":
                v = altered(presented.pk, "pk")
                self.presented_pk = v
                sub.append((T.PUBLIC_KEY, v))
            if r["sigp"]:
                v = altered(signer.sign(info), "sig")
                sub.append((T.SIGNATURE, v))
            blob = C.seal(key, C.label_nonce(r["nonce"].encode()), T.enc(sub))
        blob = altered(blob, "enc")
        return blob

    def _item6(self, r, name, how):
        if name == "state":
            return T.STATE, _PS_STATE[r["st"]](6)
        if name == "error":
            return T.ERROR, b"\x06"
        return T.ENCRYPTED_DATA, self._enc6(r, how)

    def build_m6(self, r, wire, partial, how=None, cut_bytes=None) -> bytes:
        canon = ["state"] + (["error"] if r["err"] == "err" else []) + (["enc"] if r["enc"] != "absent" else [])
        items = [T.enc([self._item6(r, n, how)]) for n in wire]
        nxt = T.enc([self._item6(r, canon[len(wire)], None)]) if partial else b""
        return _cut(items, nxt, partial, cut_bytes)
