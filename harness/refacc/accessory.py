"""Reference HAP accessory logic (IP transport), independent of aiohomekit's protocol code.

Building blocks for pair-verify / pair-setup / secure session framing, written from the HAP
specification text.  Every adversarial variant used by the concretisers is a parameter here.
"""
from __future__ import annotations

import json
import struct

from . import crypto as C
from . import tlv as T
from .srp import SrpServer


class Identity:
    """Accessory long-term identity + the controllers it is paired with."""

    def __init__(self, acc_id: str = "00:11:22:33:44:55", seed: bytes | None = None, setup_code: str = "031-45-154"):
        self.acc_id = acc_id
        self.lt = C.SigKey(seed)
        self.setup_code = setup_code
        self.controllers: dict[bytes, bytes] = {}     # ios pairing id -> ltpk

    def pairing_data(self, ctrl: "ControllerIdentity", hosts=("127.0.0.1",), port=51826) -> dict:
        self.controllers[ctrl.ios_id.encode()] = ctrl.lt.pk
        return {
            "AccessoryPairingID": self.acc_id,
            "AccessoryLTPK": self.lt.pk.hex(),
            "iOSPairingId": ctrl.ios_id,
            "iOSDeviceLTSK": ctrl.lt.seed.hex(),
            "iOSDeviceLTPK": ctrl.lt.pk.hex(),
            "AccessoryIP": hosts[0],
            "AccessoryIPs": list(hosts),
            "AccessoryPort": port,
            "Connection": "IP",
        }


class ControllerIdentity:
    def __init__(self, ios_id: str = "decc6fa3-de3e-41c9-adba-ef7409821bfc", seed: bytes | None = None):
        self.ios_id = ios_id
        self.lt = C.SigKey(seed)


# ---------------------------------------------------------------------------------------
# pair-verify (accessory side)
# ---------------------------------------------------------------------------------------
PV_SALT, PV_INFO = b"Pair-Verify-Encrypt-Salt", b"Pair-Verify-Encrypt-Info"


class PairVerify:
    """One pair-verify exchange on the accessory side."""

    def __init__(self, ident: Identity, eph: C.DhKey | None = None):
        self.ident = ident
        self.eph = eph or C.DhKey()
        self.ios_pk = None
        self.shared = None
        self.session_key = None
        self.verified = False
        self.error = None

    # --- M1 -> M2
    def on_m1(self, items) -> list:
        d = dict(items)
        self.ios_pk = bytes(d[T.PUBLIC_KEY])
        self.shared = self.eph.shared(self.ios_pk)
        self.session_key = C.hkdf(self.shared, PV_SALT, PV_INFO)
        return self.build_m2()

    def build_m2(self, *, state=b"\x02", error=None, pub=None, acc_id=None, signer=None, transcript=None,
                 enc_key=None, nonce=b"PV-Msg02", include=("id", "sig"), enc=True, extra=(), sub_extra=()):
        """M2 with every field overridable.  transcript: bytes signed (default accPK|id|iosPK)."""
        pub = self.eph.pk if pub is None else pub
        acc_id = self.ident.acc_id.encode() if acc_id is None else acc_id
        signer = self.ident.lt if signer is None else signer
        if transcript is None:
            transcript = self.eph.pk + acc_id + self.ios_pk
        sub = []
        if "id" in include:
            sub.append((T.IDENTIFIER, acc_id))
        if "sig" in include:
            sub.append((T.SIGNATURE, signer.sign(transcript)))
        sub += list(sub_extra)
        key = self.session_key if enc_key is None else enc_key
        out = []
        if state is not None:
            out.append((T.STATE, state))
        if error is not None:
            out.append((T.ERROR, error))
        if pub is not False:
            out.append((T.PUBLIC_KEY, pub))
        if enc:
            out.append((T.ENCRYPTED_DATA, C.seal(key, C.label_nonce(nonce), T.enc(sub))))
        out += list(extra)
        return out

    # --- M3 -> M4
    def on_m3(self, items) -> list:
        d = dict(items)
        ok = self.check_m3(d)
        if ok:
            self.verified = True
            return [(T.STATE, b"\x04")]
        return [(T.STATE, b"\x04"), (T.ERROR, b"\x02")]

    def check_m3(self, d) -> bool:
        if d.get(T.STATE) != b"\x03" or T.ENCRYPTED_DATA not in d:
            self.error = "m3 shape"
            return False
        pt = C.open_(self.session_key, C.label_nonce(b"PV-Msg03"), d[T.ENCRYPTED_DATA])
        if pt is None:
            self.error = "m3 tag"
            return False
        sub = dict(T.dec(pt))
        ios_id = sub.get(T.IDENTIFIER)
        sig = sub.get(T.SIGNATURE)
        ltpk = self.ident.controllers.get(bytes(ios_id)) if ios_id is not None else None
        if ltpk is None or sig is None:
            self.error = "m3 unknown controller"
            return False
        if not C.sig_ok(ltpk, sig, self.ios_pk + bytes(ios_id) + self.eph.pk):
            self.error = "m3 signature"
            return False
        return True

    def keys(self, coap: bool = False) -> dict:
        """Session keys as the HAP specification names them (accessory's view)."""
        d = {
            "a2c": C.hkdf(self.shared, b"Control-Salt", b"Control-Read-Encryption-Key"),
            "c2a": C.hkdf(self.shared, b"Control-Salt", b"Control-Write-Encryption-Key"),
        }
        if coap:
            d["event"] = C.hkdf(self.shared, b"Event-Salt", b"Event-Read-Encryption-Key")
        return d

    def resume_session_id(self) -> bytes:
        return C.hkdf(self.shared, b"Pair-Verify-ResumeSessionID-Salt", b"Pair-Verify-ResumeSessionID-Info", 8)


# ---------------------------------------------------------------------------------------
# pair-setup (accessory side)
# ---------------------------------------------------------------------------------------
class PairSetup:
    def __init__(self, ident: Identity, code: str | None = None, salt: bytes | None = None):
        self.ident = ident
        self.srp = SrpServer("Pair-Setup", code or ident.setup_code, salt=salt)
        self.m3_ok = None
        self.m5_ok = None
        self.m5_error = None
        self.ios_id = None
        self.ios_ltpk = None
        self.enc_key = None

    def on_m1(self, items) -> list:
        return [(T.STATE, b"\x02"), (T.PUBLIC_KEY, self.srp.public_bytes()), (T.SALT, self.srp.salt)]

    def on_m3(self, items) -> list:
        d = dict(items)
        self.srp.set_client_public(bytes(d[T.PUBLIC_KEY]))
        self.m3_ok = self.srp.verify_client_proof(bytes(d[T.PROOF]))
        if not self.m3_ok:
            return [(T.STATE, b"\x04"), (T.ERROR, b"\x02")]
        self.enc_key = C.hkdf(self.srp.K, b"Pair-Setup-Encrypt-Salt", b"Pair-Setup-Encrypt-Info")
        return [(T.STATE, b"\x04"), (T.PROOF, self.srp.server_proof(bytes(d[T.PROOF])))]

    def check_m5(self, items) -> bool:
        d = dict(items)
        if d.get(T.STATE) != b"\x05" or T.ENCRYPTED_DATA not in d:
            self.m5_error = "shape"
            return False
        pt = C.open_(self.enc_key, C.label_nonce(b"PS-Msg05"), d[T.ENCRYPTED_DATA])
        if pt is None:
            self.m5_error = "tag"
            return False
        sub = dict(T.dec(pt))
        if not all(k in sub for k in (T.IDENTIFIER, T.PUBLIC_KEY, T.SIGNATURE)):
            self.m5_error = "fields"
            return False
        x = C.hkdf(self.srp.K, b"Pair-Setup-Controller-Sign-Salt", b"Pair-Setup-Controller-Sign-Info")
        if not C.sig_ok(sub[T.PUBLIC_KEY], sub[T.SIGNATURE], x + sub[T.IDENTIFIER] + sub[T.PUBLIC_KEY]):
            self.m5_error = "signature"
            return False
        self.ios_id, self.ios_ltpk = bytes(sub[T.IDENTIFIER]), bytes(sub[T.PUBLIC_KEY])
        return True

    def on_m5(self, items) -> list:
        self.m5_ok = self.check_m5(items)
        if not self.m5_ok:
            return [(T.STATE, b"\x06"), (T.ERROR, b"\x02")]
        self.ident.controllers[self.ios_id] = self.ios_ltpk
        return self.build_m6()

    def build_m6(self, *, state=b"\x06", error=None, acc_id=None, ltpk=None, signer=None, info=None,
                 enc_key=None, nonce=b"PS-Msg06", include=("id", "pk", "sig"), enc=True, salt_labels=None):
        acc_id = self.ident.acc_id.encode() if acc_id is None else acc_id
        signer = self.ident.lt if signer is None else signer
        ltpk = signer.pk if ltpk is None else ltpk
        if info is None:
            s, i = salt_labels or (b"Pair-Setup-Accessory-Sign-Salt", b"Pair-Setup-Accessory-Sign-Info")
            info = C.hkdf(self.srp.K, s, i) + acc_id + ltpk
        sub = []
        if "id" in include:
            sub.append((T.IDENTIFIER, acc_id))
        if "pk" in include:
            sub.append((T.PUBLIC_KEY, ltpk))
        if "sig" in include:
            sub.append((T.SIGNATURE, signer.sign(info)))
        key = self.enc_key if enc_key is None else enc_key
        out = []
        if state is not None:
            out.append((T.STATE, state))
        if error is not None:
            out.append((T.ERROR, error))
        if enc:
            out.append((T.ENCRYPTED_DATA, C.seal(key, C.label_nonce(nonce), T.enc(sub))))
        return out


# ---------------------------------------------------------------------------------------
# secure session framing (IP)
# ---------------------------------------------------------------------------------------
class SecureSession:
    """Accessory end of an encrypted IP session (HAP 6.5.2)."""

    def __init__(self, a2c_key: bytes, c2a_key: bytes):
        self.a2c_key, self.c2a_key = a2c_key, c2a_key
        self.send_ctr = 0
        self.recv_ctr = 0
        self.inbuf = bytearray()
        self.frames_received: list = []          # plaintext length of every frame, in order
        self.failed = False

    def seal_frame(self, plaintext: bytes, *, counter: int | None = None) -> bytes:
        n = self.send_ctr if counter is None else counter
        ln = struct.pack("<H", len(plaintext))
        out = ln + C.seal(self.a2c_key, C.counter_nonce(n), plaintext, ln)
        if counter is None:
            self.send_ctr += 1
        return out

    def seal(self, plaintext: bytes, sizes=None) -> bytes:
        """Encrypt `plaintext` as frames; sizes = explicit plaintext sizes (default: 1024 chunks)."""
        out = bytearray()
        p = 0
        if sizes is None:
            sizes = []
            rem = len(plaintext)
            while rem > 0:
                sizes.append(min(1024, rem))
                rem -= sizes[-1]
        for n in sizes:
            out += self.seal_frame(plaintext[p:p + n])
            p += n
        assert p == len(plaintext)
        return bytes(out)

    def open_stream(self, data: bytes) -> bytes:
        """Feed ciphertext bytes from the controller; returns decrypted plaintext so far complete."""
        self.inbuf += data
        out = bytearray()
        while len(self.inbuf) >= 2:
            n = struct.unpack("<H", self.inbuf[:2])[0]
            if len(self.inbuf) < 2 + n + 16:
                break
            ln = bytes(self.inbuf[:2])
            ct = bytes(self.inbuf[2:2 + n + 16])
            del self.inbuf[:2 + n + 16]
            pt = C.open_(self.c2a_key, C.counter_nonce(self.recv_ctr), ct, ln)
            if pt is None:
                self.failed = True
                raise ValueError(f"accessory could not authenticate controller frame #{self.recv_ctr}")
            self.recv_ctr += 1
            self.frames_received.append(len(pt))
            out += pt
        return bytes(out)


def hap_json(obj) -> bytes:
    return json.dumps(obj, separators=(",", ":")).encode()
