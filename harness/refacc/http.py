"""Strict HTTP request reader and response / EVENT writer for the simulated accessory."""
from __future__ import annotations

from dataclasses import dataclass, field


@dataclass
class Request:
    method: str
    target: str
    version: str
    headers: list = field(default_factory=list)     # [(name, value)] in wire order, verbatim
    body: bytes = b""
    raw: bytes = b""

    def header(self, name: str):
        for k, v in self.headers:
            if k.lower() == name.lower():
                return v
        return None


class RequestParser:
    """Byte-exact incremental request parser. `feed` returns the list of complete requests."""

    def __init__(self):
        self.buf = bytearray()

    def feed(self, data: bytes):
        self.buf += data
        out = []
        while True:
            end = self.buf.find(b"\r\n\r\n")
            if end < 0:
                return out
            head = bytes(self.buf[:end])
            lines = head.split(b"\r\n")
            try:
                method, target, version = lines[0].decode("latin-1").split(" ", 2)
            except ValueError:
                method, target, version = lines[0].decode("latin-1"), "", ""
            headers = []
            clen = 0
            for ln in lines[1:]:
                s = ln.decode("latin-1")
                if ": " in s:
                    k, v = s.split(": ", 1)
                elif ":" in s:
                    k, v = s.split(":", 1)
                else:
                    k, v = s, None
                headers.append((k, v))
                if k.lower() == "content-length" and v is not None:
                    try:
                        clen = int(v)
                    except ValueError:
                        clen = 0
            total = end + 4 + clen
            if len(self.buf) < total:
                return out
            raw = bytes(self.buf[:total])
            body = bytes(self.buf[end + 4:total])
            del self.buf[:total]
            out.append(Request(method, target, version, headers, body, raw))


REASONS = {200: "OK", 204: "No Content", 207: "Multi-Status", 400: "Bad Request", 404: "Not Found",
           422: "Unprocessable Entity", 470: "Connection Authorization Required", 500: "Internal Server Error",
           503: "Service Unavailable"}

JSON = "application/hap+json"
TLV8 = "application/pairing+tlv8"


def response(status: int = 200, body: bytes = b"", ctype: str | None = JSON, *, proto: str = "HTTP/1.1",
             chunked: bool = False, chunks=None, extra_headers=(), content_length: bool = True) -> bytes:
    lines = [f"{proto} {status} {REASONS.get(status, 'Status')}"]
    for k, v in extra_headers:
        lines.append(f"{k}: {v}")
    if status != 204 or body:
        if ctype:
            lines.append(f"Content-Type: {ctype}")
    if chunked:
        lines.append("Transfer-Encoding: chunked")
        out = ("\r\n".join(lines) + "\r\n\r\n").encode()
        sizes = chunks or ([len(body)] if body else [])
        p = 0
        for n in sizes:
            out += f"{n:x}\r\n".encode() + body[p:p + n] + b"\r\n"
            p += n
        out += b"0\r\n\r\n"
        return out
    if content_length and (status != 204 or body):
        lines.append(f"Content-Length: {len(body)}")
    return ("\r\n".join(lines) + "\r\n\r\n").encode() + body


def event(body: bytes, ctype: str = JSON) -> bytes:
    return response(200, body, ctype, proto="EVENT/1.0")
