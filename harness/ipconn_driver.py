"""Drives the real IpPairing / SecureHomeKitConnection on the virtual-time loop over SimNet and
records the event alphabet of spec/ip/IpConn_Trace.tla.

Stimuli: TCP outcomes, accessory replies (with real crypto so the *real* exceptions arise),
peer closes (FIN / reset), API calls (ensure_connection, _ensure_connected, close, shutdown),
caller cancellation, reconnect_soon, zeroconf description updates, passage of virtual time,
full or partial settling of the event loop (so stimuli land between callbacks).
"""
from __future__ import annotations

import asyncio
import logging
import json
import random
import socket

from . import simnet, vloop
from .refacc import accessory as A
from .refacc import crypto as C
from .refacc import http as H
from .refacc import tlv as T

logging.disable(logging.CRITICAL)
TPS = 4096
HOSTS = {"h1": "10.0.0.1", "h2": "10.0.0.2", "h3": "10.0.0.3"}
RHOSTS = {v: k for k, v in HOSTS.items()}


class DeferredNet(simnet.SimNet):
    """start_connection suspends until the driver resolves it (or resolves at once in auto mode)."""

    def __init__(self, loop, behaviour, run):
        super().__init__(loop, behaviour)
        self.run = run
        self.pending = []          # [(future, hosts)]
        self.auto = False

    async def start_connection(self, addr_infos, *, happy_eyeballs_delay=None, interleave=None, loop=None, **kw):
        hosts = [RHOSTS.get(ai[3], ai[3]) for ai in addr_infos]
        self.run.log("tcp_call", hosts=hosts)
        if self.auto and getattr(self, "down", False):
            self.run.log("tcp_res", out="refused", host=hosts[0])
            outcome = ("refused",)
        elif self.auto:
            self.run.log("tcp_res", out="ok", host=hosts[0])
            outcome = ("ok", hosts[0])
        else:
            fut = self.loop.create_future()
            entry = (fut, hosts)
            self.pending.append(entry)
            try:
                outcome = await fut
            finally:
                if entry in self.pending:
                    self.pending.remove(entry)
        if outcome[0] == "refused":
            raise ConnectionRefusedError(111, "Connection refused (simulated)")
        host = outcome[1]
        a, b = socket.socketpair()
        cs = simnet.PeerSock(a.family, a.type, a.proto, fileno=a.detach())
        cs._peer = (HOSTS[host], 51826)
        cs.setblocking(False)
        conn = simnet.AccConn(self, len(self.conns), host, b)
        conn.ctrl_sock = cs
        self.conns.append(conn)
        self.run.log("tcp_ok", conn=conn.id + 1, host=host)
        return cs

    def log(self, _ev, /, **kw):      # SimNet's own low-level log: map the ones the spec knows
        if _ev == "acc_eof":
            self.run.log("acc_eof", conn=kw["conn"] + 1)
        elif _ev == "peer_close":
            self.run.log("peer_close", conn=kw["conn"] + 1, how="rst" if kw["how"] == "reset" else "fin")


class ScriptedBehaviour(simnet.Behaviour):
    """Holds every request; the driver (or auto mode) answers."""

    def __init__(self, ident, run):
        super().__init__(ident)
        self.run = run
        self.auto = False
        self.other_ident = A.Identity("FF:EE:DD:CC:BB:AA")

    def kind_of(self, req):
        if req.target == "/pair-verify":
            st = dict(T.dec(req.body)).get(T.STATE)
            return {b"\x01": "m1", b"\x03": "m3"}.get(st, "other")
        if req.method == "PUT" and req.target == "/characteristics":
            try:
                body = json.loads(req.body)
                if all("ev" in c for c in body["characteristics"]):
                    return "sub"
            except Exception:  # noqa: BLE001
                pass
        return "other"

    def on_request(self, conn, req):
        req.kind = self.kind_of(req)
        self.run.log("acc_rx", conn=conn.id + 1, kind=req.kind)
        if self.auto:
            self.reply(conn, req, "r_ok", None)

    # ---- concretisation of the reply kinds
    def reply(self, conn, req, kind, variant):
        self.run.log("acc_tx", conn=conn.id + 1, kind=kind)
        if req.kind == "m1":
            conn.pv = A.PairVerify(self.ident)
            conn.pv.on_m1(T.dec(req.body))
            pv = conn.pv
            if kind == "r_ok":
                out = pv.build_m2()
            elif kind == "r_wrongid":
                out = pv.build_m2(acc_id=b"99:99:99:99:99:99")
            elif kind == "r_auth":
                out = [(T.STATE, b"\x02"), (T.ERROR, b"\x02")]
            else:
                v = variant or "badsig"
                if v == "badsig":
                    out = pv.build_m2(signer=self.other_ident.lt)
                elif v == "badtag":
                    out = pv.build_m2(enc_key=C.rand(32))
                elif v == "nopub":
                    out = pv.build_m2(pub=False)
                elif v == "busy":
                    out = [(T.STATE, b"\x02"), (T.ERROR, b"\x07")]
                elif v == "wrongstate":
                    out = pv.build_m2(state=b"\x04")
                elif v == "http470":
                    return conn.respond(req, 470, b"", None)
                elif v == "garbage":
                    return conn.respond(req, 200, b"\x03\x05abc", H.TLV8)     # truncated TLV / short key
                else:
                    raise AssertionError(v)
            return conn.respond(req, 200, T.enc(out), H.TLV8)
        if req.kind == "m3":
            pv = conn.pv
            if kind == "r_ok":
                out = pv.on_m3(T.dec(req.body))
                if not pv.verified:
                    raise AssertionError(f"reference accessory rejected the controller's M3: {pv.error}")
                k = pv.keys()
                conn.pending_session = A.SecureSession(k["a2c"], k["c2a"])
                conn.verified = True
            elif kind == "r_auth":
                out = [(T.STATE, b"\x04"), (T.ERROR, b"\x02")]
            else:
                v = variant or "busy"
                if v == "http470":
                    return conn.respond(req, 470, b"", None)
                if v == "wrongstate":
                    out = [(T.STATE, b"\x02")]
                elif v == "garbage":
                    return conn.respond(req, 200, b"\x06", H.TLV8)
                else:
                    out = [(T.STATE, b"\x04"), (T.ERROR, b"\x07")]
            return conn.respond(req, 200, T.enc(out), H.TLV8)
        if req.kind == "sub":
            if kind == "r_ok":
                if variant == "207":
                    body = json.loads(req.body)
                    st = [{"aid": c["aid"], "iid": c["iid"], "status": 0} for c in body["characteristics"]]
                    return conn.respond(req, 207, A.hap_json({"characteristics": st}))
                return conn.respond(req, 204, b"", None)
            if kind == "r_exc":
                body = json.loads(req.body)
                rows = [{"aid": c["aid"], "iid": c["iid"]} for c in body["characteristics"]]      # no "status": KeyError
                return conn.respond(req, 207, A.hap_json({"characteristics": rows}))
            return conn.respond(req, 400, A.hap_json({"status": -70410}))
        # anything else: honest default
        return self.answer(conn, req)


GENERIC_VARIANTS = {"m1": ["badsig", "badtag", "nopub", "busy", "wrongstate", "http470", "garbage"],
                    "m3": ["busy", "http470", "wrongstate", "garbage"], "sub": [None], "other": [None]}


class Run:
    """One execution of the real code; `events` is the recorded trace."""

    def __init__(self, hosts=("h1",), sub_aids=1, ncallers=3):
        self.events = []
        self.hosts = list(hosts)
        self.sub_aids = sub_aids
        self.loop = vloop.new_loop()
        self.ident = A.Identity()
        self.beh = ScriptedBehaviour(self.ident, self)
        ctrl = A.ControllerIdentity()
        pdata = self.ident.pairing_data(ctrl, hosts=[HOSTS[h] for h in hosts])
        self.net = DeferredNet(self.loop, self.beh, self)
        self.net.install()
        from aiohomekit.characteristic_cache import CharacteristicCacheMemory
        from aiohomekit.controller.ip.pairing import IpPairing
        import types
        controller = types.SimpleNamespace(_char_cache=CharacteristicCacheMemory(), pairings={}, aliases={})

        async def mk():
            p = IpPairing(controller, pdata)
            p.restore_accessories_state(simnet.DEFAULT_ACCESSORIES, 1, None)
            return p
        self.pairing = self.loop.run_until_complete(mk())
        subs = [(1, 9), (2, 9)][:sub_aids]
        self.pairing.subscriptions.update(subs)
        self.callers = {}           # c -> (task, api)
        self.free = list(range(1, ncallers + 1))
        self.machinery_errors = []
        self.loop.set_exception_handler(self._loop_exc)
        self.loop_exceptions = []

    def _loop_exc(self, loop, context):
        self.loop_exceptions.append(str(context.get("exception") or context.get("message")))
        # an exception escaping from the library into the event loop is an event no step of the specification explains
        ex = context.get("exception")
        if ex is not None and not (self.events and self.events[-1].get("ev") == "end"):
            self.log("loop_exc", what=f"{type(ex).__name__}: {ex}"[:160])

    # ---- logging
    def now_ticks(self):
        v = self.loop.time() * TPS
        return int(round(v))

    def log(self, ev, **kw):
        rec = {"ev": ev, "t": self.now_ticks()}
        rec.update(kw)
        self.events.append(rec)

    # ---- loop control
    def step(self, n=1):
        for _ in range(n):
            self.loop.call_soon(self.loop.stop)
            self.loop.run_forever()

    def settle(self):
        self.loop.settle()

    def obs(self):
        self.settle()
        self.log("obs", open=[c.id + 1 for c in self.net.conns if c.open], connected=bool(self.pairing.is_connected))

    def advance(self, dt):
        self.settle()
        self.loop.advance(dt)

    # ---- stimuli
    def call(self, api, step=True):
        """step=False: only schedule the call (used from inside a callback of the library, e.g. an application listener
        that reacts to the 'connection is back' notification by closing the pairing)."""
        if not self.free:
            return False
        c = self.free.pop(0)
        p = self.pairing

        async def w():
            self.log("call", c=c, api=api)
            try:
                if api == "ensure":
                    await p.connection.ensure_connection()
                elif api == "pens":
                    await p._ensure_connected()
                elif api == "close":
                    await p.close()
                elif api == "shutdown":
                    await p.shutdown()
                res = "ok"
            except asyncio.CancelledError:
                res = "cancelled"
            except BaseException as ex:  # noqa: BLE001
                from aiohomekit import exceptions as X
                if isinstance(ex, X.AuthenticationError):
                    res = "auth"
                elif isinstance(ex, X.AccessoryDisconnectedError):
                    res = "disconnected"
                else:
                    res = f"error:{type(ex).__name__}"
            self.log("ret", c=c, res=res)
            self.callers.pop(c, None)
            self.free.append(c)
            self.free.sort()
        task = self.loop.create_task(w())
        self.callers[c] = (task, api)
        if step:
            self.step(1)          # let the wrapper start: `call` is logged with the API's synchronous prefix
        return True

    def cancel(self, c):
        task, api = self.callers[c]
        self.log("cancel", c=c)
        task.cancel()

    def in_loop(self, fn):
        self.loop.call_soon(fn)
        self.step(1)

    def rsoon(self):
        def f():
            self.log("rsoon")
            self.pairing.connection.reconnect_soon()
        self.in_loop(f)

    def descr(self, hosts):
        from aiohomekit.model import Categories
        from aiohomekit.model.feature_flags import FeatureFlags
        from aiohomekit.model.status_flags import StatusFlags
        from aiohomekit.zeroconf import HomeKitService
        addrs = [HOSTS[h] for h in hosts]
        d = HomeKitService(name="Sim", id=self.ident.acc_id.lower(), model="m", feature_flags=FeatureFlags(0),
                           status_flags=StatusFlags(0), config_num=1, state_num=1, category=Categories(1),
                           protocol_version="1.1", type="_hap._tcp.local.", address=addrs[0], addresses=addrs, port=51826)
        def f():
            self.log("descr", hosts=list(hosts))
            self.pairing._async_description_update(d)
        self.in_loop(f)

    def tcp_res(self, idx, out, host=None):
        fut, hosts = self.net.pending[idx]
        host = host or hosts[0]
        if fut.done():
            return
        self.log("tcp_res", out=out, host=host)
        self.net.pending.pop(idx)
        fut.set_result((out, host))

    def reply(self, conn, kind, variant=None):
        req = conn.unanswered[0]
        self.beh.reply(conn, req, kind, variant)

    def peer_close(self, conn, how):
        conn.close(reset=(how == "rst"))

    def honest_tail(self, seconds=200):
        """Make the environment honest and let time pass; then report."""
        self.settle()
        self.net.auto = True
        self.beh.auto = True
        for idx in range(len(self.net.pending) - 1, -1, -1):
            self.tcp_res(idx, "ok")
        for conn in self.net.conns:
            while conn.open and conn.unanswered:
                self.reply(conn, "r_ok")
        self.settle()
        for _ in range(int(seconds // 10)):
            self.advance(10)
        self.obs()
        self.log("end")

    def close(self):
        self.net.uninstall()
        vloop.close_loop(self.loop)

    def record(self, rid):
        return {"id": rid, "hosts": self.hosts, "sub": self.sub_aids, "events": self.events}


def random_run(rng: random.Random, rid, nsteps=25, hosts=None, sub_aids=None):
    hosts = hosts or rng.choice([("h1",), ("h1", "h2"), ("h1", "h2", "h3")])
    sub_aids = rng.choice([0, 1, 2]) if sub_aids is None else sub_aids
    r = Run(hosts, sub_aids)
    try:
        for _ in range(nsteps):
            random_stimulus(r, rng)
            if rng.random() < 0.75:
                r.obs()
            else:
                r.step(rng.randrange(0, 4))
        r.honest_tail()
        return r
    except BaseException:
        r.close()
        raise


def random_stimulus(r: Run, rng: random.Random):
    opts = []
    net = r.net
    for i, (fut, hs) in enumerate(net.pending):
        if fut.done():          # already cancelled by the library: the connect no longer exists
            continue
        opts += [("tcp_refused", i, hs)] * 2 + [("tcp_ok", i, hs)] * 4
    for conn in net.conns:
        if conn.open and conn.unanswered:
            k = conn.unanswered[0].kind
            opts += [("reply", conn, "r_ok")] * 8
            if k in ("m1", "m3"):
                opts += [("reply", conn, "r_generic")] * 2 + [("reply", conn, "r_auth")]
            if k == "m1":
                opts += [("reply", conn, "r_wrongid")] * 3
            if k == "sub":
                opts += [("reply", conn, "r_generic"), ("reply", conn, "r_exc")]
        if conn.open:
            opts += [("peer_close", conn, "fin"), ("peer_close", conn, "rst")]
    sd = any(e["ev"] == "call" and e["api"] == "shutdown" for e in r.events)
    if r.free:
        # after shutdown() only the pairing-level API is used (the library itself never calls the
        # connection object directly once it is shut down)
        opts += ([("call", "ensure")] * 2 if not sd else []) + [("call", "pens")] * 2 + [("call", "close"), ("call", "shutdown")] * (1 if rng.random() < 0.3 else 0)
        if rng.random() < 0.5:
            opts += [("call", "close")]
    for c, (task, api) in r.callers.items():
        if api in ("ensure", "pens") and not task.done():
            opts.append(("cancel", c))
    opts += ([("rsoon",)] if not sd else []) + [("descr",)]
    opts += [("advance",)] * max(3, len(opts) // 3)
    o = rng.choice(opts)
    if o[0] == "tcp_refused":
        r.tcp_res(o[1], "refused", o[2][0])
    elif o[0] == "tcp_ok":
        r.tcp_res(o[1], "ok", o[2][0])
    elif o[0] == "reply":
        conn, kind = o[1], o[2]
        variant = None
        if kind == "r_generic":
            variant = rng.choice(GENERIC_VARIANTS[conn.unanswered[0].kind])
        elif kind == "r_ok" and conn.unanswered[0].kind == "sub":
            variant = rng.choice([None, "207"])
        r.reply(conn, kind, variant)
    elif o[0] == "peer_close":
        r.peer_close(o[1], o[2])
    elif o[0] == "call":
        r.call(o[1])
    elif o[0] == "cancel":
        r.cancel(o[1])
    elif o[0] == "rsoon":
        r.rsoon()
    elif o[0] == "descr":
        n = rng.randrange(1, 4)
        r.descr(rng.sample(["h1", "h2", "h3"], n))
    elif o[0] == "advance":
        r.settle()
        nt = r.loop.next_timer()
        choices = [1 / 64, 0.25, 0.75, 1.0, 5.0, 10.0, 30.0, 61.0]
        if nt is not None and nt > r.loop.time():
            choices += [nt - r.loop.time()] * 4
        r.advance(rng.choice(choices))
