"""TLC driver: run tla2tools, parse statistics / coverage / counterexamples.

Every invocation gets its own scratch metadir (removed afterwards).  A TLC crash
or time-out is a *machinery failure* (MachineryError -> exit 2), never a verdict.
"""
from __future__ import annotations

import os
import re
import shutil
import subprocess
import tempfile
import time
from dataclasses import dataclass, field

JAR = "/opt/veriftools/tla/tla2tools.jar"
CM = "/opt/veriftools/tla/CommunityModules-deps.jar"


class MachineryError(Exception):
    """The verification machinery itself failed (exit code 2)."""


@dataclass
class TLCResult:
    ok: bool = True                      # no invariant/property/assert violation
    generated: int = 0
    distinct: int = 0
    depth: int = 0
    coverage: dict = field(default_factory=dict)   # action -> (distinct, total)
    violation: dict | None = None        # {kind, name, trace}
    stdout: str = ""
    wall_s: float = 0.0
    cmd: str = ""

    def never_fired(self, ignore=()):
        return sorted(a for a, (d, t) in self.coverage.items() if t == 0 and a not in ignore)


_RE_STATS = re.compile(r"(\d+) states generated, (\d+) distinct states found")
_RE_DEPTH = re.compile(r"The depth of the complete state graph search is (\d+)")
_RE_COV = re.compile(r"^<(\w+) line \d+, col \d+ to line \d+, col \d+ of module (\w+)>: (\d+):(\d+)\s*$", re.M)
_RE_SIMSTAT = re.compile(r"The number of states generated: (\d+)")


def _parse(out: str, res: TLCResult, init_names=("Init",)):
    m = None
    for m in _RE_STATS.finditer(out):
        pass
    if m:
        res.generated, res.distinct = int(m.group(1)), int(m.group(2))
    m = _RE_DEPTH.search(out)
    if m:
        res.depth = int(m.group(1))
    m = _RE_SIMSTAT.search(out)
    if m and not res.generated:
        res.generated = int(m.group(1))
        res.distinct = res.generated
    # coverage: keep the *last* statistics block (TLC prints one at the end)
    idx = out.rfind("The coverage statistics at")
    if idx >= 0:
        blk = out[idx:]
        for mm in _RE_COV.finditer(blk):
            name = mm.group(1)
            d, t = int(mm.group(3)), int(mm.group(4))
            od, ot = res.coverage.get(name, (0, 0))
            res.coverage[name] = (od + d, ot + t)
    # violations
    kind = name = None
    mi = re.search(r"Error: Invariant (\S+) is violated", out)
    if mi:
        kind, name = "invariant", mi.group(1)
    else:
        mi = re.search(r"Error: Action property (\S+) is violated", out)
        if mi:
            kind, name = "action_property", mi.group(1)
        elif "Error: Temporal properties were violated" in out or re.search(r"Error: Temporal property (\S+) was violated", out):
            mt = re.search(r"Error: Temporal property (\S+) was violated", out)
            kind, name = "temporal", (mt.group(1) if mt else "temporal")
        elif re.search(r"Error: Deadlock reached", out):
            kind, name = "deadlock", "deadlock"
        elif re.search(r"Error: The (first|second) argument of Assert evaluated to FALSE", out) or \
                "Error: The following assertion failed" in out or "Assertion failed" in out:
            kind, name = "assert", "assert"
        elif re.search(r"Error: Evaluating assumption", out) or "Error: Assumption" in out:
            kind, name = "assumption", "assumption"
        elif re.search(r"Error: The postcondition .* is violated|POSTCONDITION .* (failed|violated)|postcondition", out, re.I) and "Error:" in out:
            kind, name = "postcondition", "postcondition"
    if kind:
        res.ok = False
        ti = out.find("Error: The behavior up to this point is:")
        if ti < 0:
            ti = out.find("Error: The following behavior constitutes a counter-example:")
        trace = ""
        mi0 = re.search(r"is violated by the initial state:\s*\n(.*?)(?:\n\s*\n|\Z)", out, re.S)
        if ti < 0 and mi0:
            # TLC prints the offending initial state without a behaviour block
            trace = "Error: The behavior up to this point is:\nState 1: <Initial predicate>\n" + mi0.group(1).strip() + "\n"
        if ti >= 0:
            te = out.find("The coverage statistics", ti)
            if te < 0:
                te = out.find("states generated", ti)
            trace = out[ti:te if te > 0 else None]
            trace = trace[:8000000]
        res.violation = {"kind": kind, "name": name, "trace": trace}


def run(tla: str, cfg: str | None = None, *, workers: int | str = 16, timeout: int = 900,
        simulate: str | None = None, depth: int | None = None, seed: int | None = None,
        coverage: bool = True, env: dict | None = None, extra: list | None = None,
        deadlock: bool | None = None, dfs_queue: bool = False, heap: str = "8g",
        allow_error: bool = False) -> TLCResult:
    """Run TLC on `tla` (absolute path) with config `cfg`.

    simulate: e.g. "num=1000" or "file=/x/tr,num=100" -> -simulate mode.
    """
    tla = os.path.abspath(tla)
    spec_dir = os.path.dirname(tla)
    if cfg is None:
        cfg = tla[:-4] + ".cfg"
    meta = tempfile.mkdtemp(prefix="tlcmeta_")
    # java.io.tmpdir inside the metadir: TLC unpacks its standard modules into <tmpdir>/tlc-*/ on every start
    jopts = ["-XX:+UseParallelGC", f"-Xmx{heap}", f"-Djava.io.tmpdir={meta}"]
    if dfs_queue:
        jopts.append("-Dtlc2.tool.queue.IStateQueue=StateDeque")
    cmd = ["java", *jopts, "-cp", f"{JAR}:{CM}", "tlc2.TLC", "-workers", str(workers),
           "-metadir", meta, "-noGenerateSpecTE", "-config", os.path.abspath(cfg)]
    if coverage:
        cmd += ["-coverage", "1"]
    if simulate is not None:
        cmd += ["-simulate", simulate]
    if depth is not None:
        cmd += ["-depth", str(depth)]
    if seed is not None:
        cmd += ["-seed", str(seed)]
    if deadlock is False:
        cmd += ["-deadlock"]
    if extra:
        cmd += list(extra)
    cmd.append(tla)
    e = dict(os.environ)
    e.pop("JAVA_TOOL_OPTIONS", None)
    if env:
        e.update({k: str(v) for k, v in env.items()})
    t0 = time.time()
    try:
        p = subprocess.run(cmd, cwd=spec_dir, env=e, capture_output=True, text=True, timeout=timeout)
    except subprocess.TimeoutExpired as ex:
        subprocess.run(["pkill", "-f", meta], check=False)
        raise MachineryError(f"TLC timed out after {timeout}s: {' '.join(cmd)}") from ex
    finally:
        shutil.rmtree(meta, ignore_errors=True)
    res = TLCResult(cmd=" ".join(cmd), wall_s=time.time() - t0)
    out = p.stdout + ("\n" + p.stderr if p.stderr else "")
    res.stdout = out
    _parse(out, res)
    if res.ok and p.returncode != 0 and not allow_error:
        # no recognised violation but TLC failed: parse error, evaluation error, OOM ...
        tail = "\n".join(out.splitlines()[-40:])
        raise MachineryError(f"TLC exited {p.returncode} without a recognised verdict:\n{tail}\ncmd: {res.cmd}")
    if res.ok and "Model checking completed. No error has been found" not in out \
            and simulate is None and not allow_error:
        tail = "\n".join(out.splitlines()[-40:])
        raise MachineryError(f"TLC did not complete:\n{tail}\ncmd: {res.cmd}")
    return res


def sany(tla: str) -> None:
    tmp = tempfile.mkdtemp(prefix="sany_")
    try:
        p = subprocess.run(["java", f"-Djava.io.tmpdir={tmp}", "-cp", f"{JAR}:{CM}", "tla2sany.SANY",
                            os.path.abspath(tla)],
                           cwd=os.path.dirname(os.path.abspath(tla)), capture_output=True, text=True, timeout=120)
    finally:
        shutil.rmtree(tmp, ignore_errors=True)
    if p.returncode != 0 or "Fatal errors" in p.stdout or "*** Errors" in p.stdout or "Parse Error" in p.stdout:
        raise MachineryError(f"SANY rejected {tla}:\n{p.stdout[-3000:]}")


# ---------------------------------------------------------------------------------------
# parsing TLA+ values printed by TLC (states in counterexamples / -simulate files / PrintT)
# ---------------------------------------------------------------------------------------
class _P:
    def __init__(self, s):
        self.s, self.i = s, 0

    def ws(self):
        while self.i < len(self.s) and self.s[self.i] in " \t\r\n":
            self.i += 1

    def peek(self, k=1):
        return self.s[self.i:self.i + k]

    def eat(self, tok):
        self.ws()
        if not self.s.startswith(tok, self.i):
            raise ValueError(f"expected {tok!r} at {self.i}: {self.s[self.i:self.i+40]!r}")
        self.i += len(tok)

    def value(self):
        self.ws()
        c = self.peek()
        if c == '"':
            j = self.i + 1
            out = []
            while self.s[j] != '"':
                if self.s[j] == "\\":
                    j += 1
                    out.append({"n": "\n", "t": "\t", "r": "\r"}.get(self.s[j], self.s[j]))
                else:
                    out.append(self.s[j])
                j += 1
            self.i = j + 1
            return "".join(out)
        if self.peek(2) == "<<":
            self.i += 2
            items = []
            self.ws()
            if self.peek(2) == ">>":
                self.i += 2
                return tuple(items)
            while True:
                items.append(self.value())
                self.ws()
                if self.peek(2) == ">>":
                    self.i += 2
                    return tuple(items)
                self.eat(",")
        if c == "{":
            self.i += 1
            items = []
            self.ws()
            if self.peek() == "}":
                self.i += 1
                return frozenset()
            while True:
                items.append(self.value())
                self.ws()
                if self.peek() == "}":
                    self.i += 1
                    return frozenset(items)
                self.eat(",")
        if c == "[":
            self.i += 1
            rec = {}
            self.ws()
            while True:
                self.ws()
                # field name or function-domain value
                save = self.i
                m = re.match(r"[A-Za-z_][A-Za-z0-9_]*", self.s[self.i:])
                if m and re.match(r"\s*\|->", self.s[self.i + m.end():]):
                    key = m.group(0)
                    self.i += m.end()
                    self.eat("|->")
                    rec[key] = self.value()
                else:
                    self.i = save
                    key = self.value()
                    self.ws()
                    self.eat(":>") if self.peek(2) == ":>" else self.eat("|->")
                    rec[key] = self.value()
                self.ws()
                if self.peek() == "]":
                    self.i += 1
                    return rec
                self.eat(",")
        if c == "(":
            # function printed as (a :> 1 @@ b :> 2)
            self.i += 1
            fn = {}
            while True:
                k = self.value()
                self.eat(":>")
                fn[k] = self.value()
                self.ws()
                if self.peek() == ")":
                    self.i += 1
                    return fn
                self.eat("@@")
        m = re.match(r"-?\d+", self.s[self.i:])
        if m:
            self.i += m.end()
            return int(m.group(0))
        m = re.match(r"[A-Za-z_][A-Za-z0-9_]*", self.s[self.i:])
        if m:
            self.i += m.end()
            w = m.group(0)
            return {"TRUE": True, "FALSE": False}.get(w, w)
        raise ValueError(f"cannot parse at {self.i}: {self.s[self.i:self.i+40]!r}")


def parse_value(s: str):
    p = _P(s)
    v = p.value()
    return v


def parse_state(text: str) -> dict:
    """Parse '/\\ a = 1\n/\\ b = <<>>' into a dict."""
    st = {}
    parts = re.split(r"^/\\ ", text.strip(), flags=re.M)
    for part in parts:
        part = part.strip()
        if not part:
            continue
        m = re.match(r"(\w+) = ", part)
        if not m:
            continue
        st[m.group(1)] = parse_value(part[m.end():])
    return st


_RE_SIM_STATE = re.compile(r"^\\\* <(\w+)[^>]*>\s*\nSTATE_(\d+) ==\s*\n(.*?)(?=^\\\* <|\Z|^={4,})", re.M | re.S)


def parse_sim_file(path: str):
    """Parse one behaviour file written by `-simulate file=...`: list of (action, state dict)."""
    txt = open(path).read()
    out = []
    for m in _RE_SIM_STATE.finditer(txt):
        body = m.group(3).strip()
        out.append((m.group(1), parse_state(body)))
    return out


def parse_counterexample(trace_text: str):
    """Parse the 'State n: <Action ...>' blocks of a TLC counterexample."""
    out = []
    for m in re.finditer(r"^State (\d+): <([^>]*)>\s*\n(.*?)(?=^State \d+:|\Z)", trace_text, re.M | re.S):
        act = m.group(2).split(" ")[0]
        try:
            st = parse_state(m.group(3))
        except (ValueError, IndexError):
            st = {"_raw": m.group(3)[:2000]}
        out.append((act, st))
    return out
