"""EXTCOAP driver: runs the real CoAPPairing / CoAPHomeKitConnection / EncryptionContext / EventResource on the
virtual-time loop against a reference accessory and records the event alphabet of spec/coap/CoapConn_Trace.tla.

Only aiocoap's `Context` is replaced (module attribute `aiohomekit.controller.coap.connection.Context`): the fake
hands every request to the driver, which plays the environment of the specification:

  pair-verify requests   answered by harness/refacc (real X25519 / Ed25519 / HKDF), or with an error TLV, a
                         NetworkError, or not at all (the 8 s budget expires on the virtual clock)
  encrypted requests     opened by the accessory side with the keys of the session they belong to (trial decryption
                         tells the session epoch and the nonce counter the controller used); answered honestly
                         (real AEAD, independent PDU writer), with 4.04, with undecryptable bytes, a NetworkError or
                         not at all (16 s budget)
  accessory events       PUT to the resource the library registered on its context: next counter / replay / wrong key /
                         key of an earlier session
  API callers            get / put / subscribe / unsubscribe / close / shutdown as concurrent tasks, cancellation,
                         zeroconf description updates with a changed address

Nothing here decides a verdict: the recorded trace is validated by TLC against the specification.
"""
from __future__ import annotations

import asyncio
import logging
import struct
import types

from . import vloop
from .refacc import accessory as A
from .refacc import crypto as C
from .refacc import tlv as T

logging.disable(logging.CRITICAL)

# accessory database (Pdu09): one accessory, one service (iid 1), characteristics 10 (bool), 11 (int32), 12 (bool),
# all secure read / secure write / notify.  The info phase of a connect is therefore NINFO = 2 requests.
DB = bytes.fromhex(
    "189919971a0201001691158f0610430000000000000000000000000000000702010014731323041025000000000000000000000000"
    "00000005020a000a02b3000c07010000270000000000132304100800000000000000000000000000000005020b000a02b3000c0710"
    "0000270000000000132304102600000000000000000000000000000005020c000a02b3000c07010000270000000f020000")
CHARS = (10, 11, 12)
NINFO = 2
ADDRS = {"a1": "fd00::1", "a2": "fd00::2", "a3": "fd00::3"}
PORT = 5683
OPS = {0x09: "db", 0x03: "read", 0x02: "write", 0x0B: "sub", 0x0C: "unsub"}
MAXCTR = 96

_U = "-0000-1000-8000-0026BB765291"
ACCESSORIES = [{"aid": 1, "services": [
    {"iid": 1, "type": "00000043" + _U, "characteristics": [
        {"iid": 10, "type": "00000025" + _U, "perms": ["pr", "pw", "ev"], "format": "bool", "value": False},
        {"iid": 11, "type": "00000008" + _U, "perms": ["pr", "pw", "ev"], "format": "int", "value": 0},
        {"iid": 12, "type": "00000026" + _U, "perms": ["pr", "pw", "ev"], "format": "bool", "value": False}]}]}]


def _nonce(ctr):
    return b"\x00\x00\x00\x00" + struct.pack("<Q", ctr)


class AccSession:
    """Accessory end of one encrypted CoAP session (one per successful pair-verify)."""

    def __init__(self, e, x, keys):
        self.e, self.x = e, x
        self.c2a, self.a2c, self.evk = keys["c2a"], keys["a2c"], keys["event"]
        self.rctr = 0          # next request counter expected
        self.sctr = 0          # next response counter
        self.evn = 0           # next event counter
        self.reg = set()       # iids registered for events
        self.events = []       # sealed genuine events, index = counter


class Req:
    def __init__(self, r, ctx, fut, kind, c):
        self.r, self.ctx, self.fut, self.kind, self.c = r, ctx, fut, kind, c
        self.items = None      # pair-verify TLV items / parsed PDUs
        self.sess = None       # AccSession the request opened under
        self.processed = False
        self.cancel_requested = False
        self.logged_end = False


class FakeCtx:
    """Stands for aiocoap.Context (server context with a root Site)."""

    def __init__(self, run, x, root):
        self.run, self.x, self.root, self.shut = run, x, root, False

    def request(self, msg):
        return self.run.on_request(self, msg)

    async def shutdown(self):
        self.run.on_shutdown(self)


class Run:
    """One execution of the real code; `events` is the recorded trace."""

    def __init__(self, ncallers=3, wanted=(), preset_info=False):
        import aiohomekit.controller.coap.connection as cc
        from aiohomekit.characteristic_cache import CharacteristicCacheMemory
        from aiohomekit.controller.coap.pairing import CoAPPairing
        self.cc = cc
        self.events = []
        self.loop = vloop.new_loop()
        self.loop.set_exception_handler(self._loop_exc)
        self.loop_exceptions = []
        self.ident = A.Identity()
        self.ctrl = A.ControllerIdentity()
        pdata = self.ident.pairing_data(self.ctrl, hosts=(ADDRS["a1"],), port=PORT)
        pdata["Connection"] = "CoAP"
        self.ctxs = []             # FakeCtx, id = index + 1
        self.reqs = []             # Req, id = index + 1
        self.asess = []            # AccSession, epoch = index + 1
        self.pv = {}               # ctx id -> PairVerify in progress
        self.advancing = False
        self.listener_calls = []
        run = self

        class Factory:
            @staticmethod
            async def create_server_context(root, bind=None, **kw):
                return run.new_ctx(root)

            @staticmethod
            async def create_client_context(*a, **kw):
                return run.new_ctx(None)
        self._orig_context = cc.Context
        cc.Context = Factory
        import aiohomekit.controller.coap.pairing as cp
        self.cp = cp
        self._orig_create_task = cp.async_create_task

        def create_task(coro, *, name=None):
            async def wrapped():
                try:
                    await coro
                except BaseException as ex:  # noqa: BLE001
                    run.log("bg", ok=False, err=f"{type(ex).__name__}: {ex}")
                    raise
                run.log("bg", ok=True, err="")
            return run._orig_create_task(wrapped(), name=name)
        cp.async_create_task = create_task
        controller = types.SimpleNamespace(_char_cache=CharacteristicCacheMemory(), pairings={}, aliases={})

        async def mk():
            p = CoAPPairing(controller, pdata)
            p.restore_accessories_state(ACCESSORIES, 1, None)
            return p
        self.pairing = self.loop.run_until_complete(mk())
        self.pairing.subscriptions.update((1, i) for i in wanted)
        self.init_wanted = sorted(wanted)
        self.pairing.dispatcher_connect(self.listener_calls.append)
        self.callers = {}          # c -> (task, api)
        self.task_caller = {}      # task -> c
        self.free = list(range(1, ncallers + 1))
        self.shutdown_called = False
        self.addr = "a1"

    def _loop_exc(self, loop, context):
        self.loop_exceptions.append(str(context.get("exception") or context.get("message")))

    # ------------------------------------------------------------------ logging
    def log(self, ev, **kw):
        rec = {"ev": ev}
        rec.update(kw)
        self.events.append(rec)

    # ------------------------------------------------------------------ fake aiocoap
    def new_ctx(self, root):
        ctx = FakeCtx(self, len(self.ctxs) + 1, root)
        self.ctxs.append(ctx)
        self.log("ctx_new", x=ctx.x)
        return ctx

    def on_shutdown(self, ctx):
        from aiocoap.error import LibraryShutdown
        self.log("ctx_shut", x=ctx.x, again=ctx.shut)
        ctx.shut = True
        # aiocoap: "this error is raised in all outstanding requests" (tokenmanager.shutdown)
        for q in self.reqs:
            if q.ctx is ctx and not q.fut.done():
                q.logged_end = True
                q.fut.set_exception(LibraryShutdown())

    def _caller_of_current_task(self):
        try:
            t = asyncio.current_task()
        except RuntimeError:
            t = None
        return self.task_caller.get(t, 0)

    def on_request(self, ctx, msg):
        fut = self.loop.create_future()
        path = tuple(msg.opt.uri_path)
        host = str(getattr(msg, "unresolved_remote", "") or "")
        addr = next((k for k, v in ADDRS.items() if host == f"[{v}]:{PORT}"), "?")
        payload = bytes(msg.payload)
        c = self._caller_of_current_task()
        if path == ("2",):
            try:
                items = T.dec(payload)
                st = dict(items).get(T.STATE)
            except ValueError:
                items, st = [], None
            kind = {b"\x01": "m1", b"\x03": "m3"}.get(st, "pv?")
            req = Req(len(self.reqs) + 1, ctx, fut, kind, c)
            req.items = items
            self.reqs.append(req)
            self.log("req", x=ctx.x, r=req.r, c=c, kind=kind, addr=addr, e=0, n=0, op="", ids=[])
        else:
            req = Req(len(self.reqs) + 1, ctx, fut, "enc", c)
            self.reqs.append(req)
            e, n, plain = 0, -1, None
            for s in self.asess:
                for k in range(MAXCTR):
                    plain = C.open_(s.c2a, _nonce(k), payload)
                    if plain is not None:
                        e, n, req.sess = s.e, k, s
                        break
                if plain is not None:
                    break
            op, ids, pdus = "?", [], []
            if plain is not None:
                try:
                    p = 0
                    while p < len(plain):
                        ctl, opc, tid, iid, ln = struct.unpack("<BBBHH", plain[p:p + 7])
                        pdus.append((opc, tid, iid, plain[p + 7:p + 7 + ln]))
                        p += 7 + ln
                    ops = {OPS.get(o[0], "?") for o in pdus}
                    op = ops.pop() if len(ops) == 1 else "?"
                    ids = sorted(o[2] for o in pdus)
                except struct.error:
                    op = "?"
            req.items = pdus
            # the accessory processes a request it can open with its next counter, on a context that is still there
            s = req.sess
            if s is not None and not ctx.shut and n == s.rctr and ctx.x == s.x and path == ():
                s.rctr += 1
                req.processed = True
                if op == "sub":
                    s.reg |= set(ids)
                elif op == "unsub":
                    s.reg -= set(ids)
            self.log("req", x=ctx.x, r=req.r, c=c, kind="enc", addr=addr, e=e, n=n, op=op, ids=ids)
        fut.add_done_callback(lambda f, req=req: self._req_done(req))
        if ctx.shut:
            from aiocoap.error import LibraryShutdown
            req.logged_end = True
            fut.set_exception(LibraryShutdown())       # aiocoap: a request on a context that was shut down
        return types.SimpleNamespace(response=fut)

    def _req_done(self, req):
        # runs before the awaiting task is resumed (registered first)
        if req.fut.cancelled() and not req.logged_end:
            req.logged_end = True
            if not req.cancel_requested:
                self.log("tmo", r=req.r)

    # ------------------------------------------------------------------ loop control
    def step(self, n=1):
        for _ in range(n):
            self.loop.call_soon(self.loop.stop)
            self.loop.run_forever()

    def settle(self):
        self.loop.settle()

    def advance(self, dt):
        self.settle()
        self.advancing = True
        try:
            self.loop.advance(dt)
        finally:
            self.advancing = False

    def pending(self):
        return [q for q in self.reqs if not q.fut.done()]

    def active(self):
        return {c: v for c, v in self.callers.items() if not v[0].done()}

    # ------------------------------------------------------------------ stimuli: API
    def call(self, api, ids=(), step=True):
        if not self.free:
            return None
        c = self.free.pop(0)
        p = self.pairing
        ids = sorted(ids)

        async def w():
            self.log("call", c=c, api=api, ids=list(ids))
            msg = ""
            try:
                if api == "get":
                    await p.get_characteristics([(1, i) for i in ids])
                elif api == "put":
                    await p.put_characteristics([(1, i, (True if i != 11 else 7)) for i in ids])
                elif api == "sub":
                    await p.subscribe([(1, i) for i in ids])
                elif api == "unsub":
                    await p.unsubscribe([(1, i) for i in ids])
                elif api == "close":
                    await p.close()
                elif api == "shutdown":
                    await p.shutdown()
                else:
                    raise AssertionError(api)
                res = "ok"
            except asyncio.CancelledError:
                res = "cancelled"
            except BaseException as ex:  # noqa: BLE001
                from aiohomekit import exceptions as X
                if isinstance(ex, X.AccessoryDisconnectedError):
                    res = "disconnected"
                elif isinstance(ex, X.EncryptionError):
                    res = "encryption"
                elif isinstance(ex, X.HomeKitException):
                    res = "lib:" + type(ex).__name__
                else:
                    # class of a non-library exception: type, and for AttributeError the attribute that was missing
                    res = f"error:{type(ex).__name__}"
                    if isinstance(ex, AttributeError):
                        res += ":" + (str(ex).split("'")[-2] if str(ex).count("'") >= 2 else "?")
                    msg = f"{type(ex).__name__}: {ex}"[:160]
            self.log("ret", c=c, res=res, msg=msg)
            self.callers.pop(c, None)
            self.free.append(c)
            self.free.sort()
        if api == "shutdown":
            self.shutdown_called = True
        task = self.loop.create_task(w())
        self.callers[c] = (task, api)
        self.task_caller[task] = c
        if step:
            self.step(1)
        return c

    def cancellable(self, c):
        """Cancellation is a stimulus only where the specification has an opinion (see CoapConn.tla, Cancellable)."""
        task, api = self.callers[c]
        if task.done() or api in ("close", "shutdown") or task.cancelling():
            return False
        mine = [q for q in self.reqs if q.c == c and not q.logged_end and not q.fut.cancelled()]
        inflight = [q for q in mine if not q.fut.done()]
        if any(q.fut.done() and not q.logged_end for q in mine):
            return False              # a response is on its way to the task: let it be consumed first
        if inflight:
            q = inflight[-1]
            return q.kind in ("m1", "m3") or (q.kind == "enc" and self.phase_of(c) == "op")
        # not in flight: waiting for the primary, or queued on the session lock
        ph = self.phase_of(c)
        return ph == "wait" or (ph == "opq" and api != "sub")

    def phase_of(self, c):
        """Where caller c is, from white-box inspection of the pairing (used only to choose stimuli)."""
        p = self.pairing
        task, api = self.callers[c]
        waiters = getattr(p.connection_lock, "_waiters", ())
        coro = task.get_coro()
        # walk the await chain
        names = []
        cur = coro
        while cur is not None:
            code = getattr(cur, "cr_code", None) or getattr(cur, "gi_code", None)
            names.append(code.co_name if code else type(cur).__name__)
            cur = getattr(cur, "cr_await", None) or getattr(cur, "gi_yieldfrom", None)
        if "wait" in names and "_ensure_connected" in names:
            return "wait"
        if "connect" in names or ("_ensure_connected" in names and "subscribe_to" in names):
            return "primary"
        if "post_bytes" in names:
            return "op" if "timeout" in " ".join(names) or any(not q.fut.done() and q.c == c for q in self.reqs) else "opq"
        return "other"

    def cancel(self, c):
        task, api = self.callers[c]
        self.log("cancel", c=c)
        for q in self.reqs:
            if q.c == c and not q.fut.done():
                q.cancel_requested = True
        task.cancel()

    def descr(self, addr):
        from aiohomekit.model import Categories
        from aiohomekit.model.feature_flags import FeatureFlags
        from aiohomekit.model.status_flags import StatusFlags
        from aiohomekit.zeroconf import HomeKitService
        a = ADDRS[addr]
        d = HomeKitService(name="Sim", id=self.ident.acc_id.lower(), model="m", feature_flags=FeatureFlags(0),
                           status_flags=StatusFlags(0), config_num=1, state_num=1, category=Categories(1),
                           protocol_version="1.1", type="_hap._udp.local.", address=a, addresses=[a], port=PORT)

        def f():
            self.log("descr", addr=addr)
            self.pairing._async_description_update(d)
        self.settle()
        self.loop.call_soon(f)
        self.step(1)

    # ------------------------------------------------------------------ stimuli: accessory / network
    def rsp(self, r, how, variant=0, step=True):
        """Answer request r.  how: ok | err (pair-verify error TLV) | notfound | garbage | neterr.
        step=False leaves the woken task unrun (the caller of this method runs the loop itself)."""
        from aiocoap.error import NetworkError
        from aiocoap.numbers.codes import Code
        self.settle()                      # I/O is polled when no task is runnable
        q = self.reqs[r - 1]
        if q.fut.done():
            return False
        if q.ctx.shut:
            return False                   # nothing comes back on a context that was shut down
        resp = None
        exc = None
        if how == "neterr":
            exc = NetworkError("simulated: host unreachable")
        elif q.kind in ("m1", "m3"):
            if how == "ok" and q.kind == "m1":
                pv = self.pv[q.ctx.x] = A.PairVerify(self.ident)
                resp = types.SimpleNamespace(code=Code.CHANGED, payload=T.enc(pv.on_m1(q.items)))
            elif how == "ok":
                pv = self.pv.get(q.ctx.x)
                if pv is None:
                    return False
                out = pv.on_m3(q.items)
                if not pv.verified:
                    raise AssertionError(f"reference accessory rejected the controller's M3: {pv.error}")
                s = AccSession(len(self.asess) + 1, q.ctx.x, pv.keys(coap=True))
                self.asess.append(s)
                resp = types.SimpleNamespace(code=Code.CHANGED, payload=T.enc(out))
            else:
                how = "err"
                st = b"\x02" if q.kind == "m1" else b"\x04"
                body = [T.enc([(T.STATE, st), (T.ERROR, b"\x02")]),          # authentication
                        T.enc([(T.STATE, st), (T.ERROR, b"\x07")]),          # busy
                        T.enc([(T.STATE, b"\x06")]),                         # wrong state
                        b"\x06"][variant % 4]                                # truncated TLV
                resp = types.SimpleNamespace(code=Code.CHANGED, payload=body)
        else:
            s = q.sess
            if how == "ok":
                if s is None or not q.processed:
                    return False           # the accessory could not open it: it has nothing honest to say
                out = bytearray()
                for opc, tid, iid, body in q.items:
                    if opc == 0x09:
                        b = DB
                    elif opc == 0x03:
                        b = {10: b"\x01\x01\x01", 11: b"\x01\x04\x15\x00\x00\x00", 12: b"\x01\x01\x00"}.get(iid, b"")
                    else:
                        b = b""
                    out += struct.pack("<BBBH", 0x02, tid, 0, len(b)) + b
                resp = types.SimpleNamespace(code=Code.CHANGED, payload=C.seal(s.a2c, _nonce(s.sctr), bytes(out)))
                s.sctr += 1
            elif how == "notfound":
                resp = types.SimpleNamespace(code=Code.NOT_FOUND, payload=b"")
            elif how == "garbage":
                n = 21 + 7 * (variant % 5)
                resp = types.SimpleNamespace(code=Code.CHANGED, payload=C.rand(n))
            else:
                raise AssertionError(how)
        self.log("rsp", r=r, how=how)
        q.logged_end = True
        if exc is not None:
            q.fut.set_exception(exc)
        else:
            q.fut.set_result(resp)
        if step:
            self.step(1)                   # the waiting task consumes the response
        return True

    def tmo(self, r):
        """Let virtual time pass until request r's budget expires (earlier timers fire on the way)."""
        q = self.reqs[r - 1]
        for _ in range(64):
            if q.fut.done():
                return True
            self.settle()
            nt = self.loop.next_timer()
            if nt is None:
                return False
            self.advance(max(0.0, nt - self.loop.time()))
        return q.fut.done()

    def event(self, kind, iid=None):
        """An accessory event PUT to the live context.  kind: next | replay | wrongkey | oldsess | skip."""
        self.settle()
        live = [s for s in self.asess if not self.ctxs[s.x - 1].shut]
        cur = live[-1] if live else None
        if cur is None or not cur.reg:
            return False
        ctx = self.ctxs[cur.x - 1]
        iid = iid if iid is not None else sorted(cur.reg)[0]
        body = {10: b"\x01\x01\x01", 11: b"\x01\x04\x2a\x00\x00\x00", 12: b"\x01\x01\x01"}[iid]
        pt = struct.pack("<BHH", 0, iid, len(body)) + body
        key, k = "cur", cur.evn
        if kind == "next":
            ct = C.seal(cur.evk, _nonce(k), pt)
            cur.events.append((k, ct))
            cur.evn += 1
        elif kind == "replay":
            if not cur.events:
                return False
            k, ct = cur.events[(len(cur.events) * 7 + iid) % len(cur.events)]
        elif kind == "wrongkey":
            key = "wrong"
            ct = C.seal(C.rand(32), _nonce(k), pt)
        elif kind == "oldsess":
            old = [s for s in self.asess if s is not cur]
            if not old:
                return False
            key, k = "old", old[-1].evn
            ct = C.seal(old[-1].evk, _nonce(k), pt)
        elif kind == "skip":
            k = cur.evn + 1                                     # an event was lost: the accessory is one ahead
            ct = C.seal(cur.evk, _nonce(k), pt)
            cur.events.append((k, ct))
            cur.evn += 2
        else:
            raise AssertionError(kind)
        res = ctx.root._resources.get(()) if ctx.root is not None else None
        before = len(self.listener_calls)
        err = ""
        if res is None:
            code = "4.04"
        else:
            try:
                out = self.loop.run_until_complete(res.render_put(types.SimpleNamespace(payload=ct)))
                code = out.code.dotted
            except Exception as ex:  # noqa: BLE001
                code = "5.00"
                err = f"{type(ex).__name__}: {ex}"
        calls = self.listener_calls[before:]
        got = sorted(kk[1] for ev in calls if isinstance(ev, dict) for kk in ev)
        self.log("event", e=cur.e, kind=kind, key=key, k=k, iid=iid, delivered=got, code=code, err=err)
        return True

    # ------------------------------------------------------------------ observations
    def obs(self):
        self.settle()
        p = self.pairing
        self.log("obs", connected=bool(p.is_connected), live=[c.x for c in self.ctxs if not c.shut],
                 wanted=sorted(i for _, i in p.subscriptions), busy=sorted(self.active()),
                 reg=sorted(self.asess[-1].reg) if self.asess else [])

    def honest_tail(self):
        """The environment turns honest; every call must return."""
        for _ in range(400):
            self.settle()
            live = [q for q in self.pending() if not q.ctx.shut]
            if live:
                if not self.rsp(live[0].r, "ok"):
                    self.tmo(live[0].r)
                continue
            if self.pending():
                self.tmo(self.pending()[0].r)
                continue
            break
        self.settle()
        self.advance(40)
        self.obs()
        self.log("end", busy=sorted(self.active()))

    def close(self):
        self.cc.Context = self._orig_context
        self.cp.async_create_task = self._orig_create_task
        vloop.close_loop(self.loop)

    def record(self, rid):
        return {"id": rid, "wanted0": self.init_wanted, "events": self.events,
                "loop_exceptions": self.loop_exceptions[:5]}


# ---------------------------------------------------------------------- random driver
def random_stimulus(r: Run, rng):
    opts = []
    for q in r.pending():
        if q.ctx.shut:
            opts += [("tmo", q.r)]
            continue
        opts += [("rsp", q.r, "ok")] * 10 + [("tmo", q.r)] * 2 + [("rsp", q.r, "neterr")]
        if q.kind in ("m1", "m3"):
            opts += [("rsp", q.r, "err")] * 2
        else:
            opts += [("rsp", q.r, "notfound"), ("rsp", q.r, "garbage")]
    if r.free and not r.shutdown_called:
        sub = rng.sample(CHARS, rng.randrange(1, 3))
        opts += [("call", "get", [rng.choice(CHARS)])] * 3 + [("call", "put", [rng.choice(CHARS)])] * 2
        opts += [("call", "sub", sub)] * 3 + [("call", "unsub", sub)]
        if rng.random() < 0.6:
            opts += [("call", "close", [])]
        if rng.random() < 0.15:
            opts += [("call", "shutdown", [])]
    for c in list(r.active()):
        if r.cancellable(c):
            opts.append(("cancel", c))
    if not r.shutdown_called:
        opts += [("descr", rng.choice(["a1", "a2", "a3"]))]
    opts += [("event", k) for k in ("next", "next", "next", "replay", "wrongkey", "oldsess", "skip")]
    opts += [("step",)] * 2
    o = rng.choice(opts)
    if o[0] == "rsp":
        r.rsp(o[1], o[2], rng.randrange(8))
    elif o[0] == "tmo":
        r.tmo(o[1])
    elif o[0] == "call":
        r.call(o[1], o[2])
    elif o[0] == "cancel":
        r.cancel(o[1])
    elif o[0] == "descr":
        r.descr(o[1])
    elif o[0] == "event":
        r.event(o[1])
    elif o[0] == "step":
        r.step(rng.randrange(1, 3))


def random_run(rng, rid, nsteps=30):
    r = Run(ncallers=3, wanted=rng.choice([(), (), (10,), (10, 11)]))
    try:
        for _ in range(nsteps):
            random_stimulus(r, rng)
            x = rng.random()
            if x < 0.5:
                r.obs()
            elif x < 0.8:
                r.settle()
        r.honest_tail()
        return r
    except BaseException:
        r.close()
        raise
