"""C20 driver: file-system call recorder, input generators, process-life runner, restart oracle.

Nothing in here decides a verdict: it records what the real code does at the file-system boundary,
turns that into records for spec/persist/Persistence_Trace.tla, concretises the crash images the
specification enumerates (role -> [stream, prefix length]) into real directories and reports what a
fresh object graph of the real code loads from them.
"""
from __future__ import annotations

import asyncio
import base64
import builtins
import enum
import io
import json
import os
import shutil
import uuid

from harness.common import MachineryError

NONE, ERR, ALIEN, IDLE = -1, -2, -3, -9
PAIRING_FILE = "pairing.json"
CACHE_FILE = "charmap.json"
NJUNK = 8


# ---------------------------------------------------------------------------------------
# typed canonical form (1, 1.0, True and "1" stay different) and flat "path=value" lines
# ---------------------------------------------------------------------------------------
def canon(o):
    if o is None:
        return "n:"
    if isinstance(o, bool):
        return "b:true" if o else "b:false"
    if isinstance(o, enum.Enum):
        return f"e:{type(o).__name__}:{o.value!r}"
    if isinstance(o, int):
        return f"i:{o}"
    if isinstance(o, float):
        return f"f:{o!r}"
    if isinstance(o, str):
        return "s:" + o
    if isinstance(o, (bytes, bytearray)):
        return "x:" + bytes(o).hex()
    if isinstance(o, (list, tuple)):
        return [canon(x) for x in o]
    if isinstance(o, dict):
        return {str(k): canon(v) for k, v in sorted(o.items(), key=lambda kv: str(kv[0]))}
    return "o:" + repr(o)


def flat(prefix, c, out):
    if isinstance(c, list):
        if not c:
            out.append(f"{prefix}=[]")
        for i, x in enumerate(c):
            flat(f"{prefix}/{i}", x, out)
    elif isinstance(c, dict):
        if not c:
            out.append(f"{prefix}={{}}")
        for k, v in c.items():
            flat(f"{prefix}/{json.dumps(k)}", v, out)
    else:
        out.append(f"{prefix}={c}")
    return out


# ---------------------------------------------------------------------------------------
# file-system call recorder
# ---------------------------------------------------------------------------------------
class _FileProxy:
    """Stands in for the file object returned by open(); forwards everything, records write/flush/close."""

    def __init__(self, rec, real, hid, binary):
        self.__dict__["_rec"] = rec
        self.__dict__["_real"] = real
        self.__dict__["_hid"] = hid
        self.__dict__["_binary"] = binary
        self.__dict__["_done"] = False

    def write(self, s):
        if self._binary:
            data = bytes(s)
        else:
            data = s.encode(self._real.encoding or "utf-8", self._real.errors or "strict")
        r = self._real.write(s)
        self._rec._ev("write", h=self._hid, data=data)
        return r

    def writelines(self, lines):
        for ln in lines:
            self.write(ln)

    def flush(self):
        self._real.flush()
        self._rec._ev("flush", h=self._hid)

    def close(self):
        if self._done:
            return self._real.close()
        self.__dict__["_done"] = True
        try:
            self._real.close()
        finally:
            self._rec._closed(self._hid)

    def truncate(self, *a):
        self._rec.unmodelled.append("truncate() on an open handle")
        return self._real.truncate(*a)

    def seek(self, *a):
        if a and (a[0] != 0 or (len(a) > 1 and a[1] != 1)):
            self._rec.unmodelled.append("seek() on a handle opened for writing")
        return self._real.seek(*a)

    def __enter__(self):
        return self

    def __exit__(self, *exc):
        self.close()
        return False

    def __iter__(self):
        return iter(self._real)

    def __getattr__(self, name):
        return getattr(self._real, name)

    def __setattr__(self, name, value):
        setattr(self._real, name, value)

    def __del__(self):
        try:
            if not self._done:
                self.close()
        except Exception:  # noqa: BLE001
            pass


class FsRecorder:
    """Records the calls that modify files below `root` while active (single thread)."""

    _PATCH_OS = ("open", "write", "close", "fsync", "fdatasync", "replace", "rename", "unlink", "remove",
                 "truncate", "ftruncate", "link", "symlink", "sendfile", "copy_file_range", "pwrite", "writev")

    def __init__(self, root):
        self.root = os.path.realpath(root)
        self.events: list[dict] = []
        self.unmodelled: list[str] = []
        self._fd_hid: dict[int, int] = {}
        self._hid_fd: dict[int, int] = {}
        self._nh = 0
        self._orig = {}

    # -- helpers
    def _inroot(self, path):
        try:
            p = os.fspath(path)
        except TypeError:
            return None
        if isinstance(p, bytes):
            p = os.fsdecode(p)
        p = os.path.realpath(p)
        return p if p.startswith(self.root + os.sep) else None

    def _ev(self, op, **kw):
        self.events.append({"op": op, **kw})

    def mark(self, op, kind, k):
        self._ev(op, kind=kind, k=k)

    def _new_handle(self, path, fd):
        self._nh += 1
        self._fd_hid[fd] = self._nh
        self._hid_fd[self._nh] = fd
        self._ev("open", path=path, h=self._nh)
        return self._nh

    def _closed(self, hid):
        fd = self._hid_fd.pop(hid, None)
        if fd is not None:
            self._fd_hid.pop(fd, None)
        self._ev("close", h=hid)

    # -- wrappers
    def _open(self, file, mode="r", *args, **kwargs):
        o = self._orig
        writable = any(c in mode for c in "wxa+")
        pre_exists = None
        path = None
        if writable and not isinstance(file, int):
            path = self._inroot(file)
            if path and "opener" not in kwargs and not (len(args) >= 6 and args[5] is not None):
                pre_exists = os.path.exists(path)
        real = o["builtins.open"](file, mode, *args, **kwargs)
        if not writable:
            return real
        try:
            fd = real.fileno()
        except (OSError, ValueError, AttributeError):
            return real
        hid = self._fd_hid.get(fd)
        if hid is None:
            if path is None or isinstance(file, int):
                return real                       # not below root (or a foreign descriptor)
            if "w" in mode or "x" in mode or pre_exists is False:
                hid = self._new_handle(path, fd)
            else:
                self.unmodelled.append(f"open({os.path.basename(path)!r}, {mode!r}) without truncation")
                return real
        return _FileProxy(self, real, hid, "b" in mode)

    def _os_open(self, path, flags, mode=0o777, *, dir_fd=None):
        p = self._inroot(path) if dir_fd is None else None
        wr = flags & (os.O_WRONLY | os.O_RDWR)
        existed = os.path.exists(p) if (p and wr) else None
        fd = self._orig["os.open"](path, flags, mode, dir_fd=dir_fd)
        if p and wr:
            if (flags & os.O_TRUNC) or not existed:
                self._new_handle(p, fd)
            else:
                self.unmodelled.append(f"os.open({os.path.basename(p)!r}) for writing without O_TRUNC")
        return fd

    def _os_write(self, fd, data):
        r = self._orig["os.write"](fd, data)
        hid = self._fd_hid.get(fd)
        if hid is not None:
            self._ev("write", h=hid, data=bytes(data)[:r])
            self._ev("flush", h=hid)          # no user-space buffer
        return r

    def _os_close(self, fd):
        hid = self._fd_hid.get(fd)
        r = self._orig["os.close"](fd)
        if hid is not None:
            self._closed(hid)
        return r

    def _os_fsync(self, fd):
        r = self._orig["os.fsync"](fd)
        hid = self._fd_hid.get(fd if isinstance(fd, int) else fd.fileno())
        if hid is not None:
            self._ev("fsync", h=hid)
        return r

    def _os_fdatasync(self, fd):
        r = self._orig["os.fdatasync"](fd)
        hid = self._fd_hid.get(fd if isinstance(fd, int) else fd.fileno())
        if hid is not None:
            self._ev("fsync", h=hid)
        return r

    def _mk_rename(self, name):
        def f(src, dst, **kw):
            s, d = self._inroot(src), self._inroot(dst)
            r = self._orig[name](src, dst, **kw)
            if s and d:
                self._ev("replace", src=s, dst=d)
            elif s or d:
                self.unmodelled.append(f"{name} across the directory under test")
            return r
        return f

    def _mk_unlink(self, name):
        def f(path, **kw):
            p = self._inroot(path)
            r = self._orig[name](path, **kw)
            if p:
                self._ev("unlink", path=p)
            return r
        return f

    def _mk_unmodelled(self, name, path_args=(), fd_args=()):
        def f(*a, **kw):
            for i in path_args:
                if i < len(a) and self._inroot(a[i]):
                    self.unmodelled.append(f"{name}()")
            for i in fd_args:
                if i < len(a) and isinstance(a[i], int) and a[i] in self._fd_hid:
                    self.unmodelled.append(f"{name}()")
            return self._orig[name](*a, **kw)
        return f

    def __enter__(self):
        o = self._orig
        o["builtins.open"] = builtins.open
        o["io.open"] = io.open
        for n in self._PATCH_OS:
            if hasattr(os, n):
                o["os." + n] = getattr(os, n)
        builtins.open = self._open
        io.open = self._open
        os.open = self._os_open
        os.write = self._os_write
        os.close = self._os_close
        os.fsync = self._os_fsync
        if "os.fdatasync" in o:
            os.fdatasync = self._os_fdatasync
        os.replace = self._mk_rename("os.replace")
        os.rename = self._mk_rename("os.rename")
        os.unlink = self._mk_unlink("os.unlink")
        os.remove = self._mk_unlink("os.remove")
        os.truncate = self._mk_unmodelled("os.truncate", path_args=(0,), fd_args=(0,))
        os.ftruncate = self._mk_unmodelled("os.ftruncate", fd_args=(0,))
        os.link = self._mk_unmodelled("os.link", path_args=(0, 1))
        os.symlink = self._mk_unmodelled("os.symlink", path_args=(0, 1))
        for n in ("sendfile", "copy_file_range"):
            if "os." + n in o:
                setattr(os, n, self._mk_unmodelled("os." + n, fd_args=(0, 1)))
        for n in ("pwrite", "writev"):
            if "os." + n in o:
                setattr(os, n, self._mk_unmodelled("os." + n, fd_args=(0,)))
        return self

    def __exit__(self, *exc):
        o = self._orig
        builtins.open = o["builtins.open"]
        io.open = o["io.open"]
        for k, v in o.items():
            if k.startswith("os."):
                setattr(os, k[3:], v)
        return False


# ---------------------------------------------------------------------------------------
# event loop (ZeroconfController.__init__ and the pairing classes want a running loop)
# ---------------------------------------------------------------------------------------
_LOOP = {}


def in_loop(fn, *a, **kw):
    pid = os.getpid()
    loop = _LOOP.get(pid)
    if loop is None:
        _LOOP.clear()
        loop = _LOOP[pid] = asyncio.new_event_loop()

    async def co():
        return fn(*a, **kw)
    return loop.run_until_complete(co())


class _NoZeroconf:
    zeroconf = None


ALL_TRANSPORTS = ("IP", "CoAP", "BLE")


def new_object_graph(dirpath, pairing_file=PAIRING_FILE, enabled=ALL_TRANSPORTS):
    """What a starting process builds: file-backed cache, controller with the transports that are available
    in that process (Controller.async_start registers them according to *_TRANSPORT_SUPPORTED)."""
    import pathlib

    from aiohomekit.characteristic_cache import CharacteristicCacheFile
    from aiohomekit.controller import Controller
    from aiohomekit.controller.abstract import TransportType
    from aiohomekit.controller.ble.controller import BleController
    from aiohomekit.controller.coap.controller import CoAPController
    from aiohomekit.controller.ip.controller import IpController

    cache = CharacteristicCacheFile(pathlib.Path(os.path.join(dirpath, CACHE_FILE)))
    zc = _NoZeroconf()
    c = Controller(async_zeroconf_instance=zc, char_cache=cache)
    if "IP" in enabled:
        c.transports[TransportType.IP] = IpController(char_cache=cache, zeroconf_instance=zc)
    if "CoAP" in enabled:
        c.transports[TransportType.COAP] = CoAPController(char_cache=cache, zeroconf_instance=zc)
    if "BLE" in enabled:
        c.transports[TransportType.BLE] = BleController(char_cache=cache)
    return cache, c


# ---------------------------------------------------------------------------------------
# projections (public attributes only; the same function is applied before and after)
# ---------------------------------------------------------------------------------------
def _attr(o, *names):
    for n in names:
        o = getattr(o, n)
    return o


def proj_pairings(controller):
    """keys, identifiers, addresses, connection type of every pairing, by alias"""
    out = []
    for alias, p in controller.aliases.items():
        base = f"pairing/{json.dumps(alias)}"
        flat(base + "/data", canon(dict(p.pairing_data)), out)
        out.append(f"{base}/id={canon(p.id)}")
        out.append(f"{base}/transport={canon(p.transport)}")
        for label, names in (("hosts", ("connection", "hosts")), ("port", ("connection", "port")),
                             ("coap_address", ("connection", "address")), ("ble_address", ("address",))):
            try:
                flat(f"{base}/{label}", canon(_attr(p, *names)), out)
            except (AttributeError, KeyError):
                pass
    flat("pairing_ids", canon(sorted(controller.pairings)), out)
    return sorted(out)


def _char_value(ch):
    try:
        return canon(ch.value)
    except Exception as ex:  # noqa: BLE001 - a value the model itself cannot decode: same on both sides
        return f"raise:{type(ex).__name__}"


def proj_accessories(controller):
    """the accessory database every pairing holds after construction"""
    out = []
    for alias, p in controller.aliases.items():
        base = f"db/{json.dumps(alias)}"
        out.append(f"{base}/config_num={canon(p.config_num)}")
        out.append(f"{base}/state_num={canon(p.state_num)}")
        out.append(f"{base}/broadcast_key={canon(p.broadcast_key)}")
        accs = p.accessories
        out.append(f"{base}/has_db={canon(accs is not None)}")
        if accs is None:
            continue
        for acc in accs:
            ab = f"{base}/aid{acc.aid}"
            out.append(f"{ab}=present")
            for svc in acc.services:
                sb = f"{ab}/s{svc.iid}"
                out.append(f"{sb}/type={canon(svc.type)}")
                flat(f"{sb}/linked", canon(sorted(s.iid for s in svc.linked)), out)
                for ch in svc.characteristics:
                    cb = f"{sb}/c{ch.iid}"
                    out.append(f"{cb}/type={canon(ch.type)}")
                    flat(f"{cb}/perms", canon(list(ch.perms)), out)
                    out.append(f"{cb}/format={canon(ch.format)}")
                    if "pr" in ch.perms:
                        flat(f"{cb}/value", _char_value(ch), out)
                    for f in ("minValue", "maxValue", "minStep", "unit", "maxLen", "handle",
                              "broadcast_events", "disconnected_events"):
                        out.append(f"{cb}/{f}={canon(getattr(ch, f, None))}")
                    flat(f"{cb}/valid_values", canon(ch.valid_values), out)
    return sorted(out)


# ---------------------------------------------------------------------------------------
# restart: what a fresh process loads from a directory
# ---------------------------------------------------------------------------------------
def restart(dirpath, pairing_file=PAIRING_FILE, want_db=True, enabled=ALL_TRANSPORTS):
    return restart_graph(dirpath, pairing_file, want_db, enabled)[0]


def restart_graph(dirpath, pairing_file=PAIRING_FILE, want_db=True, enabled=ALL_TRANSPORTS):
    def go():
        res = {"exc": None, "stage": None, "storage": None, "pair": None, "db": None}
        stage = "cache"
        try:
            cache, c = new_object_graph(dirpath, pairing_file, enabled)
            res["storage"] = canon(cache.storage_data)
            stage = "load_data"
            c.load_data(os.path.join(dirpath, pairing_file))
            stage = "reading the loaded pairings"
            res["pair"] = proj_pairings(c)
            if want_db:
                res["db"] = proj_accessories(c)
        except BaseException as ex:  # noqa: BLE001 - whatever the tree raises is the outcome of this start-up
            if _control(ex):
                raise
            res["exc"], res["stage"] = _exc_text(ex, dirpath), stage
            return res, None
        return res, (cache, c)
    return in_loop(go)


# ---------------------------------------------------------------------------------------
# one process life: start from the directory, run steps (recording every save), stop
# ---------------------------------------------------------------------------------------
def _build_ble_model(spec):
    """Accessory database built the way BlePairing._async_fetch_gatt_database does it:
    add_service / add_char by uuid + iid, then attribute assignment from the signature."""
    from aiohomekit.model import Accessories, Accessory

    accs = Accessories()
    for a in spec:
        acc = Accessory(a["aid"])
        links = []
        for s in a["services"]:
            svc = acc.add_service(s["type"], iid=s["iid"])
            links.append((svc, s.get("linked", [])))
            for c in s["chars"]:
                kw = {}
                if "unit" in c:
                    kw["unit"] = c["unit"]
                if "valid-values" in c:
                    kw["valid_values"] = list(c["valid-values"])
                ch = svc.add_char(c["type"], iid=c["iid"], **kw)
                ch.handle = c.get("handle")
                ch.perms = list(c["perms"])
                for k_spec, attr in (("format", "format"), ("minStep", "minStep"), ("minValue", "minValue"),
                                     ("maxValue", "maxValue"), ("disconnected_events", "disconnected_events"),
                                     ("broadcast_events", "broadcast_events")):
                    if k_spec in c:
                        setattr(ch, attr, c[k_spec])
        for svc, linked in links:
            for iid in linked:
                svc.add_linked_service(acc.services.iid(iid))
        accs.add_accessory(acc)
    # values arrive later, through process_changes (as _populate_char_values does)
    changes = {}
    for a in spec:
        for s in a["services"]:
            for c in s["chars"]:
                if "value" in c:
                    changes[(a["aid"], c["iid"])] = {"value": c["value"]}
    accs.process_changes(changes)
    return accs


class _StepFailed(Exception):
    pass


def _control(ex):
    """exceptions that are never an outcome of the code under test"""
    return isinstance(ex, (KeyboardInterrupt, MachineryError, _StepFailed))


def _exc_text(ex, dirpath=None):
    t = f"{type(ex).__name__}: {ex}"
    return (t.replace(dirpath, "<dir>") if dirpath else t)[:300]


def run_life(dirpath, steps, pairing_file=PAIRING_FILE, fixtures_dir=None):
    """Returns dict(start=restart result, events, saves={kind: [snapshot per save]}, before=(pair, db), exc)."""
    from aiohomekit.model import AccessoriesState

    ppath = os.path.join(dirpath, pairing_file)
    rec = FsRecorder(dirpath)
    start, graph = restart_graph(dirpath, pairing_file)
    life = {"start": start, "events": rec.events, "saves": {"pairings": [], "cache": []}, "before": None,
            "unmodelled": rec.unmodelled, "exc": None, "root": rec.root}
    if graph is None:
        return life
    cache, c = graph

    def cache_save(fn):
        k = len(life["saves"]["cache"]) + 1
        rec.mark("begin", "cache", k)
        try:
            fn()
        except BaseException as ex:  # noqa: BLE001 - an outcome of the tree under test, reported by the check
            if _control(ex):
                raise
            life["exc"] = {"step": cur_step[0], "exc": _exc_text(ex, dirpath), "kind": "cache"}
            raise _StepFailed() from ex
        rec.mark("end", "cache", k)
        life["saves"]["cache"].append({"storage": canon(cache.storage_data),
                                       "doc": canon({"pairings": cache.storage_data})})

    cur_step = [None]

    def step(st):
        op = st[0]
        if op == "add":
            c.load_pairing(st[1], json.loads(json.dumps(st[2])))
        elif op == "drop":
            # what Controller.remove_pairing does locally (the accessory side is not there)
            p = c.aliases.pop(st[1])
            p.controller.aliases.pop(st[1], None)
            c.pairings.pop(p.id.lower(), None)
            c.pairings.pop(p.id, None)
            p.controller.pairings.pop(p.id.lower(), None)
            p.controller.pairings.pop(p.id, None)
            cache_save(lambda p=p: cache.async_delete_map(p.id))
        elif op == "restore":
            raw = st[2]
            if isinstance(raw, str):
                raw = json.load(open(os.path.join(fixtures_dir, raw)))
            p = c.aliases[st[1]]
            bk = bytes.fromhex(st[4]) if st[4] is not None else None
            cache_save(lambda: p.restore_accessories_state(json.loads(json.dumps(raw)), st[3], bk, st[5]))
        elif op == "model":
            p = c.aliases[st[1]]
            accs = _build_ble_model(st[2])
            bk = bytes.fromhex(st[4]) if st[4] is not None else None
            p._accessories_state = AccessoriesState(accs, st[3], bk, st[5])
            cache_save(p._update_accessories_state_cache)
        elif op == "changes":
            p = c.aliases[st[1]]
            if p.accessories is None:
                return
            ch = {(a, i): {"value": v} for a, i, v in st[2]
                  if p.accessories.has_aid(a) and p.accessories.aid(a).characteristics.iid(i)}
            p.accessories.process_changes(ch)
            if st[3] is not None and p.accessories_state is not None:
                p.accessories_state.state_num = st[3]
            cache_save(p._update_accessories_state_cache)
        elif op == "save":
            k = len(life["saves"]["pairings"]) + 1
            snap = {"doc": canon({a: dict(p.pairing_data) for a, p in c.aliases.items()}),
                    "proj": proj_pairings(c)}
            rec.mark("begin", "pairings", k)
            try:
                c.save_data(ppath)
            except BaseException as ex:  # noqa: BLE001
                if _control(ex):
                    raise
                life["exc"] = {"step": st, "exc": _exc_text(ex, dirpath), "kind": "pairings"}
                raise _StepFailed() from ex
            rec.mark("end", "pairings", k)
            life["saves"]["pairings"].append(snap)
        else:
            raise MachineryError(f"unknown step {op}")

    def go():
        with rec:
            for st in steps:
                cur_step[0] = st
                try:
                    step(st)
                except BaseException as ex:  # noqa: BLE001 - the tree under test raised while executing a step
                    if _control(ex):
                        raise
                    if isinstance(ex, AttributeError) and st[0] in ("model", "changes", "drop"):
                        # these steps imitate library-internal code paths by name
                        raise MachineryError(f"driver step {st[0]} relies on an attribute the tree does not have: {ex}") from ex
                    life["exc"] = {"step": st, "exc": _exc_text(ex, dirpath), "kind": "step"}
                    raise _StepFailed() from ex
            try:
                life["before"] = (proj_pairings(c), proj_accessories(c))
            except BaseException as ex:  # noqa: BLE001
                if _control(ex):
                    raise
                life["exc"] = {"step": ["projection"], "exc": _exc_text(ex, dirpath), "kind": "step"}
    try:
        in_loop(go)
    except _StepFailed:
        pass
    return life


# ---------------------------------------------------------------------------------------
# life -> record for Persistence_Trace (+ what the harness needs to concretise images)
# ---------------------------------------------------------------------------------------
def _independent_doc(bs):
    """canon() of the document as read by the standard library (independent of hkjson); None if not JSON."""
    try:
        return canon(json.loads(bs.decode("utf-8")))
    except (ValueError, UnicodeDecodeError):
        return None


EVERY_BYTE_LIMIT = 4096          # the quick tier lowers these (harness/props/c20.py)
CLASS_SAMPLES = (16, 12)         # seeded cuts after structural characters / anywhere, per stream


def cut_set(rng, streams, every_byte):
    top = max([len(s) for s in streams] + [0])
    if every_byte and top <= EVERY_BYTE_LIMIT:
        return list(range(top + 1))
    cuts = set()
    for s in streams:
        n = len(s)
        cuts.update(x for x in (0, 1, 2, 3, 7, 8, 9, 15, 16, 17, n - 17, n - 3, n - 2, n - 1, n, n // 2) if 0 <= x <= n)
        cuts.update(x for b in (4096, 8192, 65536) for m in range(1, n // b + 1) for x in (m * b - 1, m * b, m * b + 1) if x <= n)
        # inside and around multi-byte characters
        nonascii = [i for i, b in enumerate(s) if b >= 0x80][:400]
        for i in nonascii[:6] + nonascii[-2:]:
            cuts.update(x for x in (i, i + 1) if x <= n)
        # after structural characters (seeded sample)
        struct = [i + 1 for i, b in enumerate(s) if b in b'{}[],:"']
        for _ in range(min(CLASS_SAMPLES[0], len(struct))):
            cuts.add(struct[rng.randrange(len(struct))])
        for _ in range(CLASS_SAMPLES[1]):
            cuts.add(rng.randrange(n + 1))
    return sorted(cuts)


def build_record(kind, life, init_files, final_files, rng, *, every_byte, njunk=0, t_name=None, with_fidelity=None):
    """Translate the events of one life that belong to saves of `kind` into a trace record.
    init_files / final_files: {relative name: bytes} of the directory at the start / end of the life."""
    t_name = t_name or (PAIRING_FILE if kind == "pairings" else CACHE_FILE)
    root = life["root"]
    roles = {}                                        # relative name -> role

    def role(path):
        rel = os.path.relpath(path, root)
        if rel == t_name:
            return "T"
        if rel not in roles:
            roles[rel] = f"X{len(roles) + 1}"
        return roles[rel]

    ops, streams, hmap = [], [b""], {}
    cur_kind = None
    for ev in life["events"]:
        op = ev["op"]
        if op in ("begin", "end"):
            cur_kind = ev["kind"] if op == "begin" else None
            if ev["kind"] == kind:
                ops.append({"op": op, "k": ev["k"]})
            continue
        if cur_kind is None and op in ("open", "replace", "unlink"):
            raise MachineryError(f"the tree modifies files outside a save (not modelled): {op} "
                                 f"{ev.get('path') or ev.get('dst')}")
        mine = cur_kind == kind
        if op == "open":
            if not mine:
                continue
            streams.append(b"")
            hmap[ev["h"]] = len(streams) - 1
            ops.append({"op": "open", "f": role(ev["path"]), "h": hmap[ev["h"]]})
        elif op in ("write", "flush", "fsync", "close"):
            if ev["h"] not in hmap:
                continue
            h = hmap[ev["h"]]
            if op == "write":
                streams[h] += ev["data"]
                ops.append({"op": "write", "h": h, "n": len(ev["data"])})
            else:
                ops.append({"op": op, "h": h})
        elif op == "replace":
            if mine:
                ops.append({"op": "replace", "src": role(ev["src"]), "dst": role(ev["dst"])})
        elif op == "unlink":
            if mine:
                ops.append({"op": "unlink", "f": role(ev["path"])})
    saves = life["saves"][kind]
    start = life["start"]
    t0 = init_files.get(t_name)
    if t0 is not None:
        streams[0] = t0
    names = {"T": t_name}
    names.update({r: rel for rel, r in roles.items()})
    files = ["T"] + sorted(set(roles.values()), key=lambda x: int(x[1:]))
    init, extra_streams = {}, []
    for r in files:
        b = init_files.get(names[r])
        if r == "T":
            init[r] = {"v": 0, "n": len(t0)} if t0 is not None else {"v": -1, "n": 0}
        elif b is not None:                             # e.g. a temporary file left behind by a dead process
            extra_streams.append(b)
            init[r] = {"v": len(streams) + len(extra_streams) - 1, "n": len(b)}
        else:
            init[r] = {"v": -1, "n": 0}
    all_streams = streams + extra_streams
    slen = [len(s) for s in all_streams]
    # value 0 = what this process loaded from T when it started
    doc0 = _independent_doc(t0) if (t0 is not None and start["exc"] is None) else None
    # the empty document (no pairings / no cache entries) is the value NONE: loading it and loading nothing
    # are the same observation
    empty = canon({}) if kind == "pairings" else canon({"pairings": {}})
    done0 = 0 if (doc0 is not None and doc0 != empty) else NONE
    # value ids: saves of equal documents save the same value (the smallest id stands for it)
    vid, docs = {}, {}
    for k, sv in enumerate(saves, start=1):
        same = [j for j, dj in docs.items() if dj == sv["doc"]]
        vid[k] = (NONE if sv["doc"] == empty else 0 if (done0 == 0 and sv["doc"] == doc0)
                  else (min(same) if same else k))
        if vid[k] == k:
            docs[k] = sv["doc"]
    for o in ops:
        if o["op"] in ("begin", "end"):
            o["k"] = vid.get(o["k"], o["k"])
    sval = []
    for i, s in enumerate(all_streams):
        if i == 0:
            sval.append(0 if done0 == 0 else NONE if doc0 is not None else ALIEN)
            if t0 is not None and doc0 is None:
                slen[0] = len(t0) + 1                   # never a complete document
            continue
        d = _independent_doc(s) if i < len(streams) else None
        if d is not None and d == empty:
            sval.append(NONE)
        elif d is not None and done0 == 0 and d == doc0:
            sval.append(0)
        else:
            hit = [k for k, doc in docs.items() if d is not None and doc == d]
            sval.append(min(hit) if hit else ALIEN)
    recd = {"files": files, "init": init, "done0": done0, "ops": ops, "slen": slen, "sval": sval,
            "vals": sorted(set(vid.values()) | ({0} if done0 == 0 else set())),
            "cuts": cut_set(rng, all_streams, every_byte), "njunk": njunk,
            "before": with_fidelity[0] if with_fidelity else [], "after": with_fidelity[1] if with_fidelity else []}
    vals = {}
    if done0 == 0:
        vals[0] = start["pair"] if kind == "pairings" else start["storage"]
    for k, sv in enumerate(saves, start=1):
        if vid[k] == k:
            vals[k] = sv["proj"] if kind == "pairings" else sv["storage"]
    base = {n: b for n, b in final_files.items() if n not in names.values()}
    aux = {"kind": kind, "names": names, "streams": all_streams, "base": base, "vals": vals, "t_name": t_name,
           "final_t": final_files.get(t_name), "final_files": {n: final_files.get(n) for n in names.values()}}
    _prevalidate(recd, life)
    return recd, aux


def _prevalidate(recd, life):
    """A recorded sequence the model has no semantics for is a machinery failure, never a verdict."""
    if life["unmodelled"]:
        raise MachineryError("file-system calls outside the model of spec/persist/Persistence.tla: "
                             + "; ".join(sorted(set(life["unmodelled"]))))
    open_h = None
    for o in recd["ops"]:
        if o["op"] == "open":
            if open_h is not None:
                raise MachineryError("two handles open at the same time during a save: not modelled")
            open_h = o["h"]
        elif o["op"] in ("write", "flush", "fsync"):
            if o["h"] != open_h:
                raise MachineryError(f"{o['op']} on a handle that is not open: {o}")
        elif o["op"] == "close":
            if o["h"] != open_h:
                raise MachineryError(f"close of a handle that is not open: {o}")
            open_h = None


# ---------------------------------------------------------------------------------------
# concretiser: image (role -> [v, n]) -> directory
# ---------------------------------------------------------------------------------------
def junk_bytes(j, whole: bytes) -> bytes:
    n = len(whole)
    if j == 1:
        out = b" \n\t "
    elif j == 2:
        out = b"\x00" * n
    elif j == 3:
        out = whole[: n // 2] + b"\x00" * (n - n // 2)
    elif j == 4:
        out = whole[: n // 2] + b"\xff\xfe" + whole[n // 2:]
    elif j == 5:
        out = b"this is not a cache file\n"
    elif j == 6:
        out = whole + whole
    elif j == 7:
        out = whole[:-1] + b"]"
    elif j == 8:
        out = b"\xff" + bytes((i * 37 + 11) % 256 for i in range(min(n, 200)))
    else:
        raise MachineryError(f"unknown junk class {j}")
    if _independent_doc(out) is not None:
        raise MachineryError(f"junk class {j} produced a parsable document")
    return out


def image_files(aux, disk, final_t: bytes | None = None):
    files = dict(aux["base"])
    for r, c in disk.items():
        name = aux["names"][r]
        if c["v"] == -1:
            files.pop(name, None)
        elif c["v"] == -2:
            files[name] = junk_bytes(c["n"], final_t)
        else:
            files[name] = aux["streams"][c["v"]][: c["n"]]
    return files


def write_dir(dirpath, files):
    for n in os.listdir(dirpath):
        p = os.path.join(dirpath, n)
        shutil.rmtree(p) if os.path.isdir(p) else os.unlink(p)
    for n, b in files.items():
        p = os.path.join(dirpath, n)
        os.makedirs(os.path.dirname(p), exist_ok=True)
        with open(p, "wb") as f:
            f.write(b)


def read_dir(dirpath):
    out = {}
    for base, _dirs, names in os.walk(dirpath):
        for n in names:
            p = os.path.join(base, n)
            out[os.path.relpath(p, dirpath)] = open(p, "rb").read()
    return out


def classify(aux, res):
    """Outcome labels of a real restart: value ids it equals, NONE, ERR, ALIEN."""
    if res["exc"] is not None:
        return [ERR]
    got = res["pair"] if aux["kind"] == "pairings" else res["storage"]
    out = [k for k, v in aux["vals"].items() if v == got]
    if aux["kind"] == "pairings":
        if not any(ln.startswith("pairing/") for ln in got):
            out.append(NONE)
    elif got == {}:
        out.append(NONE)
    return out or [ALIEN]


def replay_cases(job):
    """worker: (aux, cases, scratch parent) -> [(case index, labels, exc)]"""
    import tempfile
    aux, cases, parent = job
    d = tempfile.mkdtemp(prefix="c20w_", dir=parent)
    out = []
    try:
        for idx, c in cases:
            files = image_files(aux, c["disk"], aux["final_t"])
            write_dir(d, files)
            res = restart(d, aux.get("pairing_file", PAIRING_FILE), want_db=False)
            out.append((idx, classify(aux, res), res["exc"], res["stage"]))
    finally:
        shutil.rmtree(d, ignore_errors=True)
    return out


# ---------------------------------------------------------------------------------------
# input generators (seeded)
# ---------------------------------------------------------------------------------------
ALIASES = ["alias", "Living Room", "Küche", "客厅灯", "\U0001f4a1 lamp", 'quote"back\\slash',
           "tab\tnew\nline", "", " spaced ", "a/b", "über-ñandú-Ω", "é", "é",
           "مصباح", "null", "0", " sep", "very-long-" + "x" * 180]
STRINGS = ["", "Acme", "Testlicht", "Grüße ☃", "照明", "a\"b\\c", "line\nbreak", "\U0001f321️ 21°C",
           "1.0.0", "0", "null", "x" * 64, "y" * 300]
FORMATS = ["bool", "uint8", "uint16", "uint32", "uint64", "int", "float", "string", "tlv8", "data"]
UNITS = ["celsius", "percentage", "arcdegrees", "lux", "seconds"]
APPLE_SUFFIX = "-0000-1000-8000-0026BB765291"


def _hex(rng, n):
    return "".join(rng.choice("0123456789abcdef") for _ in range(n))


def _mac(rng):
    m = ":".join(f"{rng.randrange(256):02X}" for _ in range(6))
    return m.lower() if rng.random() < 0.3 else m


def gen_pairing(rng, transport):
    d = {"AccessoryPairingID": _mac(rng), "AccessoryLTPK": _hex(rng, 64),
         "iOSPairingId": str(uuid.UUID(int=rng.getrandbits(128))),
         "iOSDeviceLTSK": _hex(rng, 64), "iOSDeviceLTPK": _hex(rng, 64)}
    v4 = f"{rng.randrange(1, 255)}.{rng.randrange(256)}.{rng.randrange(256)}.{rng.randrange(1, 255)}"
    v6 = "fe80::" + ":".join(f"{rng.randrange(65536):x}" for _ in range(4))
    if transport == "IP":
        ip = rng.choice([v4, v6, "fd00::1%eth0"])
        d["AccessoryIP"] = ip
        if rng.random() < 0.6:
            d["AccessoryIPs"] = [ip] + [v6, v4][: rng.randrange(3)]
        d["AccessoryPort"] = rng.choice([80, 51826, 65535, rng.randrange(1, 65536)])
        if rng.random() < 0.7:
            d["Connection"] = "IP"          # absent in files written by old versions: defaults to IP
    elif transport == "CoAP":
        d["AccessoryIP"] = v6
        d["AccessoryPort"] = rng.choice([5683, rng.randrange(1, 65536)])
        d["Connection"] = "CoAP"
    else:
        d["AccessoryAddress"] = _mac(rng).upper()
        d["Connection"] = "BLE"
    if rng.random() < 0.25:
        d["x-note"] = rng.choice(STRINGS)
    keys = list(d)
    rng.shuffle(keys)
    return {k: d[k] for k in keys}


def _value_for(rng, fmt):
    if fmt == "bool":
        return rng.choice([True, False])
    if fmt == "uint8":
        return rng.choice([0, 1, 100, 255, rng.randrange(256)])
    if fmt == "uint16":
        return rng.choice([0, 65535, rng.randrange(65536)])
    if fmt == "uint32":
        return rng.choice([0, 2 ** 32 - 1, 2 ** 31, rng.randrange(2 ** 32)])
    if fmt == "uint64":
        return rng.choice([0, 2 ** 64 - 1, 2 ** 63, 2 ** 53 + 1, rng.randrange(2 ** 64)])
    if fmt == "int":
        return rng.choice([0, -1, -2 ** 31, 2 ** 31 - 1, rng.randrange(-2 ** 31, 2 ** 31)])
    if fmt == "float":
        return rng.choice([0.0, 0.1, -12.5, 1e-07, 3.4028234663852886e+38, 21.000001, 100.0,
                           round(rng.uniform(-1000, 1000), rng.randrange(7))])
    if fmt == "string":
        return rng.choice(STRINGS)
    if fmt in ("tlv8", "data"):
        return base64.b64encode(bytes(rng.randrange(256) for _ in range(rng.randrange(0, 40)))).decode()
    return None


def _known_types():
    from aiohomekit.model.characteristics.data import characteristics
    from aiohomekit.model.services.data import services
    return sorted(characteristics), sorted(services), characteristics


def _short(u, rng):
    if u.endswith(APPLE_SUFFIX) and rng.random() < 0.5:
        return u[:8].lstrip("0") or "0"
    return u.lower() if rng.random() < 0.2 else u


def gen_entity_map(rng, *, ble=False, big=False):
    """A well-formed accessory database.  ble=False: the JSON an IP/CoAP accessory sends (list of dicts);
    ble=True: the description the BLE-style builder consumes (single accessory, handles, event flags)."""
    ctypes, stypes, table = _known_types()
    out = []
    naccs = rng.choice([1, 1, 2, 3])
    for a in range(naccs):
        aid = 1 if a == 0 else rng.choice([a + 1, 1000 + a, 2 ** 31 + a])
        iid = 0
        svcs = []
        for _ in range(rng.randrange(1, 9 if big else 5)):
            iid += rng.choice([1, 1, 1, 7])
            s_iid = iid
            stype = rng.choice(stypes) if rng.random() < 0.8 else str(uuid.UUID(int=rng.getrandbits(128))).upper()
            chars = []
            used = set()
            for _ in range(rng.randrange(0, 12 if big else 6)):
                iid += rng.choice([1, 1, 2, 300])
                known = rng.random() < 0.7
                ctype = rng.choice(ctypes) if known else str(uuid.UUID(int=rng.getrandbits(128))).upper()
                if ctype in used:
                    continue
                used.add(ctype)
                fmt = table[ctype]["format"] if known and rng.random() < 0.85 else rng.choice(FORMATS)
                perms = [p for p in ("pr", "pw", "ev", "aa", "tw", "hd") if rng.random() < (0.7 if p in ("pr", "pw", "ev") else 0.1)]
                c = {"type": ctype if ble else _short(ctype, rng), "iid": iid, "perms": perms}
                if not (rng.random() < 0.08):
                    c["format"] = fmt
                if "pr" in perms or rng.random() < 0.1:
                    v = _value_for(rng, fmt)
                    if v is not None:
                        if fmt == "bool" and not ble and rng.random() < 0.3:
                            v = int(v)                  # accessories send 0/1 for booleans
                        c["value"] = v
                if fmt in ("uint8", "uint16", "uint32", "int", "float") and rng.random() < 0.5:
                    lo = _value_for(rng, fmt if fmt != "uint32" else "uint16")
                    c["minValue"] = lo
                    c["maxValue"] = lo + rng.choice([1, 100, 0.5] if fmt == "float" else [1, 100, 255])
                    if rng.random() < 0.7:
                        c["minStep"] = rng.choice([0.1, 0.5, 1.0] if fmt == "float" else [1, 5])
                if ble:
                    if rng.random() < 0.8:
                        c["handle"] = rng.randrange(1, 4000)
                    if rng.random() < 0.5:
                        c["broadcast_events"] = rng.random() < 0.5
                    if rng.random() < 0.5:
                        c["disconnected_events"] = rng.random() < 0.5
                    # passed to add_char() as keyword arguments (the programmatic way to build a database)
                    if rng.random() < 0.25:
                        c["unit"] = rng.choice(UNITS)
                    if fmt == "uint8" and rng.random() < 0.3:
                        c["valid-values"] = sorted(rng.sample(range(0, 6), rng.randrange(1, 4)))
                else:
                    if rng.random() < 0.3:
                        c["unit"] = rng.choice(UNITS)
                    if fmt == "string" and rng.random() < 0.4:
                        c["maxLen"] = rng.choice([64, 128, 256])
                    if fmt == "uint8" and rng.random() < 0.3:
                        c["valid-values"] = sorted(rng.sample(range(0, 6), rng.randrange(1, 4)))
                    if rng.random() < 0.3:
                        c["description"] = rng.choice(STRINGS[1:6])
                    if rng.random() < 0.2:
                        c["ev"] = rng.random() < 0.5
                chars.append(c)
            svc = {"iid": s_iid, "type": stype if ble else _short(stype, rng), "chars" if ble else "characteristics": chars}
            if not ble and rng.random() < 0.2:
                svc["primary"] = True
            svcs.append(svc)
        for svc in svcs:
            if len(svcs) > 1 and rng.random() < 0.4:
                others = [s["iid"] for s in svcs if s is not svc]
                svc["linked"] = sorted(rng.sample(others, rng.randrange(1, min(3, len(others)) + 1)))
                if not ble and rng.random() < 0.2:
                    svc["linked"] = [0] + svc["linked"]      # seen in the field (Schlage Encode Plus)
        out.append({"aid": aid, "services": svcs})
    return out


def gen_changes(rng, emap, ble):
    """value updates for readable characteristics of a generated database (never null)"""
    ch = []
    for a in emap:
        for s in a["services"]:
            for c in s["chars" if ble else "characteristics"]:
                if "pr" in c["perms"] and "format" in c and rng.random() < 0.5:
                    v = _value_for(rng, c["format"])
                    if v is not None:
                        ch.append([a["aid"], c["iid"], v])
    return ch


# ---------------------------------------------------------------------------------------
# mixed-transport pairing files loaded by processes with fewer transports (spec/persist/PersistLoad.tla)
# ---------------------------------------------------------------------------------------
def _by_alias(lines):
    out = {}
    for ln in lines:
        if ln.startswith("pairing/"):
            alias, _end = json.JSONDecoder().raw_decode(ln, 8)          # pairing/<json alias>/...
            out.setdefault(alias, []).append(ln)
    return out


def _file_order(bs):
    """(alias, kind) in file order, read with the standard library"""
    doc = json.loads(bs.decode("utf-8"), object_pairs_hook=list)
    out = []
    for alias, fields in doc:
        d = dict(fields)
        out.append((alias, d["Connection"] if "Connection" in d else "IP0"))
    return out


def expected_entry_lines(alias, pd):
    """the lines proj_pairings must show for a pairing-file entry, read off the file by the harness:
    every field of the entry, unchanged (a loader may add defaults, e.g. Connection for legacy entries)"""
    return flat(f"pairing/{json.dumps(alias)}/data", canon(dict(pd)), [])


def entry_problems(entries, must, got_lines, ref_by=None):
    """entries: [(alias, kind, pairing data)], must: 1-based indices that have to be loaded"""
    got = _by_alias(got_lines)
    bad = []
    for j in must:
        alias, kind, pd = entries[j - 1]
        what = f"entry {j} ({'legacy IP entry without Connection field' if kind == 'IP0' else kind}, alias {alias!r})"
        if alias not in got:
            bad.append(f"{what} was not loaded")
            continue
        missing = [ln for ln in expected_entry_lines(alias, pd) if ln not in got[alias]]
        if missing:
            bad.append(f"{what} lost or changed fields: {missing[:4]}")
        elif ref_by is not None and alias in ref_by and got[alias] != ref_by[alias]:
            bad.append(f"{what} differs from the same entry loaded with every transport: "
                       f"{sorted(set(got[alias]) ^ set(ref_by[alias]))[:4]}")
    return bad


def transport_cases(job):
    """worker: one file order (list of entry kinds) and the cases (enabled set, must-load indices) TLC exported
    for it.  The file is produced by the real save_data of a process that has every transport (by an independent
    writer where that cannot give the order / the legacy shape under test); then, for every enabled set, a fresh
    process with exactly those transports starts from it, saves, and the next one starts.  Whatever the tree
    raises is an outcome.  Returns [(enabled, phase, problem, file bytes)] - the caller judges."""
    import logging
    import random
    import tempfile
    order, cases, seed, parent = job
    rng = random.Random(seed)
    d = tempfile.mkdtemp(prefix="c20t_", dir=parent)
    logging.disable(logging.CRITICAL)          # "Skipped pairing: BLE" is expected, thousands of times
    out = []
    try:
        aliases = rng.sample(ALIASES, len(order))
        entries = []
        for alias, kind in zip(aliases, order):
            pd = gen_pairing(rng, "IP" if kind == "IP0" else kind)
            if kind == "IP0":
                pd.pop("Connection", None)
            elif kind == "IP":
                pd["Connection"] = "IP"
            entries.append((alias, kind, pd))
        ppath = os.path.join(d, PAIRING_FILE)
        want = [(a, k) for a, k, _ in entries]

        def build():
            _cache, c = new_object_graph(d)
            for alias, _kind, pd in entries:
                c.load_pairing(alias, json.loads(json.dumps(pd)))
            c.save_data(ppath)
        built = None
        try:
            in_loop(build)
            built = _file_order(open(ppath, "rb").read()) == want
        except BaseException as ex:  # noqa: BLE001 - the file under test is then written independently
            if _control(ex):
                raise
        if not built:
            with open(ppath, "w", encoding="utf-8") as f:
                json.dump({a: pd for a, _k, pd in entries}, f, ensure_ascii=False, indent=2)
            if _file_order(open(ppath, "rb").read()) != want:
                raise MachineryError("cannot produce the pairing file order under test")
        original = open(ppath, "rb").read()
        ref = restart(d, want_db=False)
        ref_by = _by_alias(ref["pair"]) if ref["exc"] is None else None
        for case in cases:
            en = tuple(case["enabled"])
            with open(ppath, "wb") as f:
                f.write(original)
            for phase in ("restart", "load -> save -> restart"):
                res, graph = restart_graph(d, want_db=False, enabled=en)
                if res["exc"] is not None:
                    out.append((list(en), phase, f"start-up fails ({res['stage']}: {res['exc']})", original))
                    break
                bad = entry_problems(entries, case["must"], res["pair"], ref_by)
                if bad:
                    out.append((list(en), phase, "; ".join(bad), original))
                    break
                if phase == "restart":
                    try:
                        in_loop(graph[1].save_data, ppath)
                    except BaseException as ex:  # noqa: BLE001
                        if _control(ex):
                            raise
                        out.append((list(en), "save", f"save_data raised {_exc_text(ex, d)}", original))
                        break
    finally:
        logging.disable(logging.NOTSET)
        shutil.rmtree(d, ignore_errors=True)
    return out
