"""Runners for C06: drive the three real session layers along abstract action sequences and record
AEAD-boundary observations (alphabet of spec/session/SessionCounters_Trace.tla)."""
from __future__ import annotations

import asyncio
import logging
import os
import struct

logging.disable(logging.CRITICAL)

from .refacc import crypto as C
from .refacc import http as H


def _ctr(nonce: bytes) -> int:
    return struct.unpack("<Q", bytes(nonce)[4:])[0]


class Base:
    def __init__(self, rng):
        self.rng = rng
        self.events = []
        self.open = False
        self.frames = []       # genuine messages of the current epoch (bytes), index = accessory counter
        self.ev_frames = []
        self.problems = []

    def log(self, ev, **kw):
        rec = {"ev": ev}
        rec.update(kw)
        self.events.append(rec)


# ------------------------------------------------------------------ IP
class IpRunner(Base):
    """SecureHomeKitProtocol over a stub transport (as in C05) - counters observed at the cipher classes."""

    def __init__(self, rng):
        super().__init__(rng)
        self.first = True
        self.rekey(log=False)

    def rekey(self, log=True):
        import aiohomekit.controller.ip.connection as ipc
        from harness.props.c05 import _Conn, _Transport
        old = getattr(self, "pending", None)
        if old is not None and not old.done():
            old.cancel()
            self.stale = getattr(self, "stale", [])
            self.stale.append(old)
        self.a2c, self.c2a = os.urandom(32), os.urandom(32)
        self.enc_log, self.dec_log = [], []
        enc_log, dec_log = self.enc_log, self.dec_log

        class LE(ipc.ChaCha20Poly1305Encryptor):
            def encrypt(self, aad, nonce, pt):
                enc_log.append(_ctr(nonce))
                return super().encrypt(aad, nonce, pt)

        class LD(ipc.ChaCha20Poly1305Decryptor):
            def decrypt(self, aad, nonce, ct):
                try:
                    out = super().decrypt(aad, nonce, ct)
                except Exception:
                    dec_log.append((_ctr(nonce), False))
                    raise
                dec_log.append((_ctr(nonce), True))
                return out
        oe, od = ipc.ChaCha20Poly1305Encryptor, ipc.ChaCha20Poly1305Decryptor
        ipc.ChaCha20Poly1305Encryptor, ipc.ChaCha20Poly1305Decryptor = LE, LD
        try:
            self.conn = _Conn()
            self.proto = ipc.SecureHomeKitProtocol(self.conn, self.a2c, self.c2a)
        finally:
            ipc.ChaCha20Poly1305Encryptor, ipc.ChaCha20Poly1305Decryptor = oe, od
        self.tr = _Transport()
        self.proto.connection_made(self.tr)
        self.frames, self.acc_ctr, self.pending = [], 0, None
        self.open = True
        if log:
            self.log("rekey")

    async def request(self, n):
        before = len(self.enc_log)
        payload = bytes(self.rng.randrange(256) for _ in range(1024 * (n - 1) + self.rng.randrange(1, 1025)))
        t = asyncio.ensure_future(self.proto.send_bytes(payload))
        await asyncio.sleep(0)
        new = self.enc_log[before:]
        if new:
            self.log("enc", c0=new[0], n=len(new))
            if new != list(range(new[0], new[0] + len(new))):
                self.problems.append(f"encrypt counters of one request not consecutive: {new}")
        if t.done():
            try:
                t.result()
            except BaseException:  # noqa: BLE001  (transport closing: AccessoryDisconnectedError)
                pass
        else:
            if self.pending and not self.pending.done():
                self.pending.cancel()
                self.stale = getattr(self, "stale", [])
                self.stale.append(self.pending)
            self.pending = t

    async def produce(self):
        body = b'{"n":%d}' % len(self.frames)
        pt = H.event(body)
        ln = struct.pack("<H", len(pt))
        self.frames.append(ln + C.seal(self.a2c, C.counter_nonce(len(self.frames)), pt, ln))
        self.log("produce")

    def _feed(self, data):
        before = sum(1 for e in self.dec_log if e[1])
        try:
            self.proto.data_received(data)
        except RuntimeError:
            self.open = False
            self.tr.closed = True       # asyncio force-closes the transport after an exception in data_received
        return sum(1 for e in self.dec_log if e[1]) - before

    async def deliver(self, k):
        if not self.open or k >= len(self.frames):
            return
        nxt = sum(1 for e in self.dec_log if e[1])
        if k == nxt and self.rng.random() < 0.5:
            return await self.burst(k)
        got = self._feed(self.frames[k])
        self.log("deliver", k=k, ok=got > 0)

    async def burst(self, k):
        """Honest delivery of the genuine frames k.. as a TCP stream cut at arbitrary points: every plaintext the
        controller accepts is logged with the counter it was accepted under (AEAD boundary)."""
        m = self.rng.randrange(1, 4)
        frames = self.frames[k:k + m]
        stream = b"".join(frames)
        cuts = sorted(set(self.rng.randrange(1, len(stream)) for _ in range(self.rng.randrange(0, 4)))) if len(stream) > 1 else []
        pts = [0, *cuts, len(stream)]
        for a, b in zip(pts, pts[1:]):
            if not self.open:
                break
            before = len(self.dec_log)
            self._feed(stream[a:b])
            for ctr, ok in self.dec_log[before:]:
                if ok:
                    self.log("deliver", k=ctr, ok=True)
                else:
                    self.log("corrupt", ok=False)

    async def corrupt(self):
        if not self.open:
            return
        k = self.rng.randrange(len(self.frames)) if self.frames else None
        if k is None:
            return
        f = bytearray(self.frames[k])
        b = self.rng.randrange(16, len(f) * 8)      # ciphertext or tag (a corrupted length prefix is C05's business)
        f[b // 8] ^= 1 << (b % 8)
        got = self._feed(bytes(f))
        self.log("corrupt", ok=got > 0)

    async def abandon(self):
        if not self.open or not self.pending or self.pending.done():
            return
        self.pending.cancel()
        try:
            await self.pending
        except BaseException:  # noqa: BLE001
            pass
        self.open = not self.tr.closed
        if self.open:
            self.problems.append("cancelling the in-flight request did not close the transport")
        self.log("abandon")


# ------------------------------------------------------------------ BLE (key level)
class BleRunner(Base):
    def __init__(self, rng):
        super().__init__(rng)
        self.rekey(log=False)

    def rekey(self, log=True):
        from aiohomekit.controller.ble import key as K
        self.k_c2a, self.k_a2c = os.urandom(32), os.urandom(32)
        self.ek, self.dk = K.EncryptionKey(self.k_c2a), K.DecryptionKey(self.k_a2c)
        self.acc_recv = 0
        self.frames = []
        self.open = True
        if log:
            self.log("rekey")

    async def request(self, n):
        c0 = self.ek.counter
        for i in range(n):
            ct = self.ek.encrypt(bytes(self.rng.randrange(256) for _ in range(self.rng.randrange(1, 40))))
            # a conformant accessory opens fragment i with its next counter
            if C.open_(self.k_c2a, C.counter_nonce(self.acc_recv), ct) is None:
                self.problems.append(f"accessory cannot open controller fragment with counter {self.acc_recv}")
            self.acc_recv += 1
        self.log("enc", c0=c0, n=n)

    async def produce(self):
        pt = bytes(self.rng.randrange(256) for _ in range(self.rng.randrange(1, 30)))
        self.frames.append((C.seal(self.k_a2c, C.counter_nonce(len(self.frames)), pt), pt))
        self.log("produce")

    def _try(self, ct, want=None):
        from aiohomekit.controller.ble.key import DecryptionError
        try:
            out = self.dk.decrypt(ct)
        except DecryptionError:
            return False
        if want is not None and out != want:
            self.problems.append("decrypted plaintext differs from what the accessory sealed")
        return True

    async def deliver(self, k):
        if not self.open or k >= len(self.frames):
            return
        ok = self._try(*self.frames[k])
        if not ok and self.rng.random() < 0.5:
            self.open = False          # what BlePairing does after a failed request
        self.log("deliver", k=k, ok=ok)
        if not ok and not self.open:
            pass

    async def corrupt(self):
        if not self.open or not self.frames:
            return
        ct = bytearray(self.rng.choice(self.frames)[0])
        b = self.rng.randrange(len(ct) * 8)
        ct[b // 8] ^= 1 << (b % 8)
        ok = self._try(bytes(ct))
        if self.rng.random() < 0.5:
            self.open = False
        self.log("corrupt", ok=ok)

    async def abandon(self):
        if not self.open:
            return
        self.open = False
        self.log("abandon")


# ------------------------------------------------------------------ CoAP
class _Resp:
    def __init__(self, payload, code):
        self.payload = payload
        self.code = code


class _Req:
    def __init__(self, fut):
        self.response = fut


class _FakeCoap:
    def __init__(self, runner):
        self.runner = runner
        self.shut = False

    def request(self, msg):
        fut = asyncio.get_running_loop().create_future()
        self.runner.last_request_payload = bytes(msg.payload)
        script = self.runner.script
        if script[0] == "timeout":
            pass                       # never completes: the 16 s budget is shortened by the runner
        else:
            from aiocoap.numbers.codes import Code
            fut.set_result(_Resp(script[1], Code.CHANGED))
        return _Req(fut)

    async def shutdown(self):
        self.shut = True


class CoapRunner(Base):
    def __init__(self, rng):
        super().__init__(rng)
        self.rekey(log=False)

    def rekey(self, log=True):
        from cryptography.hazmat.primitives.ciphers.aead import ChaCha20Poly1305
        from aiohomekit.controller.coap import connection as cc
        self.k_recv, self.k_send, self.k_ev = os.urandom(32), os.urandom(32), os.urandom(32)
        self.send_nonces = []
        sn = self.send_nonces

        class LoggingAead:
            def __init__(self, key):
                self._a = ChaCha20Poly1305(key)

            def encrypt(self, nonce, data, aad):
                sn.append(_ctr(nonce))
                return self._a.encrypt(nonce, data, aad)

            def decrypt(self, nonce, data, aad):
                return self._a.decrypt(nonce, data, aad)
        self.fake = _FakeCoap(self)
        self.ctx = cc.EncryptionContext(ChaCha20Poly1305(self.k_recv), LoggingAead(self.k_send),
                                        ChaCha20Poly1305(self.k_ev), "coap://[::1]/0", self.fake)
        owner_events = self.owner_events = []
        runner = self

        class _Owner:
            def event_received(self, ev):
                owner_events.append(ev)

        class _Info:
            def find_characteristic_by_iid(self, iid):
                return None
        self.evres = cc.EventResource(type("Conn", (), {"enc_ctx": self.ctx, "info": _Info(), "owner": _Owner()})())
        self.frames, self.ev_frames = [], []
        self.acc_recv = 0
        self.staged = None
        self.open = True
        if log:
            self.log("rekey")

    async def produce(self):
        pt = b"\x02" + bytes([self.rng.randrange(256)]) + b"\x00" + struct.pack("<H", 0)
        self.frames.append((C.seal(self.k_recv, C.counter_nonce(len(self.frames)), pt), pt))
        self.log("produce")

    async def produce_ev(self):
        pt = struct.pack("<BHH", 0, self.rng.randrange(1, 50), 0)
        self.ev_frames.append(C.seal(self.k_ev, C.counter_nonce(len(self.ev_frames)), pt))
        self.log("produce_ev")

    async def _post(self, script):
        """One POST: the controller encrypts a request, the scripted response payload comes back."""
        from aiohomekit.controller.coap.connection import EncryptionError
        from aiohomekit.exceptions import AccessoryDisconnectedError
        self.script = script
        before = len(self.send_nonces)
        res = "ok"
        try:
            await self.ctx.post_bytes(b"\x00\x01\x02\x03\x04", timeout=0.01 if script[0] == "timeout" else 16.0)
        except EncryptionError:
            res = "fail"
        except AccessoryDisconnectedError:
            res = "timeout"
        new = self.send_nonces[before:]
        self.log("enc", c0=new[0], n=len(new))
        self.all_send = getattr(self, "all_send", [])
        self.all_send += new
        if self.ctx.coap_ctx is None:
            self.open = False
        return res

    async def request(self, n):
        # a request alone is not observable on CoAP (post_bytes = request + response): staged until a delivery
        self.staged = True

    async def deliver(self, k):
        if not self.open or k >= len(self.frames):
            return
        res = await self._post(("payload", self.frames[k][0]))
        self.log("deliver", k=k, ok=res == "ok")

    async def corrupt(self):
        if not self.open or not self.frames:
            return
        ct = bytearray(self.rng.choice(self.frames)[0])
        b = self.rng.randrange(len(ct) * 8)
        ct[b // 8] ^= 1 << (b % 8)
        res = await self._post(("payload", bytes(ct)))
        self.log("corrupt", ok=res == "ok")

    async def abandon(self):
        if not self.open:
            return
        res = await self._post(("timeout",))
        if res != "timeout" or self.open:
            self.problems.append("request time-out did not end the CoAP session")
        self.log("abandon")

    async def deliver_ev(self, k):
        if not self.open or k >= len(self.ev_frames):
            return
        before = len(self.owner_events)
        req = type("R", (), {"payload": self.ev_frames[k]})()
        await self.evres.render_put(req)
        self.log("deliver_ev", k=k, ok=len(self.owner_events) > before)


RUNNERS = {"IP": IpRunner, "BLE": BleRunner, "COAP": CoapRunner}


async def drive(transport, rng, actions):
    """actions: list of (name, arg)."""
    r = RUNNERS[transport](rng)
    for name, arg in actions:
        if name == "Request":
            await r.request(arg)
        elif name == "AccProduce":
            await r.produce()
        elif name == "AccProduceEvent" and transport == "COAP":
            await r.produce_ev()
        elif name == "Deliver":
            await r.deliver(arg)
        elif name == "DeliverEvent" and transport == "COAP":
            await r.deliver_ev(arg)
        elif name == "DeliverCorrupt":
            await r.corrupt()
        elif name == "Abandon":
            await r.abandon()
        elif name == "Rekey":
            r.rekey()
    if transport == "IP":
        for t in [getattr(r, "pending", None), *getattr(r, "stale", [])]:
            if t is None:
                continue
            if not t.done():
                t.cancel()
            try:
                await t
            except BaseException:  # noqa: BLE001
                pass
    return r


def random_actions(rng, transport, n, attack=0.25):
    """Mostly honest traffic with a share of attacker actions."""
    acts = []
    produced = delivered = ev_p = ev_d = 0
    for _ in range(n):
        x = rng.random()
        if x < 0.25:
            acts.append(("Request", rng.randrange(1, 4)))
        elif x < 0.45:
            acts.append(("AccProduce", None))
            produced += 1
        elif x < 0.45 + attack:
            kind = rng.choice(["replay", "future", "corrupt", "abandon", "rekey"])
            if kind == "replay" and delivered > 0:
                acts.append(("Deliver", rng.randrange(0, delivered)))
            elif kind == "future" and produced > delivered + 1:
                k = rng.randrange(delivered + 1, produced)
                acts.append(("Deliver", k))
            elif kind == "corrupt":
                acts.append(("DeliverCorrupt", None))
            elif kind == "abandon":
                acts.append(("Abandon", None))
            elif kind == "rekey":
                acts.append(("Rekey", None))
                produced = delivered = ev_p = ev_d = 0
        elif transport == "COAP" and x > 0.9:
            if ev_p > ev_d and rng.random() < 0.6:
                acts.append(("DeliverEvent", rng.choice([ev_d, ev_d, rng.randrange(0, ev_p)])))
                ev_d += 1
            else:
                acts.append(("AccProduceEvent", None))
                ev_p += 1
        elif produced > delivered:
            acts.append(("Deliver", delivered))
            delivered += 1
        else:
            acts.append(("AccProduce", None))
            produced += 1
    return acts


# ------------------------------------------------------------------ BLE at request level (ble_request / _write_pdu / _read_pdu)
def _ctr_of_nonce(nonce):
    import struct as _s
    return _s.unpack("<Q", bytes(nonce)[4:])[0]


class _BleHandle:
    max_write_without_response_size = None
    properties = ["write", "read"]
    uuid = "00000000-0000-0000-0000-00000000c006"
    handle = 6


class _BleLink:
    """Duck-typed GATT client + conformant accessory of one BLE session, with scripted faults.  The accessory opens what
    is written with its own next counter (independent crypto), answers with a well-formed response PDU for the request's
    transaction id, sealed fragment by fragment with its own send counter."""

    def __init__(self, runner, frag):
        self.r = runner
        self.address = "AA:BB:CC:DD:EE:06"
        self.frag = frag                 # fragment size the client negotiates for encrypted PDUs
        self.handle = _BleHandle()
        self.fail_write_at = None        # index of the write (within the current request) that raises BleakError once
        self.nwrites = 0
        self.tid = None
        self.pending = []                # indices (into runner.frames) of the response fragments not yet read
        self.read_plan = []              # per read: "next" | ("replay", k) | "skip" | "corrupt"

    def determine_fragment_size(self, overhead, handle):
        return self.frag + 16 - overhead

    async def write_gatt_char(self, handle, data, response=None):
        i = self.nwrites
        self.nwrites += 1
        await asyncio.sleep(0)
        if self.fail_write_at is not None and i == self.fail_write_at:
            self.fail_write_at = None
            from bleak.exc import BleakError
            raise BleakError("harness: the write was refused")
        r = self.r
        plain = C.open_(r.k_c2a, C.counter_nonce(r.acc_recv), bytes(data))
        if plain is None:
            r.problems.append(f"accessory cannot open the controller's fragment with its next counter {r.acc_recv}")
            return
        r.acc_recv += 1
        if not (plain[0] & 0x80) and len(plain) >= 3:
            self.tid = plain[2]

    def prepare_response(self, body_len, nfr):
        r = self.r
        body = bytes(r.rng.randrange(256) for _ in range(body_len))
        cuts = sorted(r.rng.sample(range(1, body_len), min(nfr - 1, max(body_len - 1, 0)))) if body_len > 1 and nfr > 1 else []
        parts = [body[a:b] for a, b in zip([0, *cuts], [*cuts, body_len])]
        tid = self.tid if self.tid is not None else 0
        for k, part in enumerate(parts):
            pdu = (bytes([0x02, tid, 0]) + len(body).to_bytes(2, "little") + part) if k == 0 else (bytes([0x82, tid]) + part)
            r.frames.append((C.seal(r.k_a2c, C.counter_nonce(len(r.frames)), pdu), pdu))
            r.log("produce")
            self.pending.append(len(r.frames) - 1)

    async def read_gatt_char(self, handle):
        await asyncio.sleep(0)
        r = self.r
        step = self.read_plan.pop(0) if self.read_plan else "next"
        if step == "skip" and len(self.pending) > 1:
            self.pending.pop(0)                       # a fragment is lost: the controller gets the one after it
            step = "next"
        if step == "corrupt" and self.pending:
            ct = bytearray(r.frames[self.pending[0]][0])
            b = r.rng.randrange(len(ct) * 8)
            ct[b // 8] ^= 1 << (b % 8)
            r.offered.append(("corrupt", None))
            return bytearray(ct)
        if isinstance(step, tuple) and step[0] == "replay" and step[1] < len(r.frames):
            r.offered.append(("genuine", step[1]))
            return bytearray(r.frames[step[1]][0])
        if not self.pending:
            from bleak.exc import BleakError
            raise BleakError("harness: nothing to read")
        k = self.pending.pop(0)
        r.offered.append(("genuine", k))
        return bytearray(r.frames[k][0])


class BleReqRunner(Base):
    """The real ble_request (with _write_pdu / _read_pdu) between real EncryptionKey / DecryptionKey objects and a
    conformant accessory; every (counter) that reaches the AEAD primitives is recorded by logging cipher objects."""

    def __init__(self, rng):
        super().__init__(rng)
        self.offered = []
        self.rekey(log=False)

    def rekey(self, log=True):
        from aiohomekit.controller.ble import key as K
        self.k_c2a, self.k_a2c = os.urandom(32), os.urandom(32)
        enc_log = self.enc_log = []
        dec_log = self.dec_log = []

        class LE(K.ChaCha20Poly1305Encryptor):
            def encrypt(self, aad, nonce, pt):
                enc_log.append(_ctr_of_nonce(nonce))
                return super().encrypt(aad, nonce, pt)

        class LD(K.ChaCha20Poly1305Decryptor):
            def decrypt(self, aad, nonce, ct):
                try:
                    out = super().decrypt(aad, nonce, ct)
                except BaseException:
                    dec_log.append((_ctr_of_nonce(nonce), False))
                    raise
                dec_log.append((_ctr_of_nonce(nonce), True))
                return out
        oe, od = K.ChaCha20Poly1305Encryptor, K.ChaCha20Poly1305Decryptor
        K.ChaCha20Poly1305Encryptor, K.ChaCha20Poly1305Decryptor = LE, LD
        try:
            self.ek, self.dk = K.EncryptionKey(self.k_c2a), K.DecryptionKey(self.k_a2c)
        finally:
            K.ChaCha20Poly1305Encryptor, K.ChaCha20Poly1305Decryptor = oe, od
        self.acc_recv = 0
        self.frames = []
        self.open = True
        if log:
            self.log("rekey")

    def _flush_enc(self, start):
        """enc events for the counters used since `start`: one event per run of consecutive counters."""
        cs = self.enc_log[start:]
        i = 0
        while i < len(cs):
            j = i
            while j + 1 < len(cs) and cs[j + 1] == cs[j] + 1:
                j += 1
            self.log("enc", c0=cs[i], n=j - i + 1)
            i = j + 1

    async def transaction(self, frag, req_len, fail_write_at, resp_len, resp_frags, read_plan):
        """One ble_request on the current session.  Returns True if it completed."""
        from aiohomekit.controller.ble import client as bc
        from aiohomekit.pdu import OpCode
        link = _BleLink(self, frag)
        link.fail_write_at = fail_write_at
        link.read_plan = list(read_plan)
        e0, d0, o0 = len(self.enc_log), len(self.dec_log), len(self.offered)
        data = bytes(self.rng.randrange(256) for _ in range(req_len))
        orig_read = link.read_gatt_char
        prepared = []

        async def read(handle):
            if not prepared:
                prepared.append(1)
                self._flush_enc(e0)                  # everything encrypted for this request, before any answer
                link.prepare_response(resp_len, resp_frags)
            return await orig_read(handle)
        link.read_gatt_char = read
        ok = True
        try:
            await bc.ble_request(link, self.ek, self.dk, OpCode.CHAR_WRITE, link.handle, 6, data)
        except asyncio.CancelledError:
            raise
        except BaseException:  # noqa: BLE001
            ok = False
        if not prepared:
            self._flush_enc(e0)
        # what the controller's decrypt did with what it was offered, in order
        decs = self.dec_log[d0:]
        offs = self.offered[o0:]
        for (kind, k), (ctr, good) in zip(offs, decs):
            if kind == "corrupt":
                self.log("corrupt", ok=bool(good))
            else:
                self.log("deliver", k=k, ok=bool(good))
        if not ok:
            # what BlePairing does after any failed request: the session is closed, the next one starts with new keys
            self.open = False
            self.log("abandon")
        return ok


async def drive_ble_requests(rng, nsteps):
    """A seeded history of request-level BLE transactions with faults."""
    r = BleReqRunner(rng)
    for _ in range(nsteps):
        if not r.open:
            r.rekey()
        frag = rng.choice([20, 30, 81, 82, 100, 155, 244, 509])
        req_len = rng.choice([0, 1, 10, frag - 8, frag, 3 * frag, rng.randrange(0, 700)])
        x = rng.random()
        fail_at = None
        plan = []
        resp_frags = rng.randrange(1, 5)
        resp_len = rng.choice([0, 1, 5, 60, rng.randrange(0, 400)])
        if x < 0.25:
            nw = max(1, -(-(req_len + 7) // frag))
            fail_at = rng.choice([0, 0, rng.randrange(0, nw)])       # mostly the very first write of the request
        elif x < 0.45 and r.frames:
            plan = [("replay", rng.randrange(0, len(r.frames)))]
        elif x < 0.55:
            plan = [rng.choice(["next", "skip"]), "skip"]
        elif x < 0.65:
            plan = [rng.choice(["corrupt", "next"]), "corrupt"]
        await r.transaction(frag, req_len, fail_at, resp_len, resp_frags, plan)
    return r
