"""C13 driver: concretise CharIO cases (spec/chars/CharIO.tla) for the three transports, run them on the real
code and abstract what came back into observation records.

  IP    a real IpPairing over the in-process network (harness/simnet.py): pair-verify, secure session, HTTP; the
        accessory answers GET/PUT /characteristics with the scripted JSON.  format_characteristic_list is also
        called directly.
  CoAP  a real CoAPPairing / CoAPHomeKitConnection / EncryptionContext (real ChaCha20-Poly1305, real PDU batch
        encode / decode); only aiocoap's Context is replaced by an object that answers the POST.
  BLE   a real BlePairing.put_characteristics down to ble_request / encode_pdu / decode_pdu over a scripted GATT
        client (no encryption keys installed); the connection set-up (_populate_accessories_and_characteristics)
        is stubbed out.

Nothing here decides a verdict: observation records go to TLC (CharIO_Trace, relation Holds).
"""
from __future__ import annotations

import asyncio
import copy
import json
import re
import struct
import types

from harness import simnet, vloop
from harness.refacc import accessory as RA

U_IP = {1: (1, 10), 2: (2, 10), 3: (1, 11), 4: (2, 11)}          # same iid under two accessory ids
U_PDU = {1: (1, 51), 2: (1, 52), 3: (1, 53), 4: (1, 54)}         # On, Brightness, Hue, Saturation (nanoleaf db)
PERMS = {"rw": ["pr", "pw", "ev"], "wo": ["pw"], "tw": ["pr", "pw", "tw"], "ro": ["pr"]}
CLIP = 2_000_000_000

SVC_INFO = "0000003E-0000-1000-8000-0026BB765291"
SVC_LIGHT = "00000043-0000-1000-8000-0026BB765291"
CH_ON = "00000025-0000-1000-8000-0026BB765291"
CH_BRIGHT = "00000008-0000-1000-8000-0026BB765291"
CH_HUE = "00000013-0000-1000-8000-0026BB765291"
CH_SAT = "0000002F-0000-1000-8000-0026BB765291"


def written_value(k: int):
    return 500 + k


def read_value(j: int):
    return 1000 + j


# ------------------------------------------------------------------ descriptions -> codes
_DESC = None


def desc_code(text, status):
    """The status code whose description text was reported (UNKNOWN = -1; 0 none; -2 something else)."""
    global _DESC
    if _DESC is None:
        from aiohomekit.protocol.statuscodes import HapStatusCode
        _DESC = {m.description: m.value for m in HapStatusCode}
    if text is None:
        return 0
    if text in _DESC:
        return _DESC[text]
    m = re.fullmatch(r"Unknown error code: (-?\d+)", str(text))
    if m and int(m.group(1)) == status:
        return -1
    return -2


def _clip(n):
    return max(-CLIP, min(CLIP, n))


def abstract_result(result, universe, nentries, value_of):
    """returned dict -> list of [k, kind, s, d, v] records."""
    inv = {v: k for k, v in universe.items()}
    out = []
    if not isinstance(result, dict):
        return [{"k": 0, "kind": "other", "s": 0, "d": 0, "v": 0}]
    for key, val in result.items():
        k = inv.get(tuple(key) if isinstance(key, (tuple, list)) else key, 0)
        rec = {"k": k, "kind": "other", "s": 0, "d": 0, "v": 0}
        if isinstance(val, dict):
            st = val.get("status", 0)
            if hasattr(st, "value") and not isinstance(st, int):
                st = st.value                                  # BLE reports an enum member
            has_v = "value" in val
            if isinstance(st, bool) or not isinstance(st, int):
                pass
            elif has_v and st == 0:
                rec["kind"] = "value"
                for j in range(1, nentries + 1):
                    if value_of(j, k) == val["value"] and type(value_of(j, k)) is type(val["value"]):
                        rec["v"] = j
                        break
            elif "status" in val and not has_v:
                rec["kind"] = "status"
                rec["s"] = _clip(st)
                rec["d"] = desc_code(val.get("description"), st)
            elif not has_v:
                rec["kind"] = "empty"
        out.append(rec)
    out.sort(key=lambda r: (r["k"], r["kind"], r["s"]))
    return out


def abstract_listeners(calls, universe, items):
    inv = {v: k for k, v in universe.items()}
    ncount = [0, 0, 0, 0]
    nbad = False
    for payload in calls:
        if payload == {}:
            continue                                            # availability ping, carries no characteristic
        if not isinstance(payload, dict):
            nbad = True
            continue
        for key, val in payload.items():
            k = inv.get(key, 0)
            if k and k in items and val == {"value": written_value(k)}:
                ncount[k - 1] += 1
            else:
                nbad = True
    return ncount, nbad


def obs_record(exc, result, calls, universe, case, value_of=None, coll=None, asked=None):
    n = len(case["entries"])
    vf = value_of or (lambda j, k: read_value(j))
    if exc is not None:
        res = []
    else:
        res = abstract_result(result, universe, n, vf)
    ncount, nbad = abstract_listeners(calls, universe, case["items"])
    inv = {v: k for k, v in universe.items()}
    return {"exc": exc is not None, "res": res, "ncount": ncount, "nbad": nbad,
            "collSame": True if coll is None else coll.same(),
            "asked": sorted({inv.get(tuple(x), 0) for x in asked}) if asked is not None else [],
            "askedChecked": asked is not None}


# ------------------------------------------------------------------ the caller's request collection
READ_COLLS = {"ip": ["set", "list", "tuple", "frozenset", "dict_keys", "generator"],
              "coap": ["list", "tuple", "set", "frozenset", "dict_keys"],      # iterated twice: no one-shot iterables
              "ffl": ["set", "frozenset"]}
WRITE_COLLS = {"ip": ["list", "tuple", "set", "frozenset", "dict_keys", "generator"],
               "coap": ["list", "tuple"],                                        # indexed by position
               "ble": ["list", "tuple", "dict_keys", "generator"]}              # written in iteration order


class Coll:
    """One caller-side collection object, handed to call after call."""

    def __init__(self, typ: str, tuples):
        self.typ = typ
        self.orig = list(tuples)
        self.base = list(tuples)
        if typ == "list":
            self.obj = self.base
        elif typ == "tuple":
            self.obj = tuple(tuples)
        elif typ == "set":
            self.obj = set(tuples)
        elif typ == "frozenset":
            self.obj = frozenset(tuples)
        elif typ == "dict_keys":
            self.d = {t: None for t in tuples}
            self.obj = self.d.keys()
        elif typ == "generator":
            self.obj = None          # a generator is one-shot: the caller makes a new one from its list each time
        else:
            raise ValueError(typ)

    def arg(self):
        if self.typ == "generator":
            return (t for t in self.base)
        return self.obj

    def content(self):
        if self.typ == "generator":
            return list(self.base)
        if self.typ in ("set", "frozenset"):
            return sorted(self.obj, key=repr)
        return list(self.obj)

    def original(self):
        return sorted(self.orig, key=repr) if self.typ in ("set", "frozenset") else list(self.orig)

    def same(self):
        return self.content() == self.original()


# ------------------------------------------------------------------ IP
def ip_accessories(perm_of):
    """accessory database for the IP universe; perm_of: k -> permission class (default rw)."""
    accs = []
    for aid in (1, 2):
        chars = []
        for k, (a, iid) in U_IP.items():
            if a == aid:
                chars.append({"iid": iid, "type": CH_BRIGHT if iid == 10 else CH_HUE, "perms": PERMS[perm_of.get(k, "rw")],
                              "format": "int", "value": 0} if "pr" in PERMS[perm_of.get(k, "rw")] else
                             {"iid": iid, "type": CH_BRIGHT if iid == 10 else CH_HUE, "perms": PERMS[perm_of.get(k, "rw")],
                              "format": "int"})
        accs.append({"aid": aid, "services": [
            {"iid": 1, "type": SVC_INFO, "characteristics": [
                {"iid": 2, "type": "00000014-0000-1000-8000-0026BB765291", "perms": ["pw"], "format": "bool"},
                {"iid": 3, "type": "00000023-0000-1000-8000-0026BB765291", "perms": ["pr"], "format": "string", "value": "Sim"}]},
            {"iid": 8, "type": SVC_LIGHT, "characteristics": chars}]})
    return accs


NONDICT = [True, 17, "x", None, [1, 2], False]


def ip_reply(case, variant: int):
    """(http status, body bytes, python object of the body) for an IP case; variant picks the shape of malformed
    entries and whether the document uses trailing commas."""
    if case["http"] == "204":
        return 204, b"", None
    lst = []
    for j, e in enumerate(case["entries"], start=1):
        t = e["t"]
        if t in ("val", "val0", "st"):
            aid, iid = U_IP[e["k"]]
            d = {"aid": aid, "iid": iid}
            if t in ("val", "val0"):
                d["value"] = read_value(j)
            if t == "val0":
                d["status"] = 0
            if t == "st":
                d["status"] = e["s"]
            lst.append(d)
        elif t == "nondict":
            lst.append(NONDICT[(variant + j) % len(NONDICT)])
        else:
            aid, iid = U_IP[case["items"][(variant + j) % len(case["items"])]]
            d = {"iid": iid} if t == "noaid" else {"aid": aid}
            if case["op"] == "write":
                d["status"] = -70410
            else:
                d["value"] = 5
            lst.append(d)
    body = {"characteristics": lst}
    if case["hasG"]:
        body["status"] = case["g"]
    txt = json.dumps(body, separators=(",", ":"))
    if variant % 16 == 7:
        # the tolerant loader must accept trailing commas (iOS does)
        txt = txt.replace("}]", "},]", 1) if "}]" in txt else txt[:-1] + ",}"
    multi = any(e["t"] == "st" and e["s"] != 0 for e in case["entries"]) or case["op"] == "write"
    return (207 if multi else 200), txt.encode(), body


class IpSession:
    def __init__(self):
        self.loop = vloop.new_loop()
        self.ident = RA.Identity()
        self.beh = simnet.Behaviour(self.ident, accessories=ip_accessories({}))
        self.reply = None
        self.requests = []
        self.beh.request_script = self._script
        self.calls = []
        self.net, self.pairing = simnet.make_pairing(self.loop, behaviour=self.beh, ident=self.ident)
        self.run(self.pairing._ensure_connected())
        self.run(self.pairing.list_accessories_and_characteristics())
        self.pairing.dispatcher_connect(self.calls.append)
        self.perm_key = None

    def _script(self, conn, req):
        if req.secure and req.target.startswith("/characteristics") and self.reply is not None:
            st, body = self.reply
            self.requests.append((req.method, req.target, bytes(req.body)))
            conn.respond(req, st, body, "application/hap+json" if body else None)
            return True
        return False

    def run(self, coro):
        return self.loop.run_until_complete(coro)

    def set_perms(self, case):
        pm = {k: p for k, p in zip(case["items"], case["perms"])}
        key = tuple(sorted(pm.items()))
        if key != self.perm_key:
            self.pairing.restore_accessories_state(ip_accessories(pm), 1, None)
            self.perm_key = key

    @staticmethod
    def tuples(case):
        if case["op"] == "write":
            return [(*U_IP[k], written_value(k)) for k in case["items"]]
        return [U_IP[k] for k in case["items"]]

    def _asked(self):
        if len(self.requests) != 1:
            return None
        method, target, body = self.requests[0]
        try:
            if method == "GET":
                return [tuple(int(x) for x in s.split(".")) for s in target.split("=", 1)[1].split(",") if s]
            return [(c["aid"], c["iid"]) for c in json.loads(body)["characteristics"]]
        except Exception:  # noqa: BLE001
            return [(0, 0)]

    def run_case(self, case, variant, coll=None):
        self.set_perms(case)
        st, body, _ = ip_reply(case, variant)
        self.reply = (st, body)
        del self.calls[:]
        del self.requests[:]
        coll = coll or Coll("list", self.tuples(case))
        before = coll.content()
        exc = result = None
        try:
            if case["op"] == "write":
                result = self.run(self.pairing.put_characteristics(coll.arg()))
            else:
                result = self.run(self.pairing.get_characteristics(coll.arg()))
        except Exception as ex:  # noqa: BLE001
            exc = ex
        self.loop.settle()
        rec = obs_record(exc, result, list(self.calls), U_IP, case, coll=coll, asked=self._asked())
        detail = {"http": st, "body": body.decode(), "returned": repr(result) if exc is None else None,
                  "raised": f"{type(exc).__name__}: {exc}" if exc is not None else None,
                  "listener_calls": [repr(c) for c in self.calls], "requests_seen": len(self.requests),
                  "collection": coll.typ, "collection_before": repr(before), "collection_after": repr(coll.content()),
                  "collection_original": repr(coll.original())}
        healthy = exc is None and self.pairing.is_connected and len(self.requests) == 1
        return rec, detail, healthy

    def close(self):
        try:
            self.run(self.pairing.close())
        except Exception:  # noqa: BLE001
            pass
        try:
            self.net.uninstall()
        finally:
            vloop.close_loop(self.loop)


def ffl_case(case, variant, coll=None):
    """format_characteristic_list called directly (with or without the requested set)."""
    from aiohomekit.controller.ip.pairing import format_characteristic_list
    _, _, body = ip_reply(case, variant - (variant % 16 == 7))
    if case["reqKnown"] and coll is None:
        coll = Coll("set", [U_IP[k] for k in case["items"]])
    if not case["reqKnown"]:
        coll = None
    before = coll.content() if coll else None
    exc = result = None
    try:
        result = format_characteristic_list(copy.deepcopy(body), coll.arg() if coll else None)
    except Exception as ex:  # noqa: BLE001
        exc = ex
    rec = obs_record(exc, result, [], U_IP, case, coll=coll)
    detail = {"body": json.dumps(body), "requested": repr(before),
              "returned": repr(result) if exc is None else None,
              "raised": f"{type(exc).__name__}: {exc}" if exc is not None else None,
              "collection": coll.typ if coll else "none", "collection_before": repr(before),
              "collection_after": repr(coll.content()) if coll else "None",
              "collection_original": repr(coll.original()) if coll else "None"}
    return rec, detail


# ------------------------------------------------------------------ CoAP
DATABASE_NANOLEAF = bytes.fromhex(
    "18ff19ff1a02010016ff15f10702010006013e100014e61314"
    "050202000401140a0220000c070100002701000000001314050203000401"
    "200a0210000c071900002701000000001314050204000401210a0210000c"
    "071900002701000000001314050205000401230a0210000c071900002701"
    "000000001314050206000401300a0210000c071900002701000000001314"
    "050207000401520a0210000c071900002701000000001314050208000401"
    "530a0210000c0719000027010000000013230502090004103b94f9856afd"
    "c3ba40437fac1188ab340a0250000c07190000270100000000131505020a"
    "00040220020a0250000c071b0000270100000000153d18ff070219ff1000"
    "0601a20f16ff0204001000142e1314050211000401a50a0210000c071b00"
    "002701000000001314050212000401370a0210000c071900002701000000"
    "001569070220000601551000145e13140502220004014c0a0203000c071b"
    "000027010000000013140502230004014e0a0203000c071b000027010000"
    "000013140502240004014f0a0201000c0704000027010000000013140502"
    "25000401500a0230000c071b000027010000000015ff070230000601430f"
    "020100100014ff1314050231000401a50a0210000c071b00002701000000"
    "001314050232000401230a0210000c071900002701000000001314050233"
    "000401250a02b0030c18ff0701000019ff270100000000131e16ff050237"
    "000401ce0a02b0030c07080000270100000d0899000000d6010000000013"
    "1e050234000401080a02b0030c071000ad270100000d0800000000640000"
    "000000132305023c000410bdeeeece71000fa1374da1cf02198ea20a0270"
    "000c071b0000270100000000131505023900040244010a0210000c071b00"
    "00270100000000131505023800040243010a0230000c071b000027010000"
    "0000131905023a0004024b020a15620290030c07040000270100000d0200"
    "14510200001324050235000401130a02b0030c07140063270100000d0800"
    "0000000000b4430e040000803f000013240502360004012f0a0218ffb003"
    "0c07140019ffad270100000d0800000016ff000000c8420e040000803f00"
    "0015ab07027000060201071000149f1314050271000401a50a0210000c07"
    "1b0000270100000000131505027400040206070a0210000c071900002701"
    "00000000131b05027300040202070a0210000c07060000270100000d0400"
    "001f000000131b05027500040203070a0290030c07060000270100000d04"
    "00007f00000013150502760004022b020a0210000c070100002701000000"
    "00131505027700040204070a0230000c071b000027010000000015770702"
    "000a060239021000146b13140502040a0401a50a0210000c071b00002701"
    "00000000131f0502010a04023a184e020a0210000c070819440000270100"
    "000d08000000001636ffffff03000013150502020a04023c020a0211000c"
    "071b000027010000000013150502050a04024a020a0290030c0708000027"
    "010000")     # the Pdu09 database used by the repository's own tests (tests/test_controller_coap.py)

# value written to / read from characteristic k on the PDU transports (formats: bool, int32, float, float)
PDU_WRITE = {1: True, 2: 71, 3: 72.0, 4: 73.0}


def pdu_read_value(j, k):
    return {1: True, 2: 20 + j, 3: float(30 + j), 4: float(40 + j)}[k]


def pdu_read_bytes(j, k):
    v = pdu_read_value(j, k)
    raw = {1: lambda: b"\x01", 2: lambda: struct.pack("<l", v), 3: lambda: struct.pack("<f", v),
           4: lambda: struct.pack("<f", v)}[k]()
    return bytes([0x01, len(raw)]) + raw


def pdu_accessories(perm_of):
    chars = []
    for k, (aid, iid) in U_PDU.items():
        typ, fmt = {1: (CH_ON, "bool"), 2: (CH_BRIGHT, "int"), 3: (CH_HUE, "float"), 4: (CH_SAT, "float")}[k]
        d = {"iid": iid, "type": typ, "perms": PERMS[perm_of.get(k, "rw")], "format": fmt}
        if "pr" in d["perms"]:
            d["value"] = False if fmt == "bool" else 0
        chars.append(d)
    return [{"aid": 1, "services": [
        {"iid": 1, "type": SVC_INFO, "characteristics": [
            {"iid": 2, "type": "00000014-0000-1000-8000-0026BB765291", "perms": ["pw"], "format": "bool"},
            {"iid": 3, "type": "00000023-0000-1000-8000-0026BB765291", "perms": ["pr"], "format": "string", "value": "Sim"}]},
        {"iid": 48, "type": SVC_LIGHT, "characteristics": chars}]}]


class _FakeCoapRequest:
    def __init__(self, fut):
        self.response = fut


class FakeCoapContext:
    """Stands in for aiocoap.Context: answers each POST with what the scripted accessory says."""

    def __init__(self, owner):
        self.owner = owner

    def request(self, msg):
        fut = asyncio.get_event_loop().create_future()
        try:
            fut.set_result(self.owner.on_post(msg))
        except Exception as ex:  # noqa: BLE001
            fut.set_exception(ex)
        return _FakeCoapRequest(fut)

    async def shutdown(self):
        return None


class CoapSession:
    def __init__(self):
        from cryptography.hazmat.primitives.ciphers.aead import ChaCha20Poly1305
        from aiohomekit.characteristic_cache import CharacteristicCacheMemory
        from aiohomekit.controller.coap.connection import EncryptionContext
        from aiohomekit.controller.coap.pairing import CoAPPairing
        from aiohomekit.controller.coap.structs import Pdu09Database
        self.loop = vloop.new_loop()
        controller = types.SimpleNamespace(_char_cache=CharacteristicCacheMemory(), pairings={}, aliases={})
        pdata = {"AccessoryPairingID": "C1:3C:0A:00:00:01", "AccessoryIP": "fd00::1", "AccessoryPort": 5683,
                 "Connection": "CoAP"}
        self.k_c2a, self.k_a2c = bytes(range(32)), bytes(range(32, 64))
        self.acc_recv = ChaCha20Poly1305(self.k_c2a)
        self.acc_send = ChaCha20Poly1305(self.k_a2c)
        self.acc_recv_ctr = 0
        self.acc_send_ctr = 0

        async def mk():
            p = CoAPPairing(controller, pdata)
            p.connection.info = Pdu09Database.decode(DATABASE_NANOLEAF)
            p.connection.enc_ctx = EncryptionContext(ChaCha20Poly1305(self.k_a2c), ChaCha20Poly1305(self.k_c2a),
                                                     ChaCha20Poly1305(bytes(32)), "coap://[fd00::1]:5683/", FakeCoapContext(self))
            return p
        self.pairing = self.loop.run_until_complete(mk())
        self.calls = []
        self.pairing.dispatcher_connect(self.calls.append)
        self.perm_key = None
        self.case = None
        self.seen = []

    # accessory side: decrypt the PDU batch, answer per the case
    def on_post(self, msg):
        from aiocoap import Message
        from aiocoap.numbers.codes import Code
        plain = self.acc_recv.decrypt(struct.pack("=4xQ", self.acc_recv_ctr), bytes(msg.payload), b"")
        self.acc_recv_ctr += 1
        pdus, off = [], 0
        while off < len(plain):
            _ctl, opcode, tid, iid, blen = struct.unpack("<BBBHH", plain[off:off + 7])
            pdus.append((opcode, tid, iid, plain[off + 7:off + 7 + blen]))
            off += 7 + blen
        self.seen.append(pdus)
        out = b""
        case = self.case
        iids = [U_PDU[k][1] for k in case["items"]]
        for opcode, tid, iid, body in pdus:
            if iid not in iids:
                out += struct.pack("<BBBH", 0x02, tid, 4, 0)          # invalid instance id
                continue
            pos = iids.index(iid)
            e = case["entries"][pos]
            k = e["k"]
            if e["t"] == "val":
                b = pdu_read_bytes(pos + 1, k)
                out += struct.pack("<BBBH", 0x02, tid, 0, len(b)) + b
            else:
                out += struct.pack("<BBBH", 0x02, tid, e["s"], 0)
        enc = self.acc_send.encrypt(struct.pack("=4xQ", self.acc_send_ctr), out, b"")
        self.acc_send_ctr += 1
        return Message(code=Code.CHANGED, payload=enc)

    def run_case(self, case, variant, coll=None):
        pm = {k: p for k, p in zip(case["items"], case["perms"])}
        key = tuple(sorted(pm.items()))
        if key != self.perm_key:
            self.pairing.restore_accessories_state(pdu_accessories(pm), 1, None)
            self.perm_key = key
        self.case = case
        del self.calls[:]
        del self.seen[:]
        coll = coll or Coll("list", pdu_tuples(case))
        before = coll.content()
        exc = result = None
        try:
            if case["op"] == "write":
                result = self.loop.run_until_complete(self.pairing.put_characteristics(coll.arg()))
            else:
                result = self.loop.run_until_complete(self.pairing.get_characteristics(coll.arg()))
        except Exception as ex:  # noqa: BLE001
            exc = ex
        calls = [_norm_pdu_call(c) for c in self.calls]
        asked = [(1, p[2]) for p in self.seen[0]] if len(self.seen) == 1 else None
        # results are positional: entry j answers the j-th requested characteristic of the case
        rec = obs_record(exc, result, calls, U_PDU, case, value_of=pdu_read_value, coll=coll, asked=asked)
        detail = {"pdu_statuses": [e["s"] for e in case["entries"]], "returned": repr(result) if exc is None else None,
                  "raised": f"{type(exc).__name__}: {exc}" if exc is not None else None,
                  "listener_calls": [repr(c) for c in self.calls], "requests_seen": len(self.seen),
                  "collection": coll.typ, "collection_before": repr(before), "collection_after": repr(coll.content()),
                  "collection_original": repr(coll.original())}
        healthy = exc is None and self.pairing.is_connected and len(self.seen) == 1
        return rec, detail, healthy

    def close(self):
        vloop.close_loop(self.loop)


def pdu_tuples(case):
    if case["op"] == "write":
        return [(*U_PDU[k], PDU_WRITE[k]) for k in case["items"]]
    return [U_PDU[k] for k in case["items"]]


def _norm_pdu_call(payload):
    """listener payload with the PDU transports' written values mapped to the common written_value(k)."""
    if not isinstance(payload, dict):
        return payload
    inv = {v: k for k, v in U_PDU.items()}
    out = {}
    for key, val in payload.items():
        k = inv.get(key, 0)
        if k and isinstance(val, dict) and set(val) == {"value"} and val["value"] == PDU_WRITE[k] \
                and type(val["value"]) is type(PDU_WRITE[k]):
            out[key] = {"value": written_value(k)}
        else:
            out[key] = {"value": ("unexpected", repr(val))}
    return out


# ------------------------------------------------------------------ BLE
LINK_LOST = 255          # CharIO!LINK_LOST


class _Handle:
    def __init__(self, iid):
        self.iid = iid
        self.properties = ["read", "write"]
        self.uuid = f"0000{iid:04x}-0000-1000-8000-0026bb765291"
        self.handle = iid


class FakeGatt:
    """Scripted GATT client: HAP-BLE request PDUs in (control 0x00, opcode, tid, iid, [len, body]), response PDUs
    out (control 0x02, tid, status, [len, body]); no fragmentation needed for these sizes, no session keys."""

    def __init__(self, owner):
        self.owner = owner
        self.address = "AA:BB:CC:DD:EE:13"
        self.is_connected = True
        self.out = {}

    async def get_characteristic(self, service_uuid, characteristic_uuid, iid=None):
        return _Handle(iid)

    def determine_fragment_size(self, overhead, handle):
        return 244 - overhead

    async def write_gatt_char(self, handle, data, response=True):
        data = bytes(data)
        _ctl, opcode, tid, iid = struct.unpack("<BBBH", data[:5])
        status = self.owner.on_pdu(opcode, iid)
        if status == LINK_LOST:
            # the link drops while this request is in flight: the library finds the client disconnected after
            # the exchange and raises AccessoryDisconnectedError (not one of the retried bleak errors)
            status = 0
            self.is_connected = False
        self.out[handle.iid] = struct.pack("<BBB", 0x02, tid, status)

    async def read_gatt_char(self, handle):
        return self.out.pop(handle.iid)

    async def disconnect(self):
        self.is_connected = False

    async def clear_cache(self):
        return None


class BleSession:
    def __init__(self):
        from aiohomekit.characteristic_cache import CharacteristicCacheMemory
        from aiohomekit.controller.ble.pairing import BlePairing
        self.loop = vloop.new_loop()
        controller = types.SimpleNamespace(_char_cache=CharacteristicCacheMemory(), pairings={}, aliases={})
        pdata = {"AccessoryPairingID": "C1:3B:1E:00:00:01", "AccessoryAddress": "AA:BB:CC:DD:EE:13", "Connection": "BLE",
                 "AccessoryLTPK": "00" * 32, "iOSPairingId": "x", "iOSDeviceLTSK": "00" * 32, "iOSDeviceLTPK": "00" * 32}
        self.client = FakeGatt(self)

        async def mk():
            p = BlePairing(controller, pdata, client=self.client)

            async def populate(*a, **k):
                return None
            p._populate_accessories_and_characteristics = populate
            return p
        self.pairing = self.loop.run_until_complete(mk())
        self.calls = []
        self.pairing.dispatcher_connect(self.calls.append)
        self.perm_key = None
        self.case = None
        self.seen = []
        self.variant = 0

    def on_pdu(self, opcode, iid):
        self.seen.append((opcode, iid))
        case = self.case
        pos = [U_PDU[k][1] for k in case["items"]].index(iid)
        s = case["entries"][pos]["s"]
        if case["perms"][pos] == "tw" and s != 0:
            # a timed write is two PDUs: reject the first or the second one
            first = (self.variant + pos) % 2 == 0
            if (opcode == 0x04) != first:
                return 0
        return s

    def run_case(self, case, variant, coll=None):
        pm = {k: p for k, p in zip(case["items"], case["perms"])}
        key = tuple(sorted(pm.items()))
        if key != self.perm_key:
            self.pairing.restore_accessories_state(pdu_accessories(pm), 1, None)
            self.perm_key = key
        self.case, self.variant = case, variant
        del self.calls[:]
        del self.seen[:]
        self.client.is_connected = True
        coll = coll or Coll("list", pdu_tuples(case))
        before = coll.content()
        exc = result = None
        try:
            result = self.loop.run_until_complete(self.pairing.put_characteristics(coll.arg()))
        except Exception as ex:  # noqa: BLE001
            exc = ex
        calls = [_norm_pdu_call(c) for c in self.calls]
        # a call that ran to its end must have asked for every writable requested characteristic
        asked = None
        if exc is None:
            asked = [(1, iid) for _op, iid in self.seen] + \
                    [U_PDU[k] for k, p in zip(case["items"], case["perms"]) if p == "ro"]
        rec = obs_record(exc, result, calls, U_PDU, case, coll=coll, asked=asked)
        detail = {"pdu_statuses": [e["s"] for e in case["entries"]], "returned": repr(result) if exc is None else None,
                  "raised": f"{type(exc).__name__}: {exc}" if exc is not None else None,
                  "listener_calls": [repr(c) for c in self.calls], "pdus_seen": list(self.seen),
                  "collection": coll.typ, "collection_before": repr(before), "collection_after": repr(coll.content()),
                  "collection_original": repr(coll.original())}
        healthy = exc is None or type(exc).__name__ in ("PDUStatusError", "AccessoryDisconnectedError")
        return rec, detail, healthy

    def close(self):
        vloop.close_loop(self.loop)
